#!/usr/bin/env python3
"""record which checks catch a filed seeded change:  seeddet.py <seed-id> <check> [<check>...] [--note text]"""
import json, os, sys
V = os.path.dirname(os.path.dirname(os.path.abspath(__file__)))
a = sys.argv[1:]
note = None
if "--note" in a:
    i = a.index("--note"); note = " ".join(a[i + 1:]); a = a[:i]
p = os.path.join(V, "seeded", a[0], "meta.json")
m = json.load(open(p))
m["detected_by_checks"] = sorted(set(m.get("detected_by_checks", [])) | set(a[1:]))
if note:
    m["note"] = note
json.dump(m, open(p, "w"), indent=1)
print(a[0], m["detected_by_checks"])
