#!/usr/bin/env python3
"""Merge a property agent's workspace into /verif and /repo.
   mergeprop.py <cNN> [--no-fixes]
Copies files that exist only in the agent's tree; for shared append-only files (tools/dumpgen.py, harness/s_fmt.c,
KNOWN_FINDINGS, lean/Driver/Main.lean) it appends/patches what the agent added relative to the BASE snapshot the
agent started from (reconstructed as the longest common prefix/suffix); cherry-picks the agent's fix: commits."""
import os, subprocess, sys, shutil, difflib
pid = sys.argv[1]
A = "/var/tmp/agents/prop_%s" % pid
AV, AR = A + "/verif", A + "/repo"
V = "/verif"
def sh(c, **kw):
    return subprocess.run(c, shell=True, capture_output=True, text=True, **kw)
# 1. fix commits
if "--no-fixes" not in sys.argv:
    base = sh("git -C %s merge-base HEAD $(git -C /repo rev-parse HEAD) 2>/dev/null" % AR).stdout.strip()
    if not base:
        # histories are related by copy: find the newest agent commit that exists in /repo
        for c in sh("git -C %s log --format=%%H" % AR).stdout.split():
            if sh("git -C /repo cat-file -e %s" % c).returncode == 0:
                base = c; break
    commits = sh("git -C %s log --reverse --format=%%H %s..HEAD" % (AR, base)).stdout.split()
    print("fix commits to pick:", len(commits))
    sh("git -C /repo fetch -q %s HEAD" % AR)
    for c in commits:
        r = sh("git -C /repo cherry-pick %s" % c)
        msg = sh("git -C %s log --format=%%s -1 %s" % (AR, c)).stdout.strip()
        print(("  picked " if r.returncode == 0 else "  CONFLICT ") + c[:7], msg)
        if r.returncode:
            print(r.stdout[-500:], r.stderr[-500:])
            sys.exit(1)
# 2. new files
skip_dirs = {".git", ".lake", "replays", "__pycache__", "evidence"}
new, shared = [], []
for root, dirs, files in os.walk(AV):
    dirs[:] = [d for d in dirs if d not in skip_dirs]
    for f in files:
        p = os.path.join(root, f)
        rel = os.path.relpath(p, AV)
        q = os.path.join(V, rel)
        if not os.path.exists(q):
            new.append(rel)
        elif open(p, "rb").read() != open(q, "rb").read():
            shared.append(rel)
for rel in new:
    if rel.startswith("REPORT_"):
        os.makedirs(os.path.join(V, "corpus"), exist_ok=True)
        shutil.copy(os.path.join(AV, rel), os.path.join(V, "corpus", rel))
        continue
    os.makedirs(os.path.dirname(os.path.join(V, rel)) or V, exist_ok=True)
    shutil.copy(os.path.join(AV, rel), os.path.join(V, rel))
print("copied new files:", len(new))
for r in new: print("   ", r)
print("shared files that differ (merge by hand if the agent changed them):")
for r in shared: print("   ", r)
