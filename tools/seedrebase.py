#!/usr/bin/env python3
"""Re-base a filed seeded change onto /repo HEAD with fuzzy context matching (patch -F3), rewrite its patch.diff.
   seedrebase.py <seed-id>     (leaves /repo clean)"""
import json, os, subprocess, sys
V = os.path.dirname(os.path.dirname(os.path.abspath(__file__)))
sid = sys.argv[1]
d = os.path.join(V, "seeded", sid)
pf = os.path.join(d, "patch.diff")
r = subprocess.run("patch -p1 -F3 --no-backup-if-mismatch < %s" % pf, shell=True, cwd="/repo", capture_output=True, text=True)
try:
    if r.returncode:
        print("does not apply even with fuzz:\n" + r.stdout[-500:]); sys.exit(1)
    diff = subprocess.run(["git", "-C", "/repo", "diff"], capture_output=True, text=True).stdout
finally:
    subprocess.run(["git", "-C", "/repo", "checkout", "--", "."], check=True)
    subprocess.run("find /repo -name '*.orig' -newer %s -delete; find /repo -name '*.rej' -delete" % pf, shell=True)
open(pf, "w").write(diff)
m = json.load(open(os.path.join(d, "meta.json")))
m["rebased_onto"] = subprocess.run(["git", "-C", "/repo", "log", "--format=%h %s", "-1"], capture_output=True, text=True).stdout.strip()
json.dump(m, open(os.path.join(d, "meta.json"), "w"), indent=1)
print(sid, "re-based,", len(diff.split("\n")), "lines")
