#!/usr/bin/env python3
"""appendmerge.py <agent-file> <base-commit> <rel-path>: the agent only APPENDED to the file; append its tail to /verif's copy"""
import sys, subprocess
af, base, rel = sys.argv[1:4]
b = subprocess.run(['git', '-C', '/verif', 'show', '%s:%s' % (base, rel)], capture_output=True, text=True).stdout
a = open(af).read()
if not a.startswith(b):
    print('agent file does not start with the base content'); sys.exit(1)
tail = a[len(b):]
cur = open('/verif/' + rel).read()
if tail.strip() and tail.strip() not in cur:
    open('/verif/' + rel, 'a').write(('' if cur.endswith('\n') else '\n') + tail)
    print('appended %d lines to %s' % (tail.count('\n'), rel))
else:
    print('nothing to append')
