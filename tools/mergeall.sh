#!/bin/sh
# mergeall.sh <cNN> <Driver module name or -> <stream or -> <base commit>
p=$1; mod=$2; stream=$3; base=$4
python3 /verif/tools/mergeprop.py $p 2>&1 | grep -v '^    ' | head -30
A=/var/tmp/agents/prop_$p/verif
/verif/tools/merge3.sh $A $base tools/dumpgen.py harness/s_fmt.c harness/hcommon.h harness/alloc.h tools/extract.py 2>&1 | grep -v '^merged'
python3 /verif/tools/kfmerge.py $A/KNOWN_FINDINGS /var/tmp/agents/prop_$p/repo | cut -c1-180
if [ "$mod" != "-" ]; then python3 - "$mod" "$stream" <<'EOF'
import sys
mod, stream = sys.argv[1], sys.argv[2]
p='/verif/lean/Driver/Main.lean'
s=open(p).read()
if 'import Driver.%s\n'%mod not in s:
    lines=s.split('\n'); last=max(i for i,l in enumerate(lines) if l.startswith('import ')); lines.insert(last+1,'import Driver.%s'%mod); s='\n'.join(lines)
arm='  | ["%s"] => Driver.%s.run stdin; return 0'%(stream,mod)
if arm not in s:
    s=s.replace('  | _ => IO.eprintln "usage: kdfdrv <stream>"; return 2', arm+'\n  | _ => IO.eprintln "usage: kdfdrv <stream>"; return 2')
open(p,'w').write(s)
EOF
fi
(cd /repo && make -j16 check 2>&1 | grep -E '^# (FAIL|ERROR)' | tr '\n' ' '); echo
