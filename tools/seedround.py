#!/usr/bin/env python3
"""Process the deliveries of one mutation round for one property:
   seedround.py <round dir, e.g. /tmp/mut3> <scratch root, e.g. /tmp/wt3> <CNN> [other checks to try when the own check misses ...]
For each <round>/<CNN>/<k>/ (patch.diff, meta.json): clean the demo commands, run the property's own check with the patch applied
(tools/seedtest.py, in KDF_REPO or /repo), try the other checks when it misses, confirm in the scratch copy (tools/seedconfirm.py)
and file it under seeded/<CNN>-<next free number> with detected_by_checks.  Prints one summary line per change."""
import json, os, re, subprocess, sys
V = os.path.dirname(os.path.dirname(os.path.abspath(__file__)))
rnd, wtroot, C = sys.argv[1], sys.argv[2], sys.argv[3]
others = sys.argv[4:]
wt = os.path.join(wtroot, C.lower())
def nextid():
    n = [int(d.rsplit("-", 1)[1]) for d in os.listdir(os.path.join(V, "seeded")) if d.startswith(C + "-")]
    return "%s-%d" % (C, max(n + [0]) + 1)
def seedtest(patch, checks):
    r = subprocess.run([sys.executable, os.path.join(V, "tools/seedtest.py"), patch] + checks, capture_output=True, text=True)
    res = {}
    for l in r.stdout.split("\n"):
        m = re.match(r"(C\d+) rc=(\d+) ?(.*)", l)
        if m:
            res[m.group(1)] = (int(m.group(2)), m.group(3)[:300])
    return res, r.stdout
base = os.path.join(rnd, C)
for k in sorted(d for d in os.listdir(base) if d.isdigit()):
    d = os.path.join(base, k)
    mp = os.path.join(d, "meta.json")
    if not os.path.exists(mp) or not os.path.exists(os.path.join(d, "patch.diff")):
        continue
    m = json.load(open(mp))
    for key in ("build_demo", "run_demo"):
        m[key] = re.sub(r"\s+\((?![^)]*\$)[^()]*\)\s*$", "", m.get(key, "")).strip()
        m[key] = re.sub(r"\s+#[^'\"]*$", "", m[key])
    json.dump(m, open(mp, "w"), indent=1)
    patch = os.path.join(d, "patch.diff")
    res, raw = seedtest(patch, [C])
    caught = [c for c, (rc, _) in res.items() if rc == 1]
    note = res.get(C, (None, raw[-200:]))[1]
    if not caught and others:
        r2, _ = seedtest(patch, others)
        caught = [c for c, (rc, _) in r2.items() if rc == 1]
    sid = nextid()
    r = subprocess.run([sys.executable, os.path.join(V, "tools/seedconfirm.py"), d, wt, sid] + caught, capture_output=True, text=True)
    verdict = "CONFIRMED" if "CONFIRMED" in r.stdout else "REJECTED " + r.stdout.strip()[-200:]
    print("%s/%s -> %s  caught_by=%s  %s | %s | %s" % (C, k, sid if verdict == "CONFIRMED" else "-", caught or "NONE", verdict,
                                                    re.sub(r"\s+", " ", m.get("summary", ""))[:150], note[:160]), flush=True)
