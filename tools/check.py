#!/usr/bin/env python3
"""Single entry point of all checks:  check.py Cnn [--tier quick|thorough] [--replay f]
   check.py --setup   builds the Lean project and proves the toolchain works."""
import argparse, importlib, os, sys, time, traceback
sys.path.insert(0, os.path.dirname(os.path.abspath(__file__)))
import kdf


def setup():
    R = kdf.Run("C00", "quick", 0)
    try:
        R.extract()
        ok, out = R.lake_build(["kdfdrv"])
        if not ok:
            print(out[-4000:])
            return 2
        ok, out = R.lake_build(["Kdf"])
        # a failing property module is not a setup failure: the check reports it
        print("lake build Kdf:", "ok" if ok else "some modules fail (reported by their checks)")
        lib, cflags = R.build_lib()
        print("library builds from /repo:", lib)
        return 0
    finally:
        R.cleanup()


def main():
    ap = argparse.ArgumentParser()
    ap.add_argument("prop", nargs="?")
    ap.add_argument("--tier", default=os.environ.get("VERIF_TIER", "quick"))
    ap.add_argument("--setup", action="store_true")
    ap.add_argument("--replay")
    a = ap.parse_args()
    if a.setup:
        sys.exit(setup())
    seed = int(os.environ.get("VERIF_SEED", "1") or 1)
    tier = a.tier if a.tier in ("quick", "thorough") else "quick"
    mod = importlib.import_module("props." + a.prop.lower())
    R = kdf.Run(a.prop, tier, seed)
    try:
        if a.replay:
            rc = mod.replay(R, a.replay)
        else:
            level, cov, assum = mod.run(R)
            rc = R.finish(level, cov, assum)
    except kdf.CheckBroken as e:
        print("CHECK-BROKEN %s: %s" % (a.prop, e))
        rc = 2
    except Exception:
        traceback.print_exc()
        rc = 2
    finally:
        R.cleanup()
    sys.exit(rc)


if __name__ == "__main__":
    main()
