#!/usr/bin/env python3
"""Writes /verif/MANIFEST.json from the table below and validates it."""
import json, os, sys
V = os.path.dirname(os.path.dirname(os.path.abspath(__file__)))
TB = ("Trusted: Lean 4.33 kernel (axioms propext, Classical.choice, Quot.sound only; no native_decide/bv_decide/sorry), "
      "tools/extract.py, the C harness + gcc/ASan/UBSan, the generators. ")

CHECKS = {
 "C17": dict(
   text="Lean theorems over a model of the callback chain whose forwarder behaviour is regenerated from ctx.c on every run: "
        "invoke = first-overriding-layer spec for every stack depth; a pass-through layer is transparent; add/del restores. "
        "Hypothesis-free forms compile only while all seven forwarders pass cb->next. Tie: generated table + differential "
        "run of the real add_cb/del_cb/get_cb chain on exhaustive small and random deep stacks. The calls the libraries make themselves "
        "through the top record (libaddrxlat's ctx->cb->hook(ctx->cb,..), libkdumpfile's get_symbol_val) are the model operation topCall; which "
        "record each call site passes is an extracted table (Kdf.Gen.topCallPasses); topCall_transparent: any number of pass-through layers on a "
        "dump object's layer are invisible to them. Tie: harness/s_cbdump.c on a generated x86-64 Linux vmcore -- 0..3 layers added before/after "
        "open, attributes, all seven hooks on the top record, KVADDR reads/conversions, again after removal in random order, all equal to the "
        "plain context. Python binding: 7 hooks x 9 outcome kinds through 0..3 Context layers, and page-table walks through 1..3 Context layers "
        "on a dump object's context (python/kdumpfile.c + python/addrxlat.c built from the tree) against a reference walk with plain reads.",
   note=TB + "Modelled: an implementation's behaviour is a function of (identity, record). Not modelled: python/addrxlat.c bindings (observed only).",
   technique="Lean 4 proof over generated forwarder table + differential correspondence", design="§6 C17"),
}
CHECKS["C10"] = dict(
   text="Full proof in Lean of a statement-by-statement model of addrxlat_map_set/search/copy (two scans, merge tests, extend/delta, "
        "realloc-before-mutation, memmove splice, boundary writes): for every well-formed map and every non-wrapping range, set succeeds, the result "
        "tiles [0,2^64) and its function view is the point-wise update; search = function view; OOM leaves the map unchanged; lifted by induction to "
        "all histories with arbitrary allocation outcomes. Tie: differential run of the real functions (realloc failing on schedule) vs the compiled "
        "model on exhaustive breakpoint pairs/triples and random boundary-biased histories; the function-view property is also evaluated directly on "
        "the implementation's exposed range list."
        "Round 4: layout tables through the real sys_set_layout with every allocation failing in turn (model setLayout/layoutLoop; layout_status, layout_ok_map, layout_ok_rev, layout_ok_rev_some, layout_no_fault).",
   note=TB + "Guard: addr+endoff < 2^64. realloc modelled as succeed/fail preserving content; independence of copies (aliasing) checked by the stream only.",
   technique="Lean 4 proof (induction over histories) + differential correspondence", design="§6 C10")
CHECKS["C12"] = dict(
   text="Lean proof over a model of read_locked/read_string_locked parameterised by a page oracle: success delivers exactly len correct bytes; "
        "failure delivers a correct proper prefix ending at the start of the first failing page with that page's status; success iff all touched pages "
        "fetchable; strings are the bytes up to the first NUL across pages; a failed string read returns no buffer. Tie: differential on generated ELF "
        "dumps with holes in all three address spaces; the oracle is discovered by whole-page reads of the implementation so the check is independent "
        "of the format handlers; sentinel bytes and live-allocation counting observe 'untouched beyond prefix' and 'no leaked partial buffer'."
        "Round 4: reads while the page size is unknown and after it was set (model readApi/readStringApi; read_unknown_ps, readApi_known, readApi_len_le, string_unknown_ps).",
   note=TB + "Everything below the read loop (translation, cache, format handler) is the oracle parameter; OracleSound: a failing fetch has non-OK status.",
   technique="Lean 4 proof (loop invariant by induction on fuel) + differential correspondence", design="§6 C12")
CHECKS["C02"] = dict(
   text="Lean proof that the model of addrxlat_walk (first-step index split, per-level base+idx*elemsz, per-format entry handlers, huge-page "
        "folding) equals an independent architectural specification ('output address || low VA bits', per-format entry decoders) for x86-64 4/5-level, "
        "IA-32 with and without PAE (PSE-36), RISC-V Sv39/48/57 and PFN32/64 tables with arbitrary field lists, for every memory, root, PTE mask and "
        "address, including non-canonical addresses and error classes; linear/lookup/memory-array methods equal their definitions; launch+single steps "
        "equals the one-call walk for every method; AArch64 (4K/16K/64K, LPA, LPA2: 212 forms), Arm short descriptors, s390x and Linux ppc64 64K each "
        "have their own model, specification and proved walk_eq_spec theorem. Tie: differential run of the real addrxlat_walk/launch/step over a pseudo-random pure-function "
        "memory with single-bit flips of every PTE read at every level, both byte orders; the implementation is also compared with the specification directly.",
   note=TB + "Architecture specifications are my reading of the manuals (reserved bits ignored as the library does). Recorded findings: the AArch64 and Arm methods do not "
        "range-check the input address (KNOWN_FINDINGS); ppc64 _PAGE_PRESENT/hugepd encodings and the s390x PTE bit 52 follow the library (counted, not "
        "claimed as defects). Custom methods are outside the model.",
   technique="Lean 4 proof (walk = architectural spec, per format) + differential correspondence", design="§6 C02")
CHECKS["C06"] = dict(
   text="Lean proof over an arc-level model of cache.c (unused / ghost-probed / probed / precious / ghost-precious arcs + in-flight list; split and the "
        "partition counters are derived): the invariant (entries partitioned, exactly cap buffers each owned once, cached/in-flight entries own a buffer, "
        "ghosts none, unused arc shape, one entry per key, references only on live entries) holds after flush and is preserved by every get/insert/put/"
        "discard for every capacity and history (the full invariant under the put protocol, the weak one unconditionally); the 'cannot happen' arms are "
        "unreachable; busy iff key absent and pinned+inflight >= cap; referenced entries are never evicted or rewritten; entries keep key and buffer "
        "while cached; a replaced cache (cache_release) is freed iff it is orphaned and all 2*cap reference counts are 0, after release and after every "
        "drop (life_release_inv, life_drop_inv, life_history). Tie: the real cache.c is compiled into the harness, random protocol-respecting histories at capacities 1..64 are run on it, the "
        "derived arc view of the real struct cache is compared with the model after every operation, and the invariant, reference counts, hit data and "
        "busy rule are evaluated on the implementation's own state.",
   note=TB + "The five-arc reading of the ring is checked, not assumed (the harness derives it from split+counters and also prints the raw links). "
        "entry_cleanup callbacks are not exercised. A put that drops the last reference of an in-flight entry violates the API protocol (inv_step_counterexample).",
   technique="Lean 4 proof (invariant by induction over operations) + differential correspondence on full state", design="§6 C06")
CHECKS["C07"] = dict(
   text="Lean proofs over a model of pfn.c/bitmap.c and the ELF bit queries: both bit scans return the next set/clear bit for every bitmap (first-byte C "
        "promotion arithmetic modelled exactly, byte facts by exhaustive kernel-checked decide); regions built from a bitmap are exactly the maximal runs with "
        "file position = offset + elemsz*rank; binary search, find-next-set, find-next-clear and bulk retrieval over one or several per-file maps return "
        "what the mapped set says, write nothing outside the (last-first)/8+1 bytes and are mutually consistent; same for ELF segments. Tie: differential "
        "run of the public kdump_bmp_* API on generated diskdump (1-3 split files in any order, bitmap-capacity boundary) and ELF dumps (unaligned and "
        "file-less segments), before and after reads in two address spaces, compared with the frame set the dump encodes and with the read status per "
        "frame; the static scan/region functions are additionally run directly at all four buffer alignments in both bit orders.",
   note=TB + "SADUMP (MSB0) is covered through the internal-function stream only; qsort of the file maps is trusted to sort.",
   technique="Lean 4 proof (specification of every query over all bitmaps/segment lists) + differential correspondence", design="§6 C07")
CHECKS["C16"] = dict(
   text="Lean proof over a byte-exact model of err_vadd (inline buffer, heap block with reserved mark byte, local truncation buffer; every access "
        "bounds-checked in the model): with a working allocator the string is always the chain msg ++ ': ' ++ old, newest first; when the message fits no "
        "allocation is attempted; when realloc fails the string degrades to a '<'-marked truncation that keeps the oldest text as a suffix; the object "
        "stays well-formed (NUL-terminated, no access outside its arrays) over every history of prepends, clears and allocation outcomes; the status "
        "conversions round-trip on the documented enumeration (codes regenerated from the headers) and the probe loop never returns the no-probe marker. "
        "Tie: the real err_add/err_clear (header-only) run on an exactly-sized object under ASan for every message length 0..2*bufsz+3 at the three real "
        "inline sizes with realloc succeeding and failing, byte-for-byte comparison with the model; the chain/truncation property is evaluated on the "
        "implementation's strings. Every public call made by this and the other API streams goes through a monitor (documented status, message iff failure). "
        "Above the buffer, the message discipline (which call clears, which prepends, which tolerates the failure of a part) is modelled "
        "(Kdf.Model.ErrFlow: direct_read_ok, get_linux_pgtroot + map_linux_aarch64/riscv64, map_linux_arm, update_xen_extra_ver, get_attr_blob and the "
        "derived register accessors) with theorems that a call entered with an empty string ends with an empty string iff it succeeds, that a tolerated "
        "failure leaves no text behind and that a failing chain tells one story; tied by driver stream `flow` to addrxlat_sys_os_init on generated images "
        "(every architecture; get_page failing with each status class at each page read, every symbol look-up refused in turn) and to register / Xen "
        "version attribute calls on generated dumps (blob cleared, replaced, too short; crash note pointing to readable, absent, truncated memory)."
        "Round 4: message flag across do_op alternatives (Kdf.Model.SysMsg, Kdf.Props.C16Hist: op_success_clean, op_failure_msg, ...), 64-bit size fields reaching an allocation (ErrFlow.ctxMalloc, s390OsInfoAlloc), histories on one addrxlat context (tolerated set-up failure, then non-present walks; implementation only)."
        "Round 5: VMCOREINFO look-ups by name (ErrFlow.vmcoreinfoLookup; vmcoreinfoLookup_disciplined, vmcoreinfoLookup_dot_is_miss, vmcoreinfoLookup_fail_one_link), pages that do not decompress (implementation only).",
   note=TB + "Partial: that each of the ~150 error exits of the library sets a message and that no stale message survives a successful call is proved for "
        "the modelled functions (outcomes of callbacks, reads and allocations are parameters assumed to obey the property) and observed by the monitors "
        "on the other exercised calls (x86_64/ia32 set-up, conversions, good and truncated dumps, failing reads/attribute calls, allocation failures).",
   technique="Lean 4 proof (buffer invariant over all histories) + differential correspondence + API monitors", design="§6 C16")
CHECKS["C11"] = dict(
   text="Lean proofs over a model of flatmap.c (record scan, pread and chunk retrieval from a flattened stream; the range map is the proved C10 model): "
        "reads of a flattened file equal the rearranged file for any record sizes, order, overlaps, holes or an empty stream (later records win, unwritten "
        "positions read as zero), the scan accepts every well-formed stream and terminates; split sets: the file found for a frame is the one whose window "
        "contains it, in any order of passing the files. Tie: the real flatmap.c on explicit record streams vs model and an independent oracle; the page "
        "descriptor file/position of every frame of split sets observed through ld --wrap; plain twins compared with flattened variants and split sets "
        "through the public API (attribute tree, both page maps, page and cross-page reads)."
        "Round 4: split sets whose windows leave frames outside, read with file.zero_excluded=1 (model PageSrc/readPageSrc; split_uncovered_excluded, zero_excluded_only_excluded).",
   note=TB + "SADUMP disk sets are not covered (no writer); allocation failure and I/O errors of the packaging layer are not exercised; the library is built "
        "without UBSan's alignment check for this property (header structs are read at arbitrary alignment inside flattened files).",
   technique="Lean 4 proof (flattened read = rearranged file; split order irrelevance) + differential correspondence", design="§6 C11")
CHECKS["C14"] = dict(
   text="Lean proofs over four small models on the set_attr hook protocol: page size/page shift coherence after every history of sets (undefined shifts "
        "explicit); CPU registers as views of the PRSTATUS blob in the dump's byte order (a read equals the blob bytes, a write patches exactly its own "
        "bytes, read after write, stable under all histories); release string -> version code (incl. a model of strtoul), unreadable after the release is "
        "cleared; VMCOREINFO: the line splitter is lossless, parsed lines and kdump_vmcoreinfo_line equal the last row per key, the typed SYMBOL/NUMBER/"
        "OFFSET/SIZE/LENGTH values and kdump_vmcoreinfo_symbol equal the parse of the last row per key (no value when it does not parse), the raw text is preserved. "
        "Tie: the public API on fresh contexts and on generated ELF dumps for eight architecture/byte-order pairs; the implemented register layout is "
        "discovered on every run and compared with an ELF core ABI table (264 register attributes); independent Python oracles.",
   note=TB + "The page-size/shift statement including clears and texts with dotted-prefix / leading-dot keys are false for the code (witness examples in "
        "C14.lean) and are recorded as KNOWN_FINDINGS (clear-page-size-shift, vmci-dotted-prefix, vmci-leading-dot); eleven other defects were repaired "
        "(the last: vmci-stale-typed, after which typed-value completeness is a theorem: vmci_typed_last_row).",
   technique="Lean 4 proof (coherence invariants over all histories) + differential correspondence", design="§6 C14")
CHECKS["C19"] = dict(
   text="Lean proofs over a model of the xc_core page index of elfdump.c (pfn2idx_map_start/addrange/add/end/search with 64-bit wrap-around arithmetic, "
        "signed run lengths and early-exit loops, both page-list builders, xc_p2m_first_step, xc_m2p_first_step, xc_get_page): for every list of pairwise "
        "distinct frames, search(build l) p is the list index of p; unlisted frames are missing in both views; guest->machine->guest is the identity on "
        "listed frames; both views yield the same page index; allocation failure at any point is reported. Tie: the static functions via #include on index "
        "lists over the whole 2^64 frame space with every realloc failure point, the first-step functions on in-memory tables in both byte orders, and "
        "generated xc_core files (p2m and pfn-only, LE x86_64 and BE s390x) through kdump_read and addrxlat_fulladdr_conv."
        "Round 4: chains of 2-4 dumps opened on one context (PV and HVM in all orders; model Ctx/openCtx/openAll; reopen_last_dump_only, reopen_mode_of_last, reopen_views_last_only, history_last_only)."
        "Round 5: opens with every realloc failing in turn (open_ok_both_complete, open_fails_when_mfn_index_fails, mapEnd_alloc_fails).",
   note=TB + "qsort is modelled by an insertion sort (trusted to sort). Page lists naming a frame twice have no consistent view and are outside the property.",
   technique="Lean 4 proof (run-length index = list index, for all lists) + differential correspondence", design="§6 C19")
CHECKS["C09"] = dict(
   text="Lean proofs over a model of addrxlat_op/do_op/addrxlat_fulladdr_conv (pass-through, the early exits, chain selection with the chain tables and "
        "map_expect_as, the linear shortcut, fall-through on NOMETH/NODATA, the in-flight guard, the nesting limit, PTE reads recursing into op with the read "
        "capabilities; walk and map search are the proved C02/C10 models): an address already in a usable space is passed through; the caller's operation "
        "runs exactly once on success and never otherwise; the target lies in the declared capabilities; the result equals the first-match composition of "
        "the methods the maps select along the chain; conversion has a single target and leaves the address unchanged on failure; in-flight triples on a "
        "recursion path are distinct; termination by structural recursion on the nesting budget the (repaired) C code enforces, and the limit can only turn "
        "an answer into NOTIMPL, never into a different answer. Tie: random systems (every method kind in every slot, random maps, self- and mutually "
        "referential roots, every capability mask and source space) through the real addrxlat_op/fulladdr_conv with a counting callback and a depth "
        "monitor, against the model and an independent first-match composition; chain tables regex-extracted from sys.c are cross-checked. "
        "Round 2: ADDRXLAT_CUSTOM methods whose callback finishes in its first step in a space of its own choice / leaves a linear level / fails are "
        "part of the step.c model (walk_custom_eq_spec) and of every generator; get_cache_buf with a re-entrant get-page callback is modelled "
        "(Kdf.Model.RCache: slot search, LRU recycling of slots that are not being filled (the `filling` mark of the repaired code), the ptr==NULL guard) "
        "with read_nesting_bounded (<= READ_CACHE_SLOTS) / read_not_stuck / filling_slot_untouched / read_gives_back / read_hit_no_callback / read_self_fetch_detected and tied through direct reads after 0..6 earlier reads.",
   note=TB + "Inside op/conv the 4-slot read cache is treated as transparent for a deterministic non-re-entrant get_page (observed, not proved here); "
        "whole conversions under a re-entrant get-page callback are checked by monitors only (termination, nesting bound, exactly-once, caps); "
        "multi-level custom methods, error messages and unaligned table reads are outside the model.",
   technique="Lean 4 proof (op = first-match composition; exactly-once; bounded nesting) + differential correspondence", design="§6 C09")
CHECKS["C01"] = dict(
   text="Partial by design: proved for the lookup logic, observed for the rest. Lean proofs: the LKCD run-length decoder is total (never reads past src, "
        "never writes past dst) and inverts the encoder; ELF page semantics (missing vs present, exact bytes with zero-fill of memsz>filesz and of page "
        "straddling, both address spaces, both zero_excluded settings) for any lookup history; diskdump descriptor position = descoff + 24*rank(p) (reusing "
        "the C07 region theorems); SADUMP data position incl. the offset inside a run; the LKCD descriptor search as an invariant over any read history. "
        "Tie and property evaluation: generated ELF (32/64-bit, both byte orders, unaligned/file-less segments), diskdump/KDUMP (raw, zlib, stored zlib, "
        "snappy, zstd, LZO-flag, excluded pages, 32/64-bit headers), LKCD (raw/RLE/gzip, unordered, duplicate, gapped, far-off frames), SADUMP and s390 "
        "dumps; every frame, unaligned page-crossing ranges, range ends, both zero_excluded settings and the five geometry attributes are compared with "
        "the image and layout the generator encoded (status, length, CRC-32); the model answers symbolically where each page's bytes come from."
        "Round 4: ELF cores with extended program header numbering (model elfCounts/elfLoads; elf_counts_plain, elf_counts_xnum, elf_loads_all, elf_xnum_spec; the driver derives the segments from the raw header fields) and transient failures of LKCD descriptor reads (model lkSearchF/lkGetF; lkcd_fault_spec, lkcd_fault_silent, lkcd_fault_recovers).",
   note=TB + "Header parsing, the geometry attributes, s390, split-file selection, the real zlib/snappy/zstd decompressors and the LKCD three-level block "
        "table (abstracted to a finite map) are checked differentially only; tools/dumpgen.py writers are trusted generators.",
   technique="Lean 4 proof (lookup/zero-fill/RLE) + exhaustive differential reads of generated dumps", design="§6 C01")
CHECKS["C18"] = dict(
   text="Partial by design: proved for a handful of constructors/unwinders, enumerated for the rest. Lean: a ledger model of alloc_ctx, kdump_new, "
        "attr_dict_new, xlat_new, xlat_clone, kdump_clone and add_pfn_region with f_oom_safe-style theorems over ALL fault points and sizes (failing the n-th "
        "allocation => failure returned, nothing leaked, no lock held, pre-existing objects unchanged); per_ctx_alloc/per_ctx_free over any number of "
        "contexts, the arch.page_size hook chain of an open LKCD dump (lkcd_realloc_compressed + def_realloc_caches, run twice: a failed slot allocation "
        "leaves the object exactly as it was, after any failure the object names only live, distinct buffers and nothing else was freed or leaked) and "
        "mem_pagemap_revalidate (no lock held at return on any exit, failure iff an allocation failed); the translation-map atomicity and the error-string "
        "degradation are the proved C10 (set_nomem, history) and C16 (vadd_trunc, vadd_inbounds) theorems. Tie and property evaluation: systematic fault "
        "enumeration on the real code — about 60 scenarios (create, clone x flags, open ELF/diskdump/flattened/generated LKCD, SADUMP and s390 dumps, also on "
        "objects with clones, after a failed open and over an open dump of another format, reads in three address spaces and through clones, arch.page_size "
        "and cache.size changes on open dumps, first queries of memory.pagemap/file.pagemap/max_pfn, per_ctx_alloc, translation set-up, "
        "attributes, addrxlat_sys_os_init, free), every allocation index 1..N+1 failed in a forked child, judged on status, crash/sanitizer report, locks "
        "held at return (pthread interposition ledger), leaks after freeing survivors, follow-up calls on survivors; the model's alloc/free/lock trace is "
        "compared with the intercepted real trace for every n."
        "Round 4: sets of dump files opened and file.set.number raised under every allocation failure (model numFilesGrow, numFilesGrow_safe; fdset scenarios implementation only).",
   note=TB + "Allocations inside zlib/zstd/snappy and mmap are not failed; single-threaded; a refused request to SHRINK a block may be ignored by the "
        "caller (counted, all other rules apply); open/read of LKCD, SADUMP and s390, re-open, cache.size, file.pagemap and max_pfn are enumerated and "
        "observed, not modelled.",
   technique="Lean 4 proof (ledger model, all fault points) + systematic n-th-allocation fault enumeration", design="§6 C18")
CHECKS["C03"] = dict(
   text="PARTIAL by nature: a Lean theorem cannot establish memory safety of 12 000 lines of C. Proved (16 theorems, all inputs, no size bound): bounds, "
        "termination and no-zero-divisor theorems about executable models of the parsing steps whose indices and counts come from the file -- uncompress_rle, "
        "do_notes, diskdump try_header/read_bitmap, the flattened record scan and chunk index, the SADUMP cpu-state division, page_size_pre_hook -- each "
        "access checked against the actual buffer length in the model (oob is a distinguished result proved unreachable). Tie: stream `bounds` runs the real "
        "functions (sources #included, chunk requests / bit ranges / map insertions intercepted with -Wl,--wrap) and the compiled model on the same generated "
        "lines, and an independent Python reading of each input judges both. Everything outside those models (ELF/LKCD/SADUMP header parsing, attributes, caches, "
        "decompressors) is covered by the `hostile` stream only: 38 generated bases of every format x 1054-field tables x {0,1,max,sign boundaries,+-1,*2}, "
        "truncations at every structure boundary, sampled double corruptions, mismatched file sets and a coverage-guided mutation loop, every input in a forked "
        "child under ASan+UBSan with a wall-clock bound, script = open, attribute enumeration, page maps, 40 reads, strings; each status must be documented."
        "A regression corpus of minimised past failures (corpus/c03_regress.json: inputs the thorough tier's evolving stream found) runs first in every tier.",
   note=TB + "Hostile-input survival is evidence, not proof; time bound is a 4 s wall clock per input under sanitizers, not a complexity proof. Findings "
        "misaligned-load-of-file-data and elf-vmci-deepkey:timeout are recorded in KNOWN_FINDINGS. Behaviour behind EOF is a model parameter (both zero-fill "
        "and failure are covered by the flat-scan theorems).",
   technique="Lean 4 proof (bounds/termination of the file-indexed parsing steps) + differential model/implementation stream + sanitizer-guarded field-corruption enumeration and coverage-guided mutation",
   design="§6 C03")
CHECKS["C04"] = dict(
   text="Lean proofs on top of the proved C06 cache model: cache_transparent / history_irrelevant (for the composition of the cache with any deterministic "
        "fill function, after ANY history a get/fill/insert for key k yields f k, or busy exactly when the C06 busy rule says so), reads_only_transparent, "
        "zero_excluded_transparent, readcache_transparent (addrxlat's 4-slot MRU read cache), lastload_irrelevant (ELF last-segment shortcut, tied to the "
        "code's loads_disjoint flag), lkcd_history (the answer for frame p is the first descriptor for p whatever prefix has been scanned), "
        "policy_irrelevant (mmap vs read below EOF). Tie and property evaluation: long random histories (reads in every address space, page-map queries, "
        "attribute gets, cache.size / mmap policy / zero_excluded changes) on one context over generated diskdump, LKCD (unordered, gaps, duplicates, "
        "far-off frames) and ELF dumps; every observed call is repeated on a freshly opened context and must give the same status, length and bytes; the "
        "model also predicts the real cache.hits/cache.misses after every read.",
   note=TB + "LKCD block lists are tied by the differential stream only; SADUMP, s390 and Xen are not exercised here; KVADDR through page tables is "
        "exercised on the implementation only. Findings recorded: cache-resize-uaf, small-cache-busy, mmap-policy-eof.",
   technique="Lean 4 proof (cache transparency over all histories) + metamorphic fresh-context oracle", design="§6 C04")
CHECKS["C08"] = dict(
   text="Partial: proved for the generic layout machinery and the page-table scanners, observed for the per-architecture set-up decisions. Lean proofs over "
        "models of sys.c (sys_set_layout, act_direct/act_rdirect/act_ident_*, sys_set_physmaps) and of the recursive scanners of step.c over the proved C02 "
        "walk model: direct_def, rdirect_direct_id (the reverse direct map round-trips for any prior state), physmaps_ident, layout_total, fast_linear_*; "
        "on the x86-64 4- and 5-level forms with arbitrary tables lowest_mapped / lowest_unmapped / highest_mapped return exactly the least/greatest "
        "mapped/unmapped address and never run out of fuel; highest_linear is sound. Tie and property evaluation: synthesized kernel images (x86_64 Linux "
        "4/5-level, KASLR text and direct-map offsets, negative phys_base, version present/absent, 4K/2M/1G direct map, each symbol present/absent, SME; "
        "Xen 3.x-4.x incl. BIGMEM; ia32 PAE and non-PAE; riscv64 Sv39/48/57; aarch64 4K/16K/64K) through the real addrxlat_sys_os_init, then every sampled "
        "address through the fast paths, the hardware map and an independent walk, and physical addresses through the reverse direct map and back."
        "Round 4: probing decisions of the set-up as a model (Kdf.Model.OsPick: checkPae, ia32LinuxRoot, xenTextPick; check_pae_sound, ia32_root_exact, xen_text_pick_sound), the implementation's decision compared with it per generated image; ia32 images taken in process context, Xen 3.2-3.4 ioremap areas.",
   note=TB + "addrxlat_sys_os_init and the per-architecture decision logic are covered by the image stream only (x86_64_fastpath_eq_walk is not proved); "
        "s390x, arm and ppc64 set-up, Linux-under-Xen p2m and kdumpfile/vtop.c are not exercised. Findings recorded: ia32-rdirect-without-vmalloc-start, "
        "xen-text-region-stub-pages.",
   technique="Lean 4 proof (layout actions, scanner specifications) + synthesized-image differential", design="§6 C08")
CHECKS["C05"] = dict(
   text="Lean proof over a small-step interleaving semantics of N threads (N arbitrary) running the cache_get_page protocol over the proved C06 cache model, "
        "cache_lock, the shared rwlock and per-buffer content tags: for every capacity, thread count and schedule — pins_eq_holders, quiescent_unpinned, "
        "the C06 invariant, no_wrong_bytes, busy_only_when_full, cache operations only under cache_lock (for reachable states), mutual exclusion, writer "
        "exclusion, no deadlock, acyclic lock order; and, for the code as found (unlocked reference drop), the negations with concrete 2-thread witnesses. "
        "Tie: pthread mutex/rwlock, inflate, pread and mmap are interposed and the four cache entry points wrapped: every cache operation is checked against "
        "the model's lock table (a mutation outside cache_lock is flagged deterministically), the observed and the statically extracted lock-order graphs "
        "must be acyclic and within the model's, event logs of a cooperative scheduler (scripted scenarios, then seeded PCT) are replayed on the model "
        "(lookup result and full cache state after every operation), stress with 2-16 real threads on clones at cache.size n, n-1, 1; ThreadSanitizer "
        "build in the thorough tier.",
   note=TB + "The theorem is about the protocol model; instruction-level interleavings, memory ordering and pthread itself are outside it (two purely "
        "data-race defects were found by ThreadSanitizer only). Two threads missing on the same page both fill the same buffer with identical bytes: "
        "recorded in the evidence, not a violation.",
   technique="Lean 4 proof (invariant over all schedules) + lock-discipline monitor + cooperative-scheduler replay", design="§6 C05")
CHECKS["C13"] = dict(
   text="Lean proofs over a model that transcribes attr.c (newest-first node list standing for sibling lists and hash buckets, the hash function a "
        "parameter): get-after-set and its frame, a wrong-typed set is a no-op, clear unsets the subtree and nothing else, a whole iteration visits each set "
        "child exactly once, new_attr keeps ids distinct, lookup is sound for every hash function, clone fallback and shadowing, re-open keeps values with a "
        "persistent descendant and drops the rest. Tie and property evaluation: random histories of all public attribute calls (get/typed get/set by path, "
        "references and sub-references, iterators, clone/free, re-open) on real contexts over global keys, cpu.N, file.set.N and VMCOREINFO-created keys "
        "with hash-bucket-colliding prefix keys, every answer compared with an independent Python dictionary and with the model (iteration order and "
        "persist flags exactly)."
        "Round 4: file.set.number grown under every allocation failure (numFiles_rollback_sub, numFiles_rollback_no_stale, numFiles_fail_no_stale), lazily revalidated values read first through reference / iterator / path (version_code_follows_release), application-set cpu.number across an open."
        "Round 5: the legacy alias file.fd (numFilesAlias_one, fileFd_unset_unless_one, clearHooked_clears_alias, clearHooked_frame, setFileFd_alias_set), derived values cleared before their first read.",
   note=TB + "Lookup completeness, path creation, VMCOREINFO parsing, file.set.N, clone_attr_path and open as wholes are observed, not proved. Dynamic keys "
        "created through a clone with a private dictionary are excluded (finding recorded under C15); findings overlay-clone-root, pagemap-clear-deadlock.",
   technique="Lean 4 proof (dictionary laws of the attr.c model) + differential correspondence with an independent dictionary oracle", design="§6 C13")
CHECKS["C15"] = dict(
   text="Partial by design: proved for the transcribed functions, observed for the rest. Lean: a ledger semantics over event traces (cache get/insert/"
        "discard/put, pread, mmap, malloc, free) of fcache_get_mmap/_read/_get/_pread/_get_chunk/_put_chunk, diskdump_get_page and diskdump_read_page with "
        "every compression branch, cache_get_page, read_locked, addrxlat_get_page/put_page, with the environment's answers as an oracle: ledger soundness, "
        "prefix closure, frame rule, per-function balance (net pin/allocation delta 0 on failure, exactly the documented hand-over on success), chunk and "
        "page round trips, session_balanced — for all oracles, fault points, lengths and policies. Tie: link-time --wrap traces of forced paths (dry run, then "
        "rerun with the n-th pread/mmap/malloc failing) compared with the model's traces. Property evaluation: after EVERY API call page-cache + mmap-cache "
        "+ read-cache references = pages lent to addrxlat, no library-held blob pins, descriptors untouched (close/lseek/read interposed); after freeing "
        "everything in random order under LeakSanitizer no heap block or mapping remains. Round 2: fcache_get_fb/fcache_put, the table scan of "
        "make_xen_pfn_map_* (xenMapScan), libaddrxlat's read cache (get_cache_buf, cleanup_cache) and addrxlat_ctx_add_cb/del_cb are model "
        "operations with balance theorems (removing ANY record gives back every cached page: ctxDelCb_balanced, axSession_balanced); harness ops "
        "fb/axread/addcb/delcb with slot/MRU state compared after every call; Xen cores with straddling .xen_p2m tables, SADUMP/LKCD/s390 files and "
        "contexts without a dump joined the API walks."
        "Round 5: pins of derived_attr_revalidate on application-edited note blobs (Kdf.Model.BlobPin; derivedRevalidate_balanced, derivedRevalidate_short).",
   note=TB + "That the model's `stuck` result is unreachable (fcache_get_chunk entry-array bound, loop fuel) is not proved (it would show as a trace "
        "difference). Findings recorded: reopen-open-context, realloc-caches-lent, clone-dict-new-attrs.",
   technique="Lean 4 proof (ledger balance of transcribed functions) + trace correspondence + reference-sum/leak monitors", design="§6 C15")
# round 2: C08 entry as rewritten with the image-generator extension (Arm, independent optional inputs, histories)
CHECKS["C08"].update(
   text='Partial: proved for the generic layout machinery and the page-table scanners, observed for the per-architecture set-up decisions. Lean proofs over models of sys.c (sys_set_layout, act_direct/act_rdirect/act_ident_*, sys_set_physmaps) and of the recursive scanners of step.c over the proved C02 walk model: direct_def, rdirect_direct_id (the reverse direct map round-trips for any prior state), physmaps_ident, layout_total, fast_linear_*; on the x86-64 4- and 5-level forms with arbitrary tables lowest_mapped / lowest_unmapped / highest_mapped return exactly the least/greatest mapped/unmapped address and never run out of fuel; highest_linear is sound. Tie and property evaluation: synthesized kernel images (x86_64 Linux 4/5-level, KASLR text and direct-map offsets, negative phys_base, version present/absent, 4K/2M/1G direct map, each symbol present/absent, SME; Xen 3.x-4.x incl. BIGMEM; ia32 PAE and non-PAE; riscv64 Sv39/48/57; aarch64 4K/16K/64K; 32-bit Arm short descriptors with sections/supersections/large/small pages; every optional input of the set-up code present/absent independently; histories: the same addrxlat_sys_t set up several times, judged after the last set-up) through the real addrxlat_sys_os_init, then every sampled address through the fast paths, the hardware map and an independent walk, and physical addresses through the reverse direct map and back.',
   note='Trusted: Lean 4.33 kernel (axioms propext, Classical.choice, Quot.sound only; no native_decide/bv_decide/sorry), tools/extract.py, the C harness + gcc/ASan/UBSan, the generators. addrxlat_sys_os_init and the per-architecture decision logic are covered by the image stream only (x86_64_fastpath_eq_walk is not proved); s390x and ppc64 set-up, a real Linux-under-Xen image (p2m/m2p) and kdumpfile/vtop.c are not exercised; the Arm, input-combination and history extensions are implementation-only (generators + Python oracle). Findings recorded: ia32-rdirect-without-vmalloc-start, xen-text-region-stub-pages.')
NOT_YET = {}

def main():
    props = [json.loads(l) for l in open(os.path.join(V, "properties.jsonl"))]
    checks = []
    na = []
    for p in props:
        pid = p["id"]
        if pid in CHECKS:
            c = CHECKS[pid]
            checks.append(dict(property_id=pid,
                quick_cmd="python3 tools/check.py %s --tier quick" % pid,
                thorough_cmd="python3 tools/check.py %s --tier thorough" % pid,
                evidence_file="evidence/%s.json" % pid,
                replay_cmd_template="python3 tools/check.py %s --replay {path}" % pid,
                engine="lean4+correspondence",
                level_claimed=dict(category="proof", text=c["text"], design_ref=c["design"]),
                level_note=c["note"], technique=c["technique"]))
        else:
            na.append(dict(property_id=pid, reason=NOT_YET.get(pid, "check not built yet in this session; design in DESIGN.md §6 — not claimed until its stream passes the clean-tree gate")))
    m = dict(version=1,
             setup_cmd="python3 tools/check.py --setup",
             hooks=dict(guard="LIBKDUMPFILE_VERIF",
                        enable="checks compile /repo/src themselves with -DLIBKDUMPFILE_VERIF (no guarded source hooks exist: statics are reached by #include, cross-TU calls by -Wl,--wrap, locks/allocator by interposition)",
                        baseline_off_cmd="make -C /repo -j8 check",
                        source_commits=[], add_only=True),
             engines=[dict(name="lean4+correspondence", path="tools/check.py",
                           serves_properties=sorted(CHECKS), kind_free_text="Lean 4 theorems over executable models (lean/Kdf), facts regenerated from /repo by tools/extract.py, differential C harness (harness/) vs compiled model driver (kdfdrv)")],
             checks=checks, not_applicable=na,
             notes="See DESIGN.md. Genuine defects repaired by fix: commits are listed in KNOWN_FINDINGS.")
    json.dump(m, open(os.path.join(V, "MANIFEST.json"), "w"), indent=1)
    try:
        import jsonschema
        jsonschema.validate(m, json.load(open("/root/.vp/MANIFEST.schema.json")))
        print("MANIFEST valid;", len(checks), "checks,", len(na), "not claimed")
    except ImportError:
        print("jsonschema not available; written unvalidated")

if __name__ == "__main__":
    main()
