#!/usr/bin/env python3
"""Run every filed seeded change against the checks recorded as catching it (meta.json detected_by_checks), in a private
copy of the repository (KDF_REPO).  One line per seed: id, checks, exit codes; a summary of seeds that are no longer caught.
   KDF_REPO=/var/tmp/seedrepo python3 tools/seedall.py [id-prefix ...]"""
import json, os, subprocess, sys
V = os.path.dirname(os.path.dirname(os.path.abspath(__file__)))
pref = sys.argv[1:]
missed = []
for sid in sorted(os.listdir(os.path.join(V, "seeded"))):
    if pref and not any(sid.startswith(p) for p in pref):
        continue
    m = json.load(open(os.path.join(V, "seeded", sid, "meta.json")))
    det = m.get("detected_by_checks") or []
    if not det:
        print(sid, "no check recorded"); continue
    r = subprocess.run([sys.executable, os.path.join(V, "tools/seedtest.py"), os.path.join(V, "seeded", sid, "patch.diff")] + det,
                       capture_output=True, text=True)
    codes = [l.split()[1] for l in r.stdout.split("\n") if l[:1] == "C" and " rc=" in l]
    ok = any(c == "rc=1" for c in codes)
    print(sid, det, codes, "" if ok else "NOT-CAUGHT " + r.stdout[-200:].replace("\n", " "), flush=True)
    if not ok:
        missed.append(sid)
print("missed:", missed)
