#!/usr/bin/env python3
"""Confirm a candidate seeded change in a scratch copy of /repo and file it under /verif/seeded.
   seedconfirm.py <mutdir> <scratch-copy> <seed-id> [checks that caught it, e.g. C10 ...]
Runs: apply -> make -> make check (all pass?) -> demo (must fail) -> revert -> make -> demo (must pass)."""
import json, os, shutil, subprocess, sys
mut, wt, sid = sys.argv[1], sys.argv[2], sys.argv[3]
caught = sys.argv[4:]
V = os.path.dirname(os.path.dirname(os.path.abspath(__file__)))
meta = json.load(open(os.path.join(mut, "meta.json")))
def sh(c, **kw):
    return subprocess.run(c, shell=True, capture_output=True, text=True, errors="replace", **kw)
def tests_ok():
    r = sh("make -j16 check 2>&1 | grep -E '^# (FAIL|ERROR):' | awk '{s+=$3} END {print s+0}'", cwd=wt)
    return r.stdout.strip() == "0"
log = {}
sh("git checkout -- .", cwd=wt)
r = sh("git apply %s" % os.path.join(mut, "patch.diff"), cwd=wt)
if r.returncode:
    print("patch does not apply", r.stderr); sys.exit(2)
try:
    r = sh("make -j16 2>&1 | tail -3", cwd=wt); log["make_with"] = r.stdout[-300:]
    log["tests_pass_with_change"] = tests_ok()
    b = sh(meta["build_demo"]); log["build_demo_rc"] = b.returncode
    d = sh(meta["run_demo"], timeout=600); log["demo_rc_with_change"] = d.returncode
finally:
    sh("git checkout -- .", cwd=wt)
sh("make -j16 2>&1 | tail -3", cwd=wt)
b = sh(meta["build_demo"])
d = sh(meta["run_demo"], timeout=600); log["demo_rc_without_change"] = d.returncode
ok = log["tests_pass_with_change"] and log["demo_rc_with_change"] != 0 and log["demo_rc_without_change"] == 0
print(json.dumps(log), "CONFIRMED" if ok else "REJECTED")
if ok:
    dst = os.path.join(V, "seeded", sid)
    os.makedirs(dst, exist_ok=True)
    for f in os.listdir(mut):
        p = os.path.join(mut, f)
        if os.path.isfile(p) and os.path.getsize(p) < 200000 and not os.access(p, os.X_OK):
            shutil.copy(p, dst)
    meta["confirmed_by_me"] = log
    meta["what_i_ran"] = "tools/seedconfirm.py in scratch copy %s: git apply; make; make check (0 FAIL/ERROR); demo fails; git checkout; make; demo passes" % wt
    meta["detected_by_checks"] = caught
    json.dump(meta, open(os.path.join(dst, "meta.json"), "w"), indent=1)
