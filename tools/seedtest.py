#!/usr/bin/env python3
"""Apply a seeded change to /repo, run the given checks, undo it.
   seedtest.py <patch.diff> C10 [C12 ...]     prints one line per check."""
import subprocess, sys, os
patch = os.path.abspath(sys.argv[1])
props = sys.argv[2:]
V = os.path.dirname(os.path.dirname(os.path.abspath(__file__)))
REPO = os.environ.get("KDF_REPO", "/repo")      # a private copy may be given (the checks honour KDF_REPO too)
r = subprocess.run(["git", "-C", REPO, "apply", "--check", patch], capture_output=True, text=True)
if r.returncode:
    print("patch does not apply:", r.stderr.strip()); sys.exit(2)
subprocess.run(["git", "-C", REPO, "apply", patch], check=True)
try:
    for p in props:
        r = subprocess.run(["python3", os.path.join(V, "tools/check.py"), p, "--tier", os.environ.get("VERIF_TIER", "quick")],
                           capture_output=True, text=True, cwd=V)
        lines = [l for l in r.stdout.split("\n") if l.startswith(("VIOLATION", "KNOWN", "CHECK-BROKEN", "  ->"))]
        print("%s rc=%d %s" % (p, r.returncode, " | ".join(l[:230] for l in lines[:2])))
finally:
    subprocess.run(["git", "-C", REPO, "checkout", "--", "."], check=True)
