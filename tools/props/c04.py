"""C04 — caching and lazy indexing are invisible: results do not depend on history.

(1) PROPERTY on the implementation (stream `hist`, harness/s_hist.c): long random
    histories (reads in every address space, page-map queries, attribute gets,
    cache.size / file.mmap_policy changes, zero_excluded toggles) on ONE context over
    generated dumps of every writable format (diskdump incl. compressed / excluded /
    split / flattened / with x86-64 page tables; LKCD unordered / duplicated / gapped /
    far-off frames; ELF aligned, byte-granular, filesz < memsz, overlapping); every
    observed call is repeated on a FRESHLY opened context: status, length and bytes
    must agree.  Only the hit/miss counters are exempt.
(2) CORRESPONDENCE with the Lean model (Kdf.Model.Hist via Driver.Hist): the same
    lines for the modelled layouts; the model also predicts cache.hits / cache.misses
    of the real page cache after every read (ties the ARC model state to struct cache).
"""
import json, os
import kdf, dumpgen

PS = 4096
W = 1 << 64
THEOREMS = ["Kdf.Props.C04." + t for t in (
    "pinv_init", "qinv_init", "fetch_spec", "release_spec", "getPage_spec", "hrun_inv", "cache_transparent",
    "fresh_answer", "history_irrelevant", "reads_only_transparent", "zero_excluded_transparent",
    "rinv_init", "getCacheBuf_spec", "bury_spec", "readcache_transparent",
    "lastload_irrelevant", "lastload_history", "loadsDisjoint_sorted", "lastload_irrelevant_code",
    "lkcd_scan_irrelevant", "lkcd_history", "lkcd_fresh_spec", "policy_irrelevant", "policy_bytes", "policy_irrelevant_behind_eof", "policy_eof_counterexample")]
VOFF = 0xffff880000000000
ATTRS = ["arch.name", "arch.page_size", "max_pfn", "file.format", "linux.uts.release", "arch.byte_order", "cpu.number"]
OBSERVED = ("read", "str", "attr", "bits", "fset", "fclr")


def strip(o):
    i = o.find(" C16:")
    return o if i < 0 else o[:i]


# ------------------------------------------------------------------ layouts
class Layout:
    """A generated dump plus a generator of history operations.  `spec` is a JSON-able
    description from which the files can be rebuilt (replay)."""
    modelled = False
    def __init__(self, spec):
        self.spec = spec
        self.kind = spec["kind"]
    def build(self, R, tag):
        raise NotImplementedError
    def open_line(self):
        return "open %d %s" % (len(self.paths), " ".join(self.paths))
    def model_lines(self):
        return []


def rand_runs(rng, top, dens=0.7):
    s, p = set(), rng.randint(0, 3)
    while p < top:
        n = rng.choice([1, 1, 2, 3, 5, 8])
        if rng.random() < dens:
            s |= set(range(p, min(top, p + n)))
        p += n
    return s


class DD(Layout):
    modelled = True
    @staticmethod
    def gen(rng, variant):
        top = rng.choice([24, 40, 64])
        pages = sorted(rand_runs(rng, top))
        if len(pages) < 6:
            pages = list(range(0, top, 2))
        meths = {}
        for p in pages:
            meths[p] = rng.choice(["raw", "raw", "zlib", "zlib-stored", "snappy", "zstd"] + (["lzo"] if rng.random() < 0.15 else []))
        spec = dict(kind="dd", top=top, pages=pages, methods={str(k): v for k, v in meths.items()}, variant=variant)
        if variant == "split":
            cuts = sorted(rng.sample(range(1, top), rng.choice([1, 2])))
            spec["windows"] = list(zip([0] + cuts, cuts + [top]))
            spec["order"] = rng.sample(range(len(spec["windows"])), len(spec["windows"]))
        if variant == "flat":
            spec["flat"] = dict(chunk=rng.choice([512, 4096, 5000]), order=rng.choice(["fwd", "rev"]))
        return DD(spec)
    def build(self, R, tag):
        s = self.spec
        meths = {int(k): v for k, v in s["methods"].items()}
        self.paths = []
        if s["variant"] == "split":
            ps_ = []
            for k, (a, b) in enumerate(s["windows"]):
                p = R.path("%s-%d.dump" % (tag, k))
                dumpgen.write_diskdump(p, s["pages"], ps=PS, max_mapnr=s["top"], ram=range(s["top"]), methods=meths, split=(a, b))
                ps_.append(p)
            self.paths = [ps_[i] for i in s["order"]]
        else:
            p = R.path("%s.dump" % tag)
            dumpgen.write_diskdump(p, s["pages"], ps=PS, max_mapnr=s["top"], ram=range(s["top"]), methods=meths,
                                   flattened=s.get("flat"))
            self.paths = [p]
    def model_lines(self):
        s = self.spec
        out = ["layout dd %d %d" % (PS, s["top"])]
        for p in s["pages"]:
            out.append("page %d %s 0" % (p, "lzo" if s["methods"][str(p)] == "lzo" else "ok"))
        return out
    def ops(self, rng, n):
        s = self.spec
        top = s["top"]
        out = []
        zx = 0
        if rng.random() < (0.7 if s["variant"] == "split" else 0.3):
            out.append("setnum file.mmap_policy 0")      # read(2) path: the per-file block cache of fcache.c
        for _ in range(n):
            r = rng.random()
            if r < 0.62:
                if rng.random() < 0.75:
                    p = rng.choice(s["pages"]) if rng.random() < 0.8 else rng.randrange(top + 3)
                    if rng.random() < 0.5 and out:
                        # re-read something read before (hits, ghost hits)
                        prev = [o for o in out if o.startswith("read 1")]
                        if prev:
                            out.append(rng.choice(prev[-12:])); continue
                    a = p * PS + rng.choice([0, 0, 0, 1, 100, PS - 1])
                    ln = rng.choice([1, 8, 100, PS, PS, PS + 1, 2 * PS, 3 * PS + 7])
                else:
                    a, ln = rng.randrange(top + 2) * PS, rng.choice([PS, 5 * PS])
                out.append("read 1 %d %d" % (a, ln))
            elif r < 0.70:
                zx ^= 1
                out.append("zx %d" % zx)
            elif r < 0.80:
                out.append("setnum cache.size %d" % rng.choice([1, 1, 2, 2, 3, 4, 5, 8, 64]))
            elif r < 0.85:
                out.append("setnum file.mmap_policy %d" % rng.choice([0, 1, 2, 3]))
            elif r < 0.90:
                out.append("attr " + rng.choice(ATTRS))
            else:
                w = rng.choice(["file", "mem"])
                a = rng.randrange(top + 4)
                out.append(rng.choice(["fset %s %d" % (w, a), "fclr %s %d" % (w, a), "bits %s %d %d" % (w, a, a + rng.randrange(40))]))
        return out


class DDPGT(Layout):
    """diskdump whose frames 40.. hold 4-level x86-64 page tables; KVADDR reads walk them
    through the page cache and pin table pages in libaddrxlat's read cache."""
    @staticmethod
    def gen(rng):
        ndata = 32
        vpns = {}
        bases = [0x100, (3 << 27) + (2 << 18) + 5, (5 << 27) + 9, (5 << 27) + (1 << 9) + 1, 0x7ffffff00]
        for b in bases:
            for i in range(rng.randint(1, 6)):
                vpns[b + i] = rng.randrange(ndata)
        return DDPGT(dict(kind="ddpgt", ndata=ndata, vpns={str(k): v for k, v in vpns.items()},
                          comp=rng.choice(["raw", "zlib"]), cache=rng.choice([6, 7, 8, 12, 1024])))
    def build(self, R, tag):
        s = self.spec
        mapping = {int(k): v for k, v in s["vpns"].items()}
        root, tabs = dumpgen.x86_64_pgt_pages(mapping, list(range(40, 40 + 64)))
        pages = list(range(s["ndata"])) + sorted(tabs)
        p = R.path("%s.dump" % tag)
        dumpgen.write_diskdump_custom(p, pages, tabs, ps=PS, max_mapnr=128,
                                      methods={q: s["comp"] for q in range(0, s["ndata"], 2)})
        self.paths = [p]
        self.root = root
    def prologue(self):
        return ["setnum cache.size %d" % self.spec["cache"], "pgt %d" % (self.root * PS)]
    def ops(self, rng, n):
        s = self.spec
        vp = sorted(int(k) for k in s["vpns"])
        out = []
        for _ in range(n):
            r = rng.random()
            if r < 0.55:
                v = rng.choice(vp) if rng.random() < 0.85 else rng.choice(vp) + rng.choice([-1, 7, 1 << 9, 1 << 18])
                out.append("read 2 %d %d" % (v * PS + rng.choice([0, 0, 8, PS - 4]), rng.choice([8, PS, PS + 8, 2 * PS])))
            elif r < 0.9:
                out.append("read 1 %d %d" % (rng.randrange(s["ndata"] + 2) * PS, rng.choice([PS, 2 * PS, 64])))
            elif r < 0.95:
                out.append("str 2 %d" % (rng.choice(vp) * PS + PS - 40))
            else:
                out.append("setnum file.mmap_policy %d" % rng.choice([0, 1, 2, 3]))
        return out


class LKCD(Layout):
    modelled = True
    @staticmethod
    def gen(rng, variant):
        comp = rng.choice([1, 2])
        frames = []
        base = rng.choice([0, 5, 0x3f0])
        n = rng.randint(8, 30)
        pool = list(range(base, base + n))
        if variant == "ordered":
            order = pool
        elif variant == "blocks":
            # runs written out of order: e.g. 10,11,0..9,12,13
            cut = sorted(rng.sample(range(1, n), min(3, n - 1)))
            parts = [pool[a:b] for a, b in zip([0] + cut, cut + [n])]
            rng.shuffle(parts)
            order = [x for part in parts for x in part]
        else:
            order = pool[:]
            rng.shuffle(order)
        # gaps inside the tolerance and beyond it
        order = [x for x in order if rng.random() > 0.15]
        # far-off frames: other level-2 / level-1 slots, also right after a run
        far = [base + (1 << 12) + 3, base + (1 << 22) + 9, (1 << 22) + (1 << 12) + 1, base + 20 + 14, base + 20 + 16]
        for f in rng.sample(far, rng.randint(0, 4)):
            order.insert(rng.randrange(len(order) + 1), f)
        ents = []
        for x in order:
            k = rng.choice(["raw", "raw", "comp", "comp"] + (["badflags"] if rng.random() < 0.08 else []))
            ents.append(dict(pfn=x, kind=k, skip=rng.choice([0, 0, 0, 16, 4000])))
        if variant == "dup" and ents:
            d = dict(rng.choice(ents)); d["salt"] = 9
            ents.insert(rng.randrange(len(ents) // 2, len(ents) + 1), d)
        return LKCD(dict(kind="lkcd", comp=comp, entries=ents, variant=variant))
    def build(self, R, tag):
        p = R.path("%s.lkcd" % tag)
        dumpgen.write_lkcd_hist(p, self.spec["entries"], ps=PS, compression=self.spec["comp"])
        self.paths = [p]
    def model_lines(self):
        return ["layout lkcd %d" % PS] + ["desc %d %s %d" % (e["pfn"], {"raw": "ok", "comp": "comp", "badflags": "badflags"}[e["kind"]], e.get("salt", 0))
                                         for e in self.spec["entries"]]
    def ops(self, rng, n):
        pf = sorted({e["pfn"] for e in self.spec["entries"]})
        out = []
        for _ in range(n):
            r = rng.random()
            if r < 0.75:
                p = rng.choice(pf) if rng.random() < 0.8 else rng.choice(pf) + rng.choice([1, -1, 2, 17, 1 << 12])
                p = max(p, 0)
                if rng.random() < 0.3 and out:
                    prev = [o for o in out if o.startswith("read 1")]
                    if prev:
                        out.append(rng.choice(prev[-10:])); continue
                out.append("read 1 %d %d" % (p * PS + rng.choice([0, 0, 5]), rng.choice([8, PS, PS, 2 * PS])))
            elif r < 0.83:
                out.append("setnum cache.size %d" % rng.choice([1, 2, 3, 5, 64]))
            elif r < 0.88:
                out.append("setnum file.mmap_policy %d" % rng.choice([0, 1, 2, 3]))
            else:
                out.append("attr " + rng.choice(ATTRS + ["max_pfn", "max_pfn"]))
        return out


class ELF(Layout):
    modelled = True
    @staticmethod
    def gen(rng, variant):
        if variant == "bigpage":
            # 8 KiB pages (alpha) whose file data is not aligned to the 4 KiB blocks of the file cache: every page is
            # a chunk of three file cache blocks, the first and the last one partial
            ps = 8192
            segs, pa = [], rng.choice([0, ps])
            for i in range(rng.randint(1, 3)):
                n = rng.randint(2, 5)
                segs.append(dict(paddr=pa, filesz=n * ps, memsz=n * ps, voff=VOFF, salt=0))
                pa += (n + rng.choice([0, 1, 3])) * ps
            return ELF(dict(kind="elf", segs=segs, variant=variant, ps=ps, machine="alpha",
                            skew=rng.choice([8, 0x123, 0x800, 0xff8, 0x1008]), never=rng.random() < 0.6))
        segs = []
        pa = rng.choice([0, PS, 3 * PS])
        for i in range(rng.randint(2, 6)):
            if variant == "aligned":
                memsz = rng.randint(1, 5) * PS
                filesz = rng.choice([memsz, memsz, rng.randrange(0, memsz // PS + 1) * PS])
                start = pa
            else:
                start = pa + rng.choice([0, 0, 0x800, 0x10, PS - 1])
                memsz = max(1, rng.randint(1, 4) * PS - rng.choice([0, 0, 0x800, 1, PS - 1]))
                filesz = rng.choice([memsz, memsz, max(0, memsz - 0x800), memsz // 2, 0])
            segs.append(dict(paddr=start, filesz=filesz, memsz=memsz, voff=VOFF, salt=0))
            pa = (start + memsz + PS - 1) // PS * PS + rng.choice([0, 0, PS, 4 * PS])
        if variant == "overlap":
            # a segment overlapping its predecessor / containing its successor, with different contents
            i = rng.randrange(len(segs) - 1)
            a, b = segs[i], segs[i + 1]
            k = rng.choice(["reach", "inside", "tail", "tail"])
            if k == "tail":
                # only the zero-filled tail (memsz > filesz) of the first segment covers the second one
                a["filesz"] = min(a["filesz"], rng.choice([PS, PS // 2, 0x10]))
                a["memsz"] = (b["paddr"] - a["paddr"]) + b["memsz"] + rng.choice([0, PS, 0x123])
                b["filesz"] = b["memsz"]
            elif k == "reach":
                b["paddr"] = a["paddr"] + max(PS, a["memsz"] // PS // 2 * PS)
                b["memsz"] = b["filesz"] = a["memsz"] + PS
            else:
                a["memsz"] = a["filesz"] = (b["paddr"] - a["paddr"]) + b["memsz"] + 2 * PS
            b["salt"] = 7
            for j in range(i + 2, len(segs)):
                segs[j]["paddr"] += 16 * PS
        if len({s["paddr"] for s in segs}) != len(segs):
            segs = [s for k, s in enumerate(segs) if s["paddr"] not in {t["paddr"] for t in segs[:k]}]
        order = segs[:]
        rng.shuffle(order)
        return ELF(dict(kind="elf", segs=order, variant=variant))
    def build(self, R, tag):
        p = R.path("%s.elf" % tag)
        self.placed = dumpgen.write_elf_salted(p, self.spec["segs"], ps=self.spec.get("ps", PS), machine=self.spec.get("machine", "x86_64"),
                                               skew=self.spec.get("skew", 0))
        self.paths = [p]
    def prologue(self):
        return ["setnum file.mmap_policy 0"] if self.spec.get("never") else []
    def model_lines(self):
        return ["layout elf %d" % self.spec.get("ps", PS)] + ["seg %d %d %d %d %d %d" % (off, s["filesz"], s["paddr"], s["memsz"], (s["paddr"] + s["voff"]) % W, s.get("salt", 0))
                                        for off, s in self.placed]
    def ops(self, rng, n):
        segs = self.spec["segs"]
        out = []
        zx = 0
        PS = self.spec.get("ps", globals()["PS"])
        for _ in range(n):
            r = rng.random()
            if r < 0.72:
                s = rng.choice(segs)
                pg = (s["paddr"] // PS + rng.randrange(-1, s["memsz"] // PS + 2)) * PS
                pg = max(pg, 0)
                if rng.random() < 0.3 and out:
                    prev = [o for o in out if o.startswith("read")]
                    if prev:
                        out.append(rng.choice(prev[-10:])); continue
                a = pg + rng.choice([0, 0, 0, 7, PS - 1])
                ln = rng.choice([1, 64, PS, PS, 2 * PS])
                if rng.random() < 0.4:
                    out.append("read 2 %d %d" % ((a + s["voff"]) % W, ln))
                else:
                    out.append("read 1 %d %d" % (a, ln))
            elif r < 0.80:
                zx ^= 1
                out.append("zx %d" % zx)
            elif r < 0.84:
                out.append("setnum cache.size %d" % rng.choice([1, 2, 3, 64]))
            elif r < 0.88:
                out.append("setnum file.mmap_policy %d" % rng.choice([0, 1, 2, 3]))
            elif r < 0.91:
                out.append("attr " + rng.choice(ATTRS))
            else:
                w = rng.choice(["file", "mem"])
                a = rng.randrange(max(s["paddr"] // PS for s in segs) + 8)
                out.append(rng.choice(["fset %s %d" % (w, a), "fclr %s %d" % (w, a), "bits %s %d %d" % (w, a, a + rng.randrange(24))]))
        return out


KINDS = dict(dd=DD, ddpgt=DDPGT, lkcd=LKCD, elf=ELF)


def make_layout(rng, i):
    k = i % 10
    if k in (0, 5):
        return DD.gen(rng, ["plain", "split", "flat"][(i // 5) % 3])
    if k in (1, 6, 8):
        return LKCD.gen(rng, ["blocks", "shuffle", "dup", "ordered"][(i // 3) % 4])
    if k in (2, 7):
        return ELF.gen(rng, ["aligned", "bytes", "overlap"][(i // 4) % 3])
    if k == 3:
        return DDPGT.gen(rng)
    if k == 4:
        return ELF.gen(rng, "overlap")
    if k == 9:
        return ELF.gen(rng, "bigpage")
    return DD.gen(rng, "plain")


# ------------------------------------------------------------------ running
def script_for(L, ops, with_model=True):
    """harness input: history ops; every observed op is followed by its `F` twin (and `stats`)."""
    lines = [L.open_line()] + (L.model_lines() if with_model else [])
    lines += getattr(L, "prologue", lambda: [])()
    for o in ops:
        lines.append(o)
        if o.split()[0] in OBSERVED:
            lines.append("F " + o)
            if o.startswith("read") and L.modelled:
                lines.append("stats")
    return lines


def is_obs_line(l):
    w = l.split()[0]
    return not (w in ("layout", "page", "desc", "seg", "close") or l.startswith("#"))


def run_script(R, exe, lines, timeout=40):
    rc, out, err = R.run_harness(exe, stdin_text="\n".join(lines) + "\n", timeout=timeout)
    return rc, kdf.obs(out), err


def evaluate(lines, obs):
    """pair history / fresh answers.  Returns (first failing index into lines or None, message, n_compared, n_nontrivial)"""
    exp = [l for l in lines if is_obs_line(l)]
    n = 0
    seen = set()
    for i, l in enumerate(exp):
        if i >= len(obs):
            return ("abort", i, exp[i], n, len(seen))
        if l.startswith("F "):
            h, f = strip(obs[i - 1]), strip(obs[i])
            n += 1
            seen.add((l, f))
            if h != f:
                return ("diff", i, "'%s' answered '%s' after the history but '%s' on a freshly opened context" % (l[2:], h, f), n, len(seen))
        elif l.startswith("open") and not obs[i].startswith("open ok"):
            return ("open", i, "generated dump does not open: " + obs[i], n, len(seen))
    return (None, None, None, n, len(seen))


def shrink(R, exe, L, ops, still_fails, budget=220, wall=45):
    """greedy removal of history operations while the failure (same kind) persists"""
    import time
    t0 = time.time()
    ops = list(ops)
    chunk = max(1, len(ops) // 2)
    while chunk >= 1 and budget > 0 and time.time() - t0 < wall:
        i = 0
        changed = False
        while i < len(ops) and budget > 0 and time.time() - t0 < wall:
            cand = ops[:i] + ops[i + chunk:]
            budget -= 1
            if cand and still_fails(cand):
                ops = cand
                changed = True
            else:
                i += chunk
        if chunk == 1 and not changed:
            break
        chunk = max(1, chunk // 2) if chunk > 1 else (1 if changed else 0)
    return ops


def check_layout(R, exe, L, ops, tag):
    """returns dict(fail=None|(kind,msg,minimal_ops), compared=, nontrivial=, lines=, obs=)"""
    lines = script_for(L, ops)
    rc, obs, err = run_script(R, exe, lines)
    kind, idx, msg, n, nt = evaluate(lines, obs)
    res = dict(fail=None, compared=n, nontrivial=nt, lines=lines, obs=obs, rc=rc)
    if kind is None and rc == 0:
        return res
    exp = [l for l in lines if is_obs_line(l)]
    if kind is None:
        kind, idx, msg = "abort", len(obs), "(end)"
    if kind == "abort":
        first = (err.strip().split("\n") or [""])
        san = next((x for x in first if "ERROR: AddressSanitizer" in x or "runtime error" in x), first[0] if first else "")
        if rc == -999:
            san = "no answer within the time limit (endless loop)"
        msg = "harness aborted (rc=%s) at operation '%s': %s" % (rc, exp[min(idx, len(exp) - 1)], san[:300])
    # cut the history at the failing op, then shrink
    upto = exp[:idx + 1]
    hist = [l for l in upto if not l.startswith("F ") and l != "stats" and not l.startswith("open") and l not in getattr(L, "prologue", lambda: [])()]
    def still(cand):
        # history ops plain, only the observed (last) op gets its fresh twin
        ls = [L.open_line()] + getattr(L, "prologue", lambda: [])() + list(cand)
        if kind == "diff":
            ls.append("F " + cand[-1])
        rc2, ob2, er2 = run_script(R, exe, ls, timeout=10)
        if kind == "abort":
            return rc2 != 0
        return rc2 == 0 and len(ob2) == len(ls) and ob2[0].startswith("open ok") and strip(ob2[-2]) != strip(ob2[-1])
    small = hist
    if kind in ("diff", "abort") and hist:
        if kind == "diff":
            small = shrink(R, exe, L, hist[:-1], lambda c: still(c + [hist[-1]])) + [hist[-1]]
            if not still(small):
                small = hist
        else:
            small = shrink(R, exe, L, hist, still)
            if not still(small):
                small = hist
    res["fail"] = (kind, msg, small, err[-1500:] if kind == "abort" else "")
    return res


def classify(L, kind, msg, ops):
    """stable keys of the findings that are listed in KNOWN_FINDINGS (genuine, not repaired)"""
    txt = " ".join(ops)
    if kind == "abort" and "heap-use-after-free" in msg and "setnum cache.size" in txt and L.kind == "ddpgt":
        return "cache-resize-uaf"
    if kind == "diff" and "busy" in msg and L.kind == "ddpgt" and L.spec.get("cache", 99) <= 5:
        return "small-cache-busy"
    if kind == "diff" and L.spec.get("truncated") and "setnum file.mmap_policy" in txt:
        return "mmap-policy-eof"
    return None


# ------------------------------------------------------------------ probes for the listed findings
def finding_probes(R, exe):
    """Small fixed scenarios for the three genuine, unrepaired defects (each in its own process)."""
    import random
    out = []
    rng = random.Random(4)
    # (a) cache.size set while libaddrxlat's read cache still references pages of the old cache
    L = DDPGT.gen(rng); L.spec["cache"] = 8
    L.build(R, "probe-uaf")
    v = sorted(int(k) for k in L.spec["vpns"])[0] * PS
    out.append((L, ["read 2 %d 8" % v, "setnum cache.size 16", "read 2 %d 8" % (v + (1 << 30))]))
    # (b) a cache no larger than the number of read-cache slots: table pages stay pinned
    L = DDPGT.gen(rng); L.spec["cache"] = 4
    L.build(R, "probe-busy")
    v = sorted(int(k) for k in L.spec["vpns"])[0] * PS
    out.append((L, ["read 2 %d 8" % v, "read 1 0 %d" % PS]))
    # (c) truncated file: the page behind EOF under file.mmap_policy ALWAYS vs. the default
    L = ELF(dict(kind="elf", variant="truncated", truncated=True,
                 segs=[dict(paddr=0, filesz=4 * PS, memsz=4 * PS, voff=VOFF, salt=0)]))
    p = R.path("probe-eof.elf")
    L.placed = dumpgen.write_elf_salted(p, L.spec["segs"], ps=PS, truncate_to=PS + 2 * PS)
    L.paths = [p]
    L.modelled = False
    out.append((L, ["setnum file.mmap_policy 1", "read 1 %d %d" % (2 * PS, PS)]))
    # (d) not a listed finding: a file whose size is not a multiple of the page size, read(2) path, the block cache (16 entries)
    # recycled before the last, partial block is read: the bytes behind EOF of that block are zeroes whatever came before
    cut = rng.choice([0x345, 0x800, 1, PS - 1])
    L = ELF(dict(kind="elf", variant="partial-last-block", truncate_to=PS + 20 * PS + cut,
                 segs=[dict(paddr=0, filesz=24 * PS, memsz=24 * PS, voff=VOFF, salt=0)]))
    p = R.path("probe-eofpart.elf")
    L.placed = dumpgen.write_elf_salted(p, L.spec["segs"], ps=PS, truncate_to=L.spec["truncate_to"])
    L.paths = [p]
    L.modelled = False
    order = list(range(20)); rng.shuffle(order)
    out.append((L, ["setnum file.mmap_policy 0"] + ["read 1 %d %d" % (q * PS, PS) for q in order] +
                ["read 1 %d %d" % (20 * PS, PS), "read 1 %d %d" % (20 * PS + cut - 1, 40), "setnum file.mmap_policy 1", "read 1 %d %d" % (20 * PS, PS)]))
    return out


def report(R, L, kind, msg, small, err, proof, tag=""):
    key = classify(L, kind, msg, small)
    R.violation("%s dump (%s): %s; minimal history: %s" % (L.kind, L.spec.get("variant", ""), msg, " ; ".join(getattr(L, "prologue", lambda: [])() + small)),
                dict(stream="hist", layout=L.spec, history=getattr(L, "prologue", lambda: [])() + small, observed=small[-1] if small else None,
                     stderr=err, broken_theorems=proof["broken"], how="tools/check.py C04 --replay <this file>"),
                key=key)


def run(R):
    proof = R.prove(["Kdf.Props.C04"], THEOREMS)
    rng = R.rng
    exe = R.build_harness("s_hist", ["s_hist.c"])
    quick = R.tier == "quick"
    nlay = 80 if quick else 1200
    nops = 70 if quick else 160
    compared = nontrivial = 0
    kinds = {}
    model_lines_total = 0
    first_model_diff = None
    impl_model, drv_model = [], []
    samples = []
    failed = False
    # corpus first
    cdir = os.path.join(kdf.VERIF, "corpus", "C04")
    corpus = []
    if os.path.isdir(cdir):
        for fn in sorted(os.listdir(cdir)):
            if fn.endswith(".json"):
                j = json.load(open(os.path.join(cdir, fn)))
                corpus.append((KINDS[j["layout"]["kind"]](j["layout"]), j["history"]))
    jobs = []
    for ci, (L, hist) in enumerate(corpus):
        L.build(R, "corpus%d" % ci)
        pro = getattr(L, "prologue", lambda: [])()
        jobs.append((L, [h for h in hist if h not in pro], "corpus%d" % ci))
    for li in range(nlay):
        L = make_layout(rng, li)
        L.build(R, "l%d" % li)
        jobs.append((L, L.ops(rng, nops), "l%d" % li))
    nfail = 0
    for L, ops, tag in jobs:
        if nfail >= 3:
            break                       # enough evidence; keep the run short
        res = check_layout(R, exe, L, ops, tag)
        compared += res["compared"]; nontrivial += res["nontrivial"]
        kinds["%s/%s" % (L.kind, L.spec.get("variant", "-"))] = kinds.get("%s/%s" % (L.kind, L.spec.get("variant", "-")), 0) + res["compared"]
        if len(samples) < 3:
            samples.append(dict(kind=L.kind, variant=L.spec.get("variant"), ops=ops[:4]))
        if res["fail"]:
            kind, msg, small, err = res["fail"]
            report(R, L, kind, msg, small, err, proof)
            failed = True
            nfail += 1
            continue
        # correspondence with the Lean model (history context + fresh contexts + hit/miss counters)
        if L.modelled:
            text = "\n".join(res["lines"]) + "\n"
            drv = kdf.obs(R.run_driver("hist", text))
            impl = [strip(o) for o in res["obs"]]
            pairs = [(a, b) for a, b in zip(impl, drv) if b != "unmodelled"]
            if len(impl) != len(drv):
                pairs.append(("<%d lines>" % len(impl), "<%d lines>" % len(drv)))
            model_lines_total += len(pairs)
            for k, (a, b) in enumerate(pairs):
                if a != b and first_model_diff is None:
                    exp = [l for l in res["lines"] if is_obs_line(l)]
                    first_model_diff = dict(layout=L.spec, index=k, op=exp[k] if k < len(exp) else None, impl=a, model=b)
                    break
    # the three listed findings (each scenario in its own process)
    probes = 0
    for L, ops in finding_probes(R, exe):
        res = check_layout(R, exe, L, ops, "probe")
        probes += 1
        compared += res["compared"]
        if res["fail"]:
            kind, msg, small, err = res["fail"]
            report(R, L, kind, msg, small, err, proof)
    # section 5 of the model (mmap versus read): the real fcache_get on files of every size around the page and window
    # boundaries, all four policies; the bytes are the file's, behind the end every policy refuses (block 0 of an empty
    # file is the one exception, policy_eof_counterexample) -- compared with Kdf.Model.Hist.fcacheGet line by line
    fl, fmeta = [], []
    rngf = R.rng
    for _ in range(12 if R.tier == "quick" else 150):
        size = rngf.choice([0, 1, 100, 4095, 4096, 4097, 8191, 8192, 8193, 12288, 12300, rngf.randrange(0, 20000)])
        data = bytes(rngf.getrandbits(8) | 1 for _ in range(size))
        fl.append("fcfile " + (data.hex() or "-")); fmeta.append(None)
        pts = sorted({0, 1, 4095, 4096, 8191, 8192, 8193, 12288, max(size - 1, 0), size, size + 1, (size // 4096) * 4096, (size // 4096 + 1) * 4096,
                      (size // 4096 + 2) * 4096 + 7, rngf.randrange(0, 24000)})
        for pos in pts:
            for pol in (0, 1, 2, 3):
                n = rngf.choice([1, 16, 4096 - pos % 4096])
                n = min(n, 4096 - pos % 4096)
                fl.append("fcget %d %d %d" % (pol, pos, n)); fmeta.append((data, pol, pos, n))
    libq, cfq = R.build_lib()
    exef = R.build_harness("s_fcget", ["s_fcget.c"], lib=libq, cflags=cfq)
    rcf, outf, errf = R.run_harness(exef, stdin_text="\n".join(fl) + "\n")
    fimpl = kdf.obs(outf)
    fmodel = kdf.obs(R.run_driver("hist", "\n".join(fl) + "\n"))
    fq = [m for m in fmeta if m]
    if not failed:
        if rcf != 0 or len(fimpl) != len(fq):
            R.violation("fcache_get harness stopped after %d of %d (rc=%s): %s" % (len(fimpl), len(fq), rcf, errf.strip()[:300]),
                        dict(stream="hist/fcget", stderr=errf[-1200:]))
            failed = True
        else:
            for (data, pol, pos, n), o in zip(fq, fimpl):
                blk = pos // 4096 * 4096
                inside = blk < len(data)
                exp = (data[pos:pos + n] + bytes(n))[:n].hex()
                w = o.split()
                ok = (w[:3] == ["fcget", "data", exp]) if inside else (w[1] == "refused" or (blk == 0 and w[:3] == ["fcget", "data", exp]))
                if not ok:
                    R.violation("fcache_get(policy %d, pos %d) on a file of %d bytes answered '%s'; the file holds %s there (%s)" %
                                (pol, pos, len(data), o[:100], exp[:64] or "nothing", "inside the file" if inside else "block behind the end of the file"),
                                dict(stream="hist/fcget", file_size=len(data), policy=pol, pos=pos, n=n, answer=o[:200]))
                    failed = True
                    break
    compared += len(fimpl)
    if first_model_diff is None and not failed:
        fd = kdf.diff_streams(fimpl, fmodel)
        if fd is not None:
            first_model_diff = dict(layout="fcget", index=fd, op=[l for l, m in zip(fl, fmeta) if m][fd] if fd < len(fq) else None,
                                    impl=fimpl[fd][:120] if fd < len(fimpl) else None, model=fmodel[fd][:120] if fd < len(fmodel) else None)
    model_lines_total += len(fmodel)
    if (proof["broken"] or first_model_diff is not None) and not failed:
        R.violation("proof obligation or correspondence broken: theorems %s; first differing line %s" % (proof["broken"], first_model_diff),
                    dict(stream="hist", broken_theorems=proof["broken"], lean_log=proof["log"][-1500:], first_diff=first_model_diff),
                    found_input=False)
    cov = dict(obligations=max(proof["obligations"], 1), discharged=proof["discharged"],
               checker_cmd="cd lean && lake build Kdf.Props.C04 && #print axioms on each theorem",
               trusted_base=["Lean 4 kernel", "tools/dumpgen.py writers (diskdump, LKCD, ELF, x86-64 page tables)", "harness/s_hist.c, gcc + ASan/UBSan",
                             "the freshly opened context as the oracle of (1)"],
               broken_theorems=proof["broken"], theorems=THEOREMS,
               evaluations=compared, distinct_nontrivial=nontrivial,
               rule="random histories (reads in MACHPHYS/KVADDR incl. multi-page and unaligned, page-map queries, attribute gets, cache.size 1..64, "
                    "file.mmap_policy 0..3, zero_excluded toggles; KVADDR through x86-64 page tables stored in the dump) on one context per generated dump "
                    "(diskdump plain/split/flattened/compressed/excluded, LKCD block-shuffled/shuffled/duplicated/gapped/far frames, ELF aligned/byte-granular/overlapping); "
                    "every observed call is repeated on a freshly opened context and must give the same status, length and bytes; "
                    "non-trivial = distinct (call, answer) pairs",
               traces_validated_against_impl=model_lines_total, correspondence_first_diff=first_model_diff, case_kinds=kinds,
               finding_probes=probes, layouts=len(jobs), samples=samples)
    return "proof", cov, ["the oracle of (1) is the library itself on a fresh context: a defect that is independent of history is out of scope (C01)",
                          "SADUMP, s390 and Xen formats have no writer: their cache paths are covered by the shared cache_get_page model only",
                          "the LKCD block lists (pfn_block, gap tolerance, split) are tied to the contract-level index model by the differential stream only",
                          "the assembly of a page from several file cache blocks (fcache_get_chunk: contiguous slots versus the copy fall-back) "
                          "is below the Hist model, which reads the file as a byte function (policy_irrelevant / policy_bytes): the ELF layouts "
                          "with 8 KiB pages at unaligned file offsets (variant bigpage) exercise it on the implementation (history versus fresh "
                          "context) and tie the page-level answers to the model"]


def replay(R, path):
    j = json.load(open(path))
    L = KINDS[j["layout"]["kind"]](j["layout"])
    exe = R.build_harness("s_hist", ["s_hist.c"])
    if L.spec.get("truncated") or L.spec.get("truncate_to"):
        p = R.path("replay.elf")
        L.placed = dumpgen.write_elf_salted(p, L.spec["segs"], ps=PS, truncate_to=L.spec.get("truncate_to", 3 * PS))
        L.paths = [p]; L.modelled = False
    else:
        L.build(R, "replay")
    pro = getattr(L, "prologue", lambda: [])()
    ops = [h for h in j["history"] if h not in pro]
    lines = script_for(L, ops, with_model=False)
    rc, obs, err = run_script(R, exe, lines)
    exp = [l for l in lines if is_obs_line(l)]
    for l, o in zip(exp, obs):
        print("%-50s %s" % (l, o))
    kind, idx, msg, n, nt = evaluate(lines, obs)
    print("verdict:", kind, msg, "rc=%s" % rc)
    if rc:
        print(err[-1500:])
    return 1 if (kind or rc) else 0
