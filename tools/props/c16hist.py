"""C16, histories on ONE addrxlat context (the error string is state of the context, so is the `noerr` flag):

hist_os   harness/s_os.c in C16 mode: for every generated image an OS set-up that suffers a tolerated (or fatal) failure -
          root page table and every symbol / register / number unknown, one look-up refused, one page unreadable - followed
          ON THE SAME CONTEXT (same or new translation system) by the unharmed set-up and by conversions / page-table walks
          of mapped and of unmapped (non-present entry) addresses.  Monitor: os_verdict of c16.py on every call
          (implementation-only, no model twin).
hist_sys  harness/s_sys.c `econv`: addrxlat_fulladdr_conv on generated systems whose alternatives of one chain link mix
          methods that fail with NODATA / NOMETH (page table without root, NOMETH slot, unreadable table page) with LINEAR
          methods, without a fresh context between the calls.  Monitor: message empty iff status ok; correspondence: the
          message flag of Kdf.Model.SysMsg.convM (driver stream `sys`, line `econv`), theorems op_success_clean / op_failure_msg.
Both return (fail or None, statistics); fail = (message, replay dict)."""
import random, re

W = 1 << 64
THEOREMS = ["tryAltM_fst", "tryAltM_inv", "doOpM_fst", "doOpM_call_clean", "doOpM_fail_msg", "opTopM_fst", "op_success_clean", "op_failure_msg"]
MODULE = "Kdf.Props.C16Hist"
ASSUMPTIONS = ["histories on one context (tools/props/c16hist.py): the re-set-up histories of harness/s_os.c (xhide / kbad / sysonly / xwalk: set-up "
               "with the root page table and all symbols unknown, one look-up or page refused, then the unharmed set-up and conversions / walks of "
               "mapped and non-present addresses on the same context) are monitor-only (implementation-only, no model twin: the `noerr` flag of "
               "the context is not modelled)",
               "error string across do_op (Kdf.Model.SysMsg, stream `sys` line `econv`): the message is modelled as one flag (empty / non-empty); a "
               "failing internal_walk is assumed to leave a message and a successful one none; the flag's text and the callback of addrxlat_op "
               "other than storeaddr are not modelled"]


def start(R, rng):
    """run both families in a thread of their own; .result() -> [(name, fail, stats), ...]"""
    import concurrent.futures
    r1, r2 = random.Random(rng.getrandbits(64)), random.Random(rng.getrandbits(64))
    def work():
        a = hist_sys(R, r2)
        b = hist_os(R, r1)
        return [("hist_os",) + tuple(b), ("hist_sys",) + tuple(a)]
    ex = concurrent.futures.ThreadPoolExecutor(1)
    fut = ex.submit(work)
    ex.shutdown(wait=False)
    return fut


def unmapped(img, rng, n=3):
    out = []
    cands = []
    for r in img.regions:
        cands += [r[2] + 1, r[2] + 0x1001, r[1] - 0x1000, r[2] + 0x200001]
    rng.shuffle(cands)
    for va in cands:
        va %= W
        try:
            hit = img.walk(va)
        except Exception:
            hit = 1
        if hit is None and va not in out and not any(r[1] <= va <= r[2] for r in img.regions):
            out.append(va)
        if len(out) >= n:
            break
    return out


def hist_os(R, rng):
    from props import c16 as C
    lib, cflags = R.build_lib()
    exe = R.build_harness("s_os_hist", ["s_os.c"], lib=lib, cflags=cflags)
    quick = R.tier == "quick"
    from props import c08img as G
    imgs = []
    for g in C.OS_GENS:
        for k in range(1 if quick else 4):
            imgs.append(("%s#h%d" % (g[4:], k), getattr(G, g)(random.Random(rng.getrandbits(48)))))
    # every run has the x86_64 Linux image whose only root source is the option (nothing else to fall back on)
    imgs.append(("x86_64_linux#root-option-only", G.gen_x86_64_linux(random.Random(rng.getrandbits(48)),
                 force=dict(rootsrc="opt-phys", stext=False, in_cr3=False, in_top=False, in_l4=False))))
    # pass 1: pages of the unharmed set-up
    base = ["c16 1"]
    for name, img in imgs:
        base += img.setup_lines()
    rc, out, err = R.run_harness(exe, stdin_text="\n".join(base) + "\n")
    pages, cur = [], []
    for l in out.split("\n"):
        if l.startswith("P "):
            t = tuple(int(x) for x in l.split()[1:3])
            if t not in cur:
                cur.append(t)
        elif l.startswith("E osinit"):
            pages.append(cur); cur = []
    if rc != 0 or len(pages) != len(imgs):
        return (("OS history harness stopped (rc=%s) in pass 1: %s" % (rc, err.strip()[-400:]), dict(stream="os-history")), {})
    script, desc = ["c16 2"], []
    stats = dict(images=len(imgs), histories=0, calls=0, failing=0, notpresent_after_history=0, first_setup_tolerated=0)
    for (name, img), pg in zip(imgs, pages):
        L = img.setup_lines()
        osinit = L[-1]
        script += L[:-1]
        noroot = " ".join(w for w in osinit.split() if not w.startswith("rootpgt="))
        names = list(dict.fromkeys((k, n) for k, n, v in img.syms))
        qs = [r[1] for r in img.regions[:2]] + unmapped(img, rng) + [0x10]
        hists = [("root page table and every symbol, register and number unknown (no rootpgt option, all look-ups answer nodata)",
                  ["xhide %s %s nodata" % kn for kn in names[:60]], noroot)]
        if names:
            k, n = rng.choice(names)
            st = rng.choice(C.OS_FAIL)
            hists.append(("the %s look-up of %s fails with %s" % (k, n, st), ["xhide %s %s %s" % (k, n, st)], osinit))
            hists.append(("no rootpgt option", [], noroot))
        if pg:
            as_, a = rng.choice(pg)
            st = rng.choice(C.OS_FAIL)
            hists.append(("get_page fails with %s for %d:%#x" % (st, as_, a), ["kbad %d %d %s" % (as_, a, st)], osinit))
        for what, inject, first in hists:
            for fresh in ((False, True) if (not quick or what.startswith("root page")) else (rng.random() < 0.5,)):
                pre = ["newsys", "hide - - ok"]
                h = pre + inject + [first, "hide - - ok", "kunbad"] + (["sysonly"] if fresh else []) + [osinit]
                story = "history on one context: set-up #1 with %s, then the unharmed set-up on %s translation system" % (
                    what, "a new" if fresh else "the same")
                stats["histories"] += 1
                script += h
                custom = "custom" in " ".join(inject)
                desc.append((name, img, list(h), story + "; set-up #1", custom))
                desc.append((name, img, list(h), story + "; set-up #2", custom))
                for q in qs:
                    for op in ("conv 0 2 %d" % q, "xwalk %d" % q):
                        h = h + [op]
                        script.append(op)
                        desc.append((name, img, list(h), story + "; then %s of KVADDR:%#x" % (
                            "addrxlat_fulladdr_conv to KPHYSADDR" if op[0] == "c" else "addrxlat_walk (hardware method)", q), False))
    rc, out, err = R.run_harness(exe, stdin_text="\n".join(script) + "\n", timeout=600)
    E = [l for l in out.split("\n") if l.startswith("E ")]
    fail = None
    for (name, img, h, what, custom), l in zip(desc, E):
        head, msg = l.split(" | ", 1)
        t = head.split()
        st, ev = t[2], int(t[3][3:])
        stats["calls"] += 1
        if st == "none":
            continue
        if st != "ok":
            stats["failing"] += 1
        if st == "notpresent" and t[1] != "osinit":
            stats["notpresent_after_history"] += 1
        if st == "ok" and what.endswith("set-up #1"):
            stats["first_setup_tolerated"] += 1
        # (the one-story rule of os_verdict numbers callback failures per call; across a history only the
        # status / message rules apply to the later calls)
        v = C.os_verdict(st, msg, ev, custom)
        if v and ("two stories" in v or "callback failure #" in v or "origin is not" in v) and not what.endswith("set-up #1"):
            v = None
        if v and fail is None:
            Ls = [x for x in img.setup_lines()[:-1]]
            if len(Ls) > 3000:
                Ls = ["# %d set-up lines of the image omitted (ovr ...)" % len(Ls)] + [x for x in Ls if not x.startswith("ovr")]
            fail = ("%s (image %s; %s): %s" % ({"osinit": "addrxlat_sys_os_init", "conv": "addrxlat_fulladdr_conv", "xwalk": "addrxlat_walk"}[t[1]],
                                               name, what, v),
                    dict(stream="os-history", image=name, desc={k: str(x) for k, x in img.desc.items()}, what=what, observed=l,
                         input="\n".join(["c16 2"] + Ls + h)))
    if fail is None and (rc != 0 or len(E) != len(desc)):
        k = min(len(E), len(desc) - 1)
        fail = ("OS history harness stopped (rc=%s) at image %s, %s: %s" % (rc, desc[k][0], desc[k][3], err.strip()[-500:]),
                dict(stream="os-history", image=desc[k][0], input="\n".join(desc[k][2])))
    return fail, stats


# ---------------------------------------------------------------------------------------------------------
PAGES = [0x1000, 0x5000, 0x20000, 0x100000]


def rand_failing(rng):
    """a method that fails with NODATA / NOMETH before or while it walks"""
    k = rng.randrange(4)
    if k == 0:
        return ("pgt", "x86_64", rng.choice((0, 1)), -1, 0, 0, [12, 9, 9, 9, 9]), "page table without a root address"
    if k == 1:
        return ("nometh",), "NOMETH slot"
    if k == 2:
        return ("pgt", "x86_64", rng.choice((0, 1)), rng.choice((0, 1)), 0x7000, 0, [12, 9, 9, 9, 9]), "page table whose root page is unreadable (nodata)"
    return ("memarr", rng.choice((0, 1)), rng.choice((0, 1)), 0x7000, 12, 8, 8), "memory array on an unreadable page (nodata)"


def hist_sys(R, rng):
    from props import c09 as S9
    exe = S9.sys_harness(R)
    quick = R.tier == "quick"
    L, meta = [], []
    stats = dict(systems=0, calls=0, succeeding=0, failing=0)
    nsys = 40 if quick else 400
    for si in range(nsys):
        blk = ["clr", "newsys", "mem %d 0 0 0 0 0" % rng.getrandbits(32), "rcaps %d" % rng.choice([3, 3, 1, 2, 7]),
               "bad 0 28672 nodata", "bad 1 28672 nodata"]
        slots, notes = {}, []
        nfail = rng.randint(1, 3)
        for s in range(nfail):
            slots[s], w = rand_failing(rng); notes.append("slot %d: %s" % (s, w))
        for s in range(nfail, nfail + 3):
            t = rng.choice((0, 1, 0, 1, 2))
            slots[s] = ("linear", t, rng.choice([0, 0x1000, W - 0xffff880000000000, rng.getrandbits(20) << 12]))
            notes.append("slot %d: linear to address space %d" % (s, t))
        # a present-PTE walk is not needed: the alternatives are what matters
        for s, m in slots.items():
            blk.append(S9.meth_line(s, m))
        live = list(slots)
        cuts = sorted(rng.sample([0x1000, 0x100000, 0xffff880000000000, 0xffffffff80000000, 1 << 47, 1 << 32], 3))
        addrs = [0, 0xfff] + [c + d for c in cuts for d in (0, -1, 0x123000)]
        for mi in (1, 0, 3, 4, 2):
            r = rng.random()
            if r < 0.12:
                blk.append(S9.map_line(mi, None)); continue
            ms = [rng.choice(live + [-1]) for _ in range(4)]
            if mi == 1 and rng.random() < 0.7:
                ms[rng.randrange(4)] = rng.randrange(nfail)           # the first alternative fails somewhere
            if mi == 0 and rng.random() < 0.7:
                ms = [rng.choice(live[nfail:]) for _ in range(4)]     # the later alternative is linear
            blk.append(S9.map_line(mi, S9.tiling(cuts, ms)))
        stats["systems"] += 1
        hist = []
        for _ in range(10 if quick else 16):
            src = rng.choice((2, 2, 2, 1, 0))
            tgt = rng.choice([x for x in (0, 1, 2) if x != src] + [src] * (rng.random() < 0.1))
            a = rng.choice(addrs) % W
            ln = "econv %d %d %d" % (tgt, src, a)
            hist.append(ln)
            L_idx = len(L) + len(blk) + len(hist) - 1
            meta.append((L_idx, si, list(blk), list(hist), notes))
        L += blk + hist
    text = "\n".join(L) + "\n"
    rc, out, err = R.run_harness(exe, stdin_text=text, timeout=600)
    impl_all = [l[1:].strip() for l in out.split("\n") if l.startswith(">")]
    model_all = [l[1:].strip() for l in R.run_driver("sys", text).split("\n") if l.startswith(">")]
    impl = [l for l in impl_all if l.startswith("econv")]
    model = [l for l in model_all if l.startswith("econv")]
    fail = None
    prev_failed = False
    for k, (m, l) in enumerate(zip(meta, impl)):
        head, msg = l.split(" | ", 1)
        t = head.split()
        st, flag = t[1], t[4]
        stats["calls"] += 1
        v = None
        if st == "ok" and flag != "empty":
            v = "succeeded and left the message '%s' in the context" % msg[:160]
        elif st != "ok" and flag != "set":
            v = "failed with status %s and an empty error string" % st
        if st != "ok":
            stats["failing"] += 1
        else:
            stats["succeeding"] += 1
        if v and fail is None:
            fail = ("addrxlat_fulladdr_conv on a generated translation system (%s), call '%s' (target, source address space, address) "
                    "after %d earlier conversions on the same context: %s" % ("; ".join(m[4]), m[3][-1], len(m[3]) - 1, v),
                    dict(stream="sys", observed=l, methods=m[4], input="\n".join(m[2] + m[3]) + "\n"))
    if fail is None and (rc != 0 or len(impl) != len(meta)):
        k = min(len(impl), len(meta) - 1)
        fail = ("translation-system history harness stopped (rc=%s) at '%s': %s" % (rc, meta[k][3][-1], err.strip()[-500:]),
                dict(stream="sys", input="\n".join(meta[k][2] + meta[k][3]) + "\n"))
    mism = None
    if fail is None:
        a = [x.split(" | ")[0] for x in impl]
        for k in range(max(len(a), len(model))):
            if k >= len(a) or k >= len(model) or a[k] != model[k]:
                mism = k
                break
        if mism is not None:
            m = meta[min(mism, len(meta) - 1)]
            fail = ("error-string flag of addrxlat_fulladdr_conv: implementation and model (Kdf.Model.SysMsg.convM) disagree at '%s': "
                    "implementation '%s', model '%s'" % (m[3][-1], a[mism] if mism < len(a) else None, model[mism] if mism < len(model) else None),
                    dict(stream="sys", input="\n".join(m[2] + m[3]) + "\n", found_input=False))
    stats["correspondence_first_diff"] = mism
    return fail, stats
