"""C09 — address-space conversion terminates and lands where the caller can use it.

Stream `sys`: real addrxlat_op / addrxlat_fulladdr_conv (harness/s_sys.c) against the
Lean model Kdf.Model.Sys (driver stream `sys`) and against `Spec` below, an independent
Python statement of what a conversion must deliver (first usable result of the
first-match composition of the methods selected by the maps, nesting bounded).
"""
import json, os, re
import kdf

W = 1 << 64
FULL = W - 1
KPHYS, MACHPHYS, KV, NOADDR = 0, 1, 2, -1
MAXD = 16
M_HW, M_KV_PHYS, M_KPHYS_DIRECT, M_MACHPHYS_KPHYS, M_KPHYS_MACHPHYS = range(5)
EXPECT = {M_HW: KV, M_KV_PHYS: KV, M_KPHYS_DIRECT: KPHYS, M_MACHPHYS_KPHYS: MACHPHYS, M_KPHYS_MACHPHYS: KPHYS}
SOFT = ("nometh", "nodata")

THEOREMS = ["Kdf.Props.C09." + t for t in (
    "op_passthrough", "op_target_in_caps", "op_calls_once", "op_ok_only_by_callback", "op_no_oob", "linear_shortcut_eq_walk",
    "tryAlt_eq_spec", "doOp_eq_spec", "op_eq_composition", "conv_single_target", "conv_fail_unchanged",
    "inflight_distinct", "op_limit_conservative",
    # Kdf/Props/C09Read.lean: reads through a re-entrant get-page callback (model Kdf.Model.RCache), custom methods
    "read_nesting_bounded", "read_not_stuck", "read_nesting_le_slots", "filling_slot_never_chosen", "filling_slot_untouched",
    "filling_marks_restored", "read_gives_back", "read_hit_no_callback", "read_self_fetch_detected", "walk_custom_eq_spec")]
MODULES = ["Kdf.Props.C09", "Kdf.Props.C09Read"]
GP_RUNAWAY = 200        # harness/s_sys.c gives up at this nesting of get-page callbacks


# --------------------------------------------------------------------------- memory
def mix(seed, as_, a4):
    z = (seed + 0x9E3779B97F4A7C15 * (a4 // 4 + 1) + as_ * 0xD1B54A32D192ED03) % W
    z = ((z ^ (z >> 30)) * 0xBF58476D1CE4E5B9) % W
    z = ((z ^ (z >> 27)) * 0x94D049BB133111EB) % W
    z ^= z >> 31
    return z & 0xffffffff


class Mem:
    def __init__(self):
        self.par = (0, 0, 0, 0, 0, 0)
        self.ovr = {}
        self.bad = {}

    def cell(self, as_, a4):
        v = self.ovr.get((as_, a4))
        if v is not None:
            return v
        seed, a0, o0, a1, o1, _ = self.par
        h = mix(seed, as_, a4)
        return (h & a0) | o0 if (a4 // 4) % 2 == 0 else (h & a1) | o1

    def read(self, as_, addr, size):
        if as_ not in (0, 1, 2):
            return "nodata", 0
        b = self.bad.get((as_, addr & ~0xfff))
        if b is not None:
            return b, 0
        if size not in (4, 8):
            return "notimpl", 0
        if addr % size:
            return "unaligned", 0
        if size == 4:
            return "ok", self.cell(as_, addr)
        a, b = self.cell(as_, addr), self.cell(as_, addr + 4)
        return "ok", ((a << 32) | b) if self.par[5] else ((b << 32) | a)

    def write(self, as_, addr, size, val, out):
        """store a value; appends the protocol lines to `out`"""
        if size == 4:
            cells = [(addr, val & 0xffffffff)]
        elif self.par[5]:
            cells = [(addr, val >> 32), (addr + 4, val & 0xffffffff)]
        else:
            cells = [(addr, val & 0xffffffff), (addr + 4, val >> 32)]
        for a, v in cells:
            self.ovr[(as_, a)] = v
            out.append("ovr %d %d %d" % (as_, a, v))


# ------------------------------------------------------------------- specification
class Spec:
    """Independent statement of the conversion.  State is driven by the same
    protocol lines as harness and driver."""
    ROUTES = {
        "kv2phys": [[M_KV_PHYS, M_HW], [M_MACHPHYS_KPHYS, M_KPHYS_MACHPHYS]],
        "kphys2machphys": [[M_KPHYS_MACHPHYS]],
        "kphys2direct": [[M_KPHYS_DIRECT]],
        "kphys2any": [[M_KPHYS_MACHPHYS, M_KPHYS_DIRECT]],
        "machphys2direct": [[M_MACHPHYS_KPHYS], [M_KPHYS_DIRECT]],
    }
    PTESZ = {"pfn32": 4, "pfn64": 8, "x86_64": 8}

    def __init__(self):
        self.mem = Mem()
        self.newsys()
        self.rcaps = 0

    reent = ()

    def newsys(self):
        self.maps = [None] * 5
        self.meths = [("nometh",)] * 16
        self.nosys = False

    # ---- protocol
    def feed(self, line):
        """returns the expected observation (without the measured tail) for lines that
        produce one, "?" if the specification does not cover the case, else None"""
        w = line.split()
        k = w[0]
        if k == "mem":
            self.mem.par = tuple(int(x) for x in w[1:7])
        elif k == "ovr":
            self.mem.ovr[(int(w[1]), int(w[2]))] = int(w[3])
        elif k == "bad":
            self.mem.bad[(int(w[1]), int(w[2]))] = w[3]
        elif k == "null":
            self.mem.bad[(int(w[1]), int(w[2]))] = "nodata"
        elif k == "clr":
            self.mem.ovr.clear(); self.mem.bad.clear(); self.reent = ()
        elif k == "newctx":
            return "newctx lost=0"      # every buffer the callback delivered has been given back once the context is gone
        elif k == "reent":
            self.reent = () if w[1] == "off" else tuple(w[2].split(","))
        elif k == "rd":
            # the cache and the callback's own reads decide whether the read succeeds (model: Kdf.Model.RCache);
            # the specification only says what a successful read returns: the memory content
            st, v = self.mem.read(int(w[1]), int(w[2]), 8)
            return "rd-value %d" % v if st == "ok" else "?"
        elif k == "newsys":
            self.newsys()
        elif k == "rcaps":
            self.rcaps = int(w[1])
        elif k == "nosys":
            self.nosys = w[1] == "1"
        elif k == "meth":
            slot, kind = int(w[1]), w[2]
            if kind == "nometh":
                m = ("nometh",)
            elif kind == "custom":
                def arm(x):
                    x = x.split(":")
                    return (x[0], int(x[1]), int(x[2])) if x[0] in "fs" else (x[0], x[1])
                m = ("custom", int(w[3]), int(w[4]), arm(w[5]), arm(w[6]))
            elif kind == "linear":
                m = ("linear", int(w[3]), int(w[4]))
            elif kind == "pgt":
                m = ("pgt", w[3], int(w[4]), int(w[5]), int(w[6]), int(w[7]), [int(x) for x in w[8].split(",") if x])
            elif kind == "lookup":
                tbl = [tuple(int(y) for y in x.split(":")) for x in (w[5].split(",") if len(w) > 5 else []) if x]
                m = ("lookup", int(w[3]), int(w[4]), tbl)
            else:
                m = ("memarr", int(w[3]), int(w[4]), int(w[5]), int(w[6]), int(w[7]), int(w[8]))
            self.meths[slot] = m
        elif k == "map":
            idx = int(w[1])
            if w[2] == "none":
                self.maps[idx] = None
            else:
                self.maps[idx] = [tuple(int(y) for y in x.split(":")) for x in w[2].split(",") if x]
            return "map %d %s" % (idx, w[2])
        elif k in ("op", "conv") and self.reent:
            return "?"              # the get-page callback re-enters the library: outside this specification
        elif k == "op":
            caps, as_, addr, cbst = int(w[1]), int(w[2]), int(w[3]), w[4]
            r = self.op(caps, (as_, addr), ())
            if r is None:
                return "?"
            if r[0] == "call":
                return "op %s calls=1 %d %d" % (cbst, r[1], r[2])
            return "op %s calls=0" % r[1]
        elif k == "conv":
            tas, as_, addr = int(w[1]), int(w[2]), int(w[3])
            r = self.op((1 << tas) if tas in (0, 1, 2) else 0, (as_, addr), ())
            if r is None:
                return "?"
            if r[0] == "call":
                return "conv ok %d %d" % (r[1], r[2])
            return "conv %s %d %d" % (r[1], as_, addr)
        return None

    # ---- semantics
    @staticmethod
    def has(caps, as_):
        return as_ in (0, 1, 2) and (caps >> as_) & 1 == 1

    def search(self, m, addr):
        start = 0
        for endoff, meth in m:
            if addr <= (start + endoff) % W:
                return meth
            start = (start + endoff + 1) % W
        return -1

    def read(self, stack, as_, addr, size):
        """value of a `size`-byte object the library wants to read at (as_, addr)"""
        if self.has(self.rcaps, as_):
            return self.mem.read(as_, addr, size)
        r = self.op(self.rcaps, (as_, addr), stack)
        if r is None:
            return None
        if r[0] == "call":
            return self.mem.read(r[1], r[2], size)
        return r[1], 0

    def den(self, m, addr, stack):
        """denotation of one method: ("ok", as, addr) | ("err", status) | None (not specified here)"""
        k = m[0]
        if k == "nometh":
            return ("err", "nometh")
        if k == "linear":
            return ("ok", m[1], (addr + m[2]) % W)
        if k == "custom":
            # a custom method is its callback; where the callback completes the translation itself the result is in
            # the address space the callback chose, whatever target_as declares
            _, t, mask, hit, miss = m
            arm = hit if addr & mask else miss
            if arm[0] == "f":
                return ("ok", arm[1], (addr + arm[2]) % W)
            if arm[0] == "s":
                return ("ok", t, (arm[2] + addr) % W)
            return ("err", arm[1])
        if k == "lookup":
            _, t, endoff, tbl = m
            for orig, dest in tbl:
                if orig <= addr <= (orig + endoff) % W:
                    return ("ok", t, (dest + addr - orig) % W)
            return ("err", "notpresent")
        if k == "memarr":
            _, t, bas, baddr, shift, elemsz, valsz = m
            if valsz not in (4, 8):
                return ("err", "notimpl")
            r = self.read(stack, bas, (baddr + (addr >> shift) * elemsz) % W, valsz)
            if r is None:
                return None
            if r[0] != "ok":
                return ("err", r[0])
            return ("ok", t, (((r[1] << shift) % W) + (addr & ((1 << shift) - 1))) % W)
        _, fmt, t, ras, raddr, mask, fields = m
        if fmt not in self.PTESZ or (fmt == "x86_64" and fields != [12, 9, 9, 9, 9]) or any(f >= 64 for f in fields) or not fields:
            return None
        if ras == NOADDR:
            return ("err", "nodata")
        n = len(fields)
        idx, a = [], addr
        for f in fields:
            idx.append(a & ((1 << f) - 1)); a >>= f
        bits = sum(fields)
        if fmt == "x86_64":
            if a != ((FULL >> bits) if (addr >> (bits - 1)) & 1 else 0):
                return ("err", "invalid")
        elif a:
            return ("err", "invalid")
        sz = self.PTESZ[fmt]
        tas, taddr = ras, raddr
        for lvl in range(n - 1, 0, -1):
            r = self.read(stack, tas, (taddr + idx[lvl] * (sz if n > 1 else 1)) % W, sz)
            if r is None:
                return None
            if r[0] != "ok":
                return ("err", r[0])
            pte = r[1] & ~mask & FULL
            if fmt == "x86_64":
                if not pte & 1:
                    return ("err", "notpresent")
                pa = pte & 0x000ffffffffff000
                if pte & 0x80 and lvl in (2, 3):
                    span = 1 << sum(fields[:lvl])
                    return ("ok", t, (pa & ~(span - 1) & FULL) | (addr & (span - 1)))
                tas, taddr = t, pa
            else:
                if pte == 0:
                    return ("err", "notpresent")
                tas, taddr = t, (pte << fields[0]) % W
        return ("ok", t, (taddr + idx[0]) % W)

    def route(self, caps, as_):
        if as_ == KV:
            return "kv2phys"
        if as_ == KPHYS:
            if self.has(caps, MACHPHYS):
                return "kphys2any" if self.has(caps, KV) else "kphys2machphys"
            return "kphys2direct"
        if as_ == MACHPHYS:
            return "machphys2direct"
        return None

    def op(self, caps, src, stack):
        as_, addr = src
        if self.has(caps, as_):
            return ("call", as_, addr)
        if caps & 7 == 0 or self.nosys:
            return ("fail", "nometh")
        name = self.route(caps, as_)
        if name is None:
            return ("fail", "notimpl")
        if len(stack) >= MAXD:
            return ("fail", "notimpl")
        if (as_, addr, name) in stack:
            return ("fail", "nometh")
        stack = stack + ((as_, addr, name),)
        cur = src
        for stage in self.ROUTES[name]:
            for mi in stage:
                if cur[0] != EXPECT[mi] or self.maps[mi] is None:
                    continue
                k = self.search(self.maps[mi], cur[1])
                if k == -1:
                    continue
                r = self.den(self.meths[k], cur[1], stack)
                if r is None:
                    return None
                if r[0] == "ok":
                    if self.has(caps, r[1]):
                        return ("call", r[1], r[2])
                    cur = (r[1], r[2])
                    break
                if r[1] not in SOFT:
                    return ("fail", r[1])
        return ("fail", "nometh")


# ---------------------------------------------------------------------- generators
PAGES = [0x1000 * k for k in range(1, 13)]
POINTS = [0, 0xfff, 0x1000, 0x1fff, 0x2000, 0x8000, 0xffff, 0x10000, 0x3fffffff, 0x40000000, (1 << 32) - 1, 1 << 32,
          (1 << 47) - 1, 1 << 47, 0xffff800000000000 - 1, 0xffff800000000000, 0xffff880000000000, 0xffffffff80000000, W - 0x1000, W - 1]
PGT_FORMS = [("pfn64", [12, 9, 9]), ("pfn64", [12, 10]), ("pfn64", [12, 9, 9, 9]), ("pfn32", [12, 10, 10]), ("pfn32", [12, 10]),
             ("x86_64", [12, 9, 9, 9, 9]), ("x86_64", [12, 9, 9, 9, 9]), ("ia32", [12, 10, 10]), ("ia32_pae", [12, 9, 9, 2]),
             ("riscv64", [12, 9, 9, 9]), ("pfn64", [12]), ("none", [12])]


def meth_line(slot, m):
    k = m[0]
    if k == "nometh":
        return "meth %d nometh" % slot
    if k == "linear":
        return "meth %d linear %d %d" % (slot, m[1], m[2])
    if k == "custom":
        return "meth %d custom %d %d %s %s" % (slot, m[1], m[2], ":".join(map(str, m[3])), ":".join(map(str, m[4])))
    if k == "pgt":
        return "meth %d pgt %s %d %d %d %d %s" % (slot, m[1], m[2], m[3], m[4], m[5], ",".join(map(str, m[6])))
    if k == "lookup":
        return ("meth %d lookup %d %d %s" % (slot, m[1], m[2], ",".join("%d:%d" % e for e in m[3]))).rstrip()
    return "meth %d memarr %d %d %d %d %d %d" % ((slot,) + tuple(m[1:]))


def tiling(cuts, meths):
    """canonical tiling of [0, 2^64) from sorted cut points (range starts) and methods"""
    starts = [0] + [c for c in sorted(set(cuts)) if 0 < c < W]
    rs = []
    for i, s in enumerate(starts):
        e = (starts[i + 1] if i + 1 < len(starts) else W) - 1
        m = meths[i % len(meths)]
        if rs and rs[-1][1] == m:
            rs[-1] = (rs[-1][0] + (e - s + 1), m)
        else:
            rs.append((e - s, m))
    return rs


def map_line(idx, rs):
    return "map %d %s" % (idx, "none" if rs is None else ",".join("%d:%d" % r for r in rs))


def rand_as(rng, noaddr=0.03):
    return NOADDR if rng.random() < noaddr else rng.choice((0, 1, 2))


def rand_arm(rng, t):
    k = rng.random()
    off = rng.choice([0, 0x1000, 0x800000, 0x40000, W - 0x1000, W - 0xffff880000000000, rng.getrandbits(20) << 12])
    if k < 0.55:
        # finishes in its first step; mostly in a space other than the declared one
        return ("f", rng.choice([a for a in (0, 1, 2, NOADDR) if a != t] * 2 + [t]), off)
    if k < 0.8:
        return ("s", rand_as(rng), off)
    return ("e", rng.choice(["nometh", "nodata", "notpresent", "invalid", "notimpl", "nomem"]))


def rand_custom(rng):
    t = rand_as(rng, 0.02)
    return ("custom", t, rng.choice([0x1000, 0x2000, 1 << 63, 0xfff, 8, 0, FULL]), rand_arm(rng, t), rand_arm(rng, t))


def rand_meth(rng):
    k = rng.random()
    if k < 0.28:
        off = rng.choice([0, 0x1000, 0x3000, 0x100000, W - 0x1000, W - 0xffff880000000000, W - 0xffffffff80000000,
                          0xffff880000000000, rng.getrandbits(64), rng.getrandbits(20) << 12])
        return ("linear", rand_as(rng), off)
    if k < 0.60:
        fmt, fields = rng.choice(PGT_FORMS)
        mask = 0 if rng.random() < 0.8 else rng.choice([0xfff0000000000000, 0x8000000000000000, 0xff])
        return ("pgt", fmt, rand_as(rng, 0.02), rand_as(rng), rng.choice(PAGES), mask, list(fields))
    if k < 0.80:
        valsz = rng.choice([8, 8, 4, 4, 2])
        elemsz = rng.choice([valsz, valsz, 8, 16, 3, 1]) if valsz != 2 else 8
        return ("memarr", rand_as(rng, 0.02), rand_as(rng), rng.choice(PAGES) + 8 * rng.randrange(4),
                rng.choice([0, 12, 12, 16, 21, 30]), elemsz, valsz)
    if k < 0.86:
        return rand_custom(rng)
    if k < 0.94:
        endoff = rng.choice([0xfff, 0xfff, 0xffff, 0])
        tbl = [(rng.choice(PAGES + POINTS[:8]), rng.choice(PAGES) + rng.choice([0, 0, 0x100000])) for _ in range(rng.randint(0, 4))]
        return ("lookup", rand_as(rng, 0.02), endoff, tbl)
    return ("nometh",)


def vaddr_for(rng, m):
    """an address the method accepts"""
    if m[0] == "pgt":
        fmt, fields = m[1], m[6]
        bits = min(sum(fields), 64)
        v = rng.getrandbits(bits) if rng.random() < 0.5 else (rng.choice(PAGES) + 8 * rng.randrange(512)) & ((1 << bits) - 1)
        if fmt in ("x86_64", "riscv64") and bits < 64 and (v >> (bits - 1)) & 1:
            v |= FULL >> bits << bits
        return v
    if m[0] == "memarr":
        return (rng.randrange(64) << m[4]) | (rng.getrandbits(m[4]) if m[4] else 0)
    if m[0] == "lookup" and m[3]:
        return (rng.choice(m[3])[0] + rng.randrange(m[2] + 1)) % W
    return rng.choice(PAGES) + 8 * rng.randrange(512)


def build_path(S, rng, m, va, out):
    """write the page-table / array entries that make method m translate va (as far as the
    data is reachable).  Entries go where the library will look for them."""
    def locate(as_, addr):
        if Spec.has(S.rcaps, as_):
            return as_, addr
        r = S.op(S.rcaps, (as_, addr), ())
        return (r[1], r[2]) if r and r[0] == "call" else None
    if m[0] == "memarr":
        _, t, bas, baddr, shift, elemsz, valsz = m
        if valsz not in (4, 8) or bas == NOADDR:
            return
        loc = locate(bas, (baddr + (va >> shift) * elemsz) % W)
        if loc and loc[1] % valsz == 0:
            dest = rng.choice(PAGES + [0x100000, 0x7f000000]) >> shift
            S.mem.write(loc[0], loc[1], valsz, dest & ((1 << (8 * valsz)) - 1), out)
        return
    if m[0] != "pgt" or m[1] not in ("pfn32", "pfn64", "x86_64") or m[3] == NOADDR:
        return
    _, fmt, t, ras, raddr, mask, fields = m
    sz = Spec.PTESZ[fmt]
    idx, a = [], va
    for f in fields:
        idx.append(a & ((1 << f) - 1)); a >>= f
    tas, taddr = ras, raddr
    for lvl in range(len(fields) - 1, 0, -1):
        loc = locate(tas, (taddr + idx[lvl] * sz) % W)
        if not loc or loc[1] % sz:
            return
        st, val = S.mem.read(loc[0], loc[1], sz)
        if st != "ok":
            return
        pte = val & ~mask & FULL
        present = (pte & 1) if fmt == "x86_64" else (pte != 0)
        if not present or rng.random() < 0.15:
            nxt = rng.choice(PAGES) if lvl > 1 or rng.random() < 0.6 else rng.choice([0x100000, 0x7f000000, 0x200000])
            if fmt == "x86_64":
                pte = nxt | 0x63 | (0x80 if lvl in (2, 3) and rng.random() < 0.1 else 0)
            else:
                pte = nxt >> fields[0]
                if pte == 0:
                    pte = 1
            if sz == 4:
                pte &= 0xffffffff
            S.mem.write(loc[0], loc[1], sz, pte, out)
        if fmt == "x86_64":
            if pte & 0x80 and lvl in (2, 3):
                return
            tas, taddr = t, pte & 0x000ffffffffff000
        else:
            tas, taddr = t, (pte << fields[0]) % W


def op_lines(rng, S, addrs, n, caps_pool=None):
    out = []
    for _ in range(n):
        as_, addr = rng.choice(addrs)
        if rng.random() < 0.02:
            as_ = NOADDR
        caps = rng.choice(caps_pool) if caps_pool else rng.choice([1, 2, 4, 3, 5, 6, 7, 1, 2, 4, 0, 8, 9])
        if rng.random() < 0.25:
            tas = rng.choice([0, 1, 2, 0, 1, 2, NOADDR])
            out.append("conv %d %d %d" % (tas, as_, addr))
        else:
            out.append("op %d %d %d %s" % (caps, as_, addr, "ok" if rng.random() < 0.9 else rng.choice(["nodata", "invalid", "nometh"])))
    return out


def mem_line(rng, zero=0.7):
    if rng.random() < zero:
        return "mem %d 0 0 0 0 %d" % (rng.getrandbits(32), rng.random() < 0.2)
    # sparse random background: mostly small values that look like present PTEs / frame numbers
    return "mem %d %d %d %d 0 %d" % (rng.getrandbits(32), rng.choice([0xf000, 0x7000, 0xffffffff]), rng.choice([0, 0x63, 1]),
                                      rng.choice([0, 0, 0xf]), rng.random() < 0.2)


def block_soup(rng, nops):
    S = Spec()
    L = ["clr", "newsys", mem_line(rng)]
    for ln in L:
        S.feed(ln)
    ln = "rcaps %d" % rng.choice([1, 2, 3, 4, 1, 2, 3, 5, 6, 7, 0])
    L.append(ln); S.feed(ln)
    live = list(range(rng.randint(3, 8)))
    if rng.random() < 0.2:
        live.append(15)
    for s in live:
        ln = meth_line(s, rand_meth(rng)); L.append(ln); S.feed(ln)
    addrs = []
    for mi in range(5):
        if rng.random() < 0.2:
            continue
        cuts = [rng.choice(POINTS + PAGES) + rng.choice([0, 0, 1]) for _ in range(rng.randint(0, 4))]
        ms = [rng.choice(live + [-1]) for _ in range(6)]
        rs = tiling(cuts, ms)
        ln = map_line(mi, rs); L.append(ln); S.feed(ln)
        start = 0
        for e, _ in rs:
            for a in (start, start + e, start + e + 1, start - 1, start + 8, start + e - 7):
                if 0 <= a < W:
                    addrs.append((EXPECT[mi], a))
            start += e + 1
    # make some of the table-driven methods succeed
    ents = [(mi, k) for mi in range(5) if S.maps[mi] for _, k in S.maps[mi] if k >= 0 and S.meths[k][0] in ("pgt", "memarr", "lookup")]
    for _ in range(rng.randint(0, 8)):
        if not ents:
            break
        mi, k = rng.choice(ents)
        va = vaddr_for(rng, S.meths[k])
        build_path(S, rng, S.meths[k], va, L)
        addrs.append((EXPECT[mi], va))
        if rng.random() < 0.3:
            addrs.append((EXPECT[mi], va ^ 8))
    for _ in range(rng.randint(0, 2)):
        kind = rng.choice(["bad", "bad", "null"])
        pg, as_ = rng.choice(PAGES), rng.choice((0, 1, 2))
        ln = "null %d %d" % (as_, pg) if kind == "null" else "bad %d %d %s" % (as_, pg, rng.choice(["nodata", "nodata", "notpresent", "nomem", "invalid", "nometh"]))
        L.append(ln); S.feed(ln)
    for a in rng.sample(POINTS, 4) + rng.sample(PAGES, 3):
        addrs.append((rng.choice((0, 1, 2)), a))
    addrs.append((rng.choice((0, 1, 2)), rng.getrandbits(64)))
    if rng.random() < 0.1:
        L.append("nosys 1")
    return L + op_lines(rng, S, addrs, nops)


def block_twostage(rng, nops):
    """KV -> KPHYS -> MACHPHYS with the tables of both stages at the same numeric pages of
    different address spaces, different content."""
    S = Spec(); L = []
    def f(ln):
        L.append(ln); S.feed(ln)
    f("clr"); f("newsys"); f("mem %d 0 0 0 0 %d" % (rng.getrandbits(32), rng.random() < 0.2))
    f("rcaps %d" % rng.choice([3, 3, 3, 7, 1, 2]))
    pg = rng.choice(PAGES)
    fmt1, fl1 = rng.choice([("pfn64", [12, 9, 9]), ("x86_64", [12, 9, 9, 9, 9]), ("pfn64", [12, 10])])
    m1 = ("pgt", fmt1, KPHYS, rng.choice([KPHYS, KPHYS, MACHPHYS]), pg, 0, fl1)
    k2 = rng.choice(["pgt", "pgt", "memarr", "linear", "lookup"])
    if k2 == "pgt":
        m2 = ("pgt", "pfn64", MACHPHYS, MACHPHYS, pg, 0, rng.choice([[12, 9, 9], [12, 10], [12, 9, 9, 9]]))
    elif k2 == "memarr":
        m2 = ("memarr", MACHPHYS, MACHPHYS, pg, 12, 8, 8)
    elif k2 == "linear":
        m2 = ("linear", MACHPHYS, rng.choice([0x100000, 0x1000, W - 0x1000]))
    else:
        m2 = ("lookup", MACHPHYS, 0xfff, [(p, p + 0x100000) for p in rng.sample(PAGES, 4)])
    m3 = ("linear", KPHYS, rng.choice([0, 0x2000]))          # machphys -> kphys
    m4 = ("linear", KV, 0xffff880000000000)                  # directmap
    for s, m in enumerate((m1, m2, m3, m4)):
        f(meth_line(s, m))
    f(map_line(rng.choice([M_KV_PHYS, M_HW]), [(FULL, 0)]))
    f(map_line(M_KPHYS_MACHPHYS, tiling([0x100000000], [1, -1])))
    if rng.random() < 0.7:
        f(map_line(M_MACHPHYS_KPHYS, [(FULL, 2)]))
    if rng.random() < 0.5:
        f(map_line(M_KPHYS_DIRECT, [(FULL, 3)]))
    addrs = []
    for _ in range(6):
        va = vaddr_for(rng, m1)
        for _ in range(2):
            build_path(S, rng, m1, va, L)
            r = S.den(m1, va, ())
            if r and r[0] == "ok":
                build_path(S, rng, m2, r[2], L)
        addrs.append((KV, va))
        r = S.den(m1, va, ())
        if r and r[0] == "ok":
            addrs.append((KPHYS, r[2]))
    addrs.append((MACHPHYS, rng.choice(PAGES)))
    return L + op_lines(rng, S, addrs, nops, caps_pool=[2, 2, 2, 1, 3, 4, 6, 5])


def block_mutual(rng, nops):
    """two table-driven methods whose tables are reachable only through each other,
    on two different chains; plus self-referential variants"""
    S = Spec(); L = []
    def f(ln):
        L.append(ln); S.feed(ln)
    f("clr"); f("newsys"); f(mem_line(rng, 0.5))
    shape = rng.choice(["mutual", "mutual", "self-memarr", "self-pgt", "three", "selfdesc"])
    def tab(t, bas, pg):
        if rng.random() < 0.5:
            return ("memarr", t, bas, pg, rng.choice([12, 16, 0]), rng.choice([8, 8, 3, 1, 5]), 8)
        return ("pgt", rng.choice(["pfn64", "x86_64"]), t, bas, pg, 0, rng.choice([[12, 9, 9], [12, 9, 9, 9, 9]]))
    if shape == "mutual":
        f("rcaps 2")
        a, b = tab(KPHYS, KPHYS, rng.choice(PAGES)), tab(MACHPHYS, KV, rng.choice(PAGES))
        if a[0] == "pgt" and a[1] == "x86_64": a = a[:6] + ([12, 9, 9, 9, 9],)
        if b[0] == "pgt" and b[1] == "x86_64": b = b[:6] + ([12, 9, 9, 9, 9],)
        f(meth_line(0, a)); f(meth_line(1, b))
        f(map_line(rng.choice([M_KV_PHYS, M_HW]), [(FULL, 0)])); f(map_line(M_KPHYS_MACHPHYS, [(FULL, 1)]))
        if rng.random() < 0.5:
            f(meth_line(2, ("linear", MACHPHYS, 0x1000))); f(map_line(M_HW if S.maps[M_HW] is None else M_KV_PHYS, [(FULL, 2)]))
    elif shape == "self-memarr":
        f("rcaps %d" % rng.choice([1, 2, 3]))
        f(meth_line(0, ("memarr", KPHYS, KV, rng.choice(PAGES), rng.choice([0, 0, 3, 12]), rng.choice([3, 1, 5, 7, 8, 9]), 8)))
        f(map_line(M_KV_PHYS, [(FULL, 0)]))
        if rng.random() < 0.5:
            f(map_line(M_HW, [(FULL, 0)]))
    elif shape == "selfdesc":
        # a frame table that lives in the memory it describes, readable only through another address space: converting the address
        # of the element that describes the table's own page reads that element, which needs a nested translation of the SAME
        # address through ANOTHER chain (not a loop)
        k = rng.randint(1, 60)
        base = k << 12
        f("rcaps 4")
        f(meth_line(0, ("memarr", MACHPHYS, KPHYS, base, 12, 8, 8)))
        f(meth_line(1, ("linear", KV, rng.choice([0x80000000, 0xffff880000000000, 0x1000]))))
        f(map_line(M_KPHYS_MACHPHYS, [(FULL, 0)])); f(map_line(M_KPHYS_DIRECT, [(FULL, 1)]))
        addrs = [(KPHYS, base + 8 * k), (KPHYS, base + 8 * k + 8), (KPHYS, base), (KPHYS, base + 8 * rng.randrange(512))]
        return L + op_lines(rng, S, addrs, nops, caps_pool=[6, 2, 4, 6, 7])
    elif shape == "self-pgt":
        f("rcaps %d" % rng.choice([1, 2, 3]))
        fmt, fl = rng.choice([("pfn64", [12, 9, 9]), ("x86_64", [12, 9, 9, 9, 9])])
        f(meth_line(0, ("pgt", fmt, KPHYS, KV, rng.choice(PAGES) | (0xffff880000000000 if fmt == "x86_64" and rng.random() < 0.5 else 0), 0, fl)))
        f(meth_line(1, ("linear", KPHYS, W - 0xffff880000000000)))
        f(map_line(M_KV_PHYS, tiling([0xffff880000000000, 0xffffc80000000000], [0, rng.choice([0, 1]), 0])))
    else:
        f("rcaps %d" % rng.choice([1, 2, 4]))
        f(meth_line(0, tab(KPHYS, MACHPHYS, rng.choice(PAGES))))
        f(meth_line(1, tab(MACHPHYS, KV, rng.choice(PAGES))))
        f(meth_line(2, tab(KPHYS, KV, rng.choice(PAGES))))
        f(map_line(M_KV_PHYS, [(FULL, 0)])); f(map_line(M_KPHYS_MACHPHYS, [(FULL, 1)])); f(map_line(M_MACHPHYS_KPHYS, [(FULL, 2)]))
        if rng.random() < 0.5:
            f(map_line(M_KPHYS_DIRECT, [(FULL, 1)]))
    addrs = [(as_, rng.choice(PAGES) + 8 * rng.randrange(8)) for as_ in (0, 1, 2) for _ in range(2)]
    addrs += [(KV, 0xffff880000001000), (KV, 0), (KPHYS, 0)]
    return L + op_lines(rng, S, addrs, nops, caps_pool=[1, 2, 4, 3, 6, 5, 7])


def block_custom(rng, nops):
    """ADDRXLAT_CUSTOM methods whose callback finishes in its first step in an address space of its own choice
    (different from target_as), leaves a linear level to the library, or fails; linear second stages behind them"""
    S = Spec(); L = []
    def f(ln):
        L.append(ln); S.feed(ln)
    f("clr"); f("newsys"); f(mem_line(rng, 0.8)); f("rcaps %d" % rng.choice([1, 2, 3, 7]))
    where = rng.choice([M_KV_PHYS, M_KV_PHYS, M_HW, M_KPHYS_MACHPHYS, M_MACHPHYS_KPHYS, M_KPHYS_DIRECT])
    src = EXPECT[where]
    t = rng.choice([a for a in (0, 1, 2) if a != src])
    other = [a for a in (0, 1, 2) if a not in (src, t)][0]
    mask = rng.choice([0x1000, 0x2000, 0x8000, 8])
    shape = rng.random()
    if shape < 0.6:
        # the demonstration's shape: one class of addresses comes out in the declared space, the other one elsewhere
        hit, miss = ("f", other, rng.choice([0x800000, 0, 0x1000])), rng.choice([("f", t, 0x40000), ("s", rng.choice((0, 1, 2)), 0x40000)])
        if rng.random() < 0.5:
            hit, miss = miss, hit
    else:
        hit, miss = rand_arm(rng, t), rand_arm(rng, t)
    f(meth_line(0, ("custom", t, mask, hit, miss)))
    f(map_line(where, tiling([rng.choice([0x4000, 0x10000, 1 << 32])], rng.choice([[0, -1], [0], [-1, 0], [0, 5]]))))
    # the other stages: linear, sometimes missing, sometimes a second custom method
    for slot, (mi, tas) in enumerate(((M_MACHPHYS_KPHYS, KPHYS), (M_KPHYS_MACHPHYS, MACHPHYS), (M_KPHYS_DIRECT, KV), (M_KV_PHYS, KPHYS)), 1):
        if mi == where or rng.random() < 0.25:
            continue
        m = ("linear", tas, rng.choice([0x300000, W - 0x500000, 0, 0x1000])) if rng.random() < 0.8 else rand_custom(rng)
        f(meth_line(slot, m)); f(map_line(mi, [(FULL, slot)]))
    if rng.random() < 0.3:
        f(meth_line(5, rand_meth(rng)))
    addrs = []
    for _ in range(8):
        a = rng.choice(PAGES) + 8 * rng.randrange(512)
        addrs += [(src, a), (src, a ^ mask)]
    addrs += [(as_, rng.choice(PAGES)) for as_ in (0, 1, 2)] + [(src, 0x4000), (src, 0x3fff), (src, 1 << 32)]
    return L + op_lines(rng, S, addrs, nops)


def block_reent(rng, nops):
    """a get-page callback that reads through the same context before it delivers a page (frame table in the memory it
    describes): self-hosted entries, chains, mutual dependencies, chains longer than any nesting limit; cold and warm
    read cache (0..6 earlier reads); direct reads (`rd`, modelled by Kdf.Model.RCache) and whole conversions"""
    S = Spec(); L = []
    def f(ln):
        L.append(ln); S.feed(ln)
    f("clr"); f("newsys"); f(mem_line(rng, 0.6))
    ras = rng.choice((0, 0, 1, 2))
    f("rcaps %d" % rng.choice([1 << ras, 1 << ras, 7, 3 | (1 << ras), 7 & ~(1 << ras)]))
    base = 16 + rng.randrange(8)                    # frame-table pages start here; pages 1..12 (PAGES) are ordinary
    shape = rng.choice(["self", "self", "self", "chain", "mutual", "deep", "mixed"])
    tbl = {}
    off = lambda: 8 * rng.randrange(512)
    if shape in ("self", "mixed"):
        tbl[base] = base * 0x1000 + off()
        if rng.random() < 0.5:
            tbl[base + 1] = base * 0x1000 + off()   # needs the self-hosted page
    if shape in ("chain", "mixed"):
        n = rng.randint(2, 4)
        for i in range(n):
            tbl[base + 2 + i] = (base + 3 + i) * 0x1000 + off() if i + 1 < n else rng.choice(PAGES) + off()
    if shape == "mutual":
        tbl[base] = (base + 1) * 0x1000 + off(); tbl[base + 1] = base * 0x1000 + off()
        if rng.random() < 0.5:
            tbl[base + 2] = base * 0x1000 + off()
    if shape == "deep":
        n = rng.choice([15, 16, 17, 20])
        for i in range(n):
            tbl[base + i] = (base + i + 1) * 0x1000 + off()
    if rng.random() < 0.3:
        tbl[rng.choice(PAGES) >> 12] = rng.choice(PAGES) + off()       # an ordinary page that depends on another one
    for _ in range(rng.randint(0, 2)):                                  # unreadable / empty pages (before the cache is warmed)
        pg = rng.choice(list(tbl)) * 0x1000 if rng.random() < 0.5 else rng.choice(PAGES)
        f("null %d %d" % (ras, pg) if rng.random() < 0.4 else "bad %d %d %s" % (ras, pg, rng.choice(["nodata", "notpresent", "nomem"])))
    f("reent %d %s" % (ras, ",".join("%d:%d" % kv for kv in sorted(tbl.items()))))
    # a system whose KPHYS -> MACHPHYS stage looks frames up in that table
    f(meth_line(0, ("memarr", MACHPHYS, ras, base * 0x1000, 12, 8, 8)))
    f(map_line(M_KPHYS_MACHPHYS, [(FULL, 0)]))
    via_sys = rng.random() < 0.25
    if via_sys:
        # the frame table is not directly readable: the callback's read goes through addrxlat_op (translation system) and
        # only then through the cache; not modelled (monitors: the call returns, both nesting bounds hold)
        f("reentsys 1")
        dst = rng.choice([a for a in (0, 1, 2) if a != ras])
        f("rcaps %d" % (1 << dst))
        hop = {(2, 0): [M_KV_PHYS], (2, 1): [M_KV_PHYS, M_KPHYS_MACHPHYS], (0, 1): [M_KPHYS_MACHPHYS], (0, 2): [M_KPHYS_DIRECT],
               (1, 0): [M_MACHPHYS_KPHYS], (1, 2): [M_MACHPHYS_KPHYS, M_KPHYS_DIRECT]}[(ras, dst)]
        tgt = {M_KV_PHYS: KPHYS, M_KPHYS_MACHPHYS: MACHPHYS, M_KPHYS_DIRECT: KV, M_MACHPHYS_KPHYS: KPHYS}
        for slot, mi in enumerate(hop, 3):
            f(meth_line(slot, ("linear", tgt[mi], rng.choice([0, 0, 0x1000, W - 0x1000]))))
            f(map_line(mi, [(FULL, slot)]))
        ras_rd = dst
    else:
        ras_rd = ras
    f("newctx")
    pool = [p * 0x1000 + off() for p in tbl] + [a for a in tbl.values()] + [rng.choice(PAGES) + off() for _ in range(3)]
    warm = rng.choice([0, 0, 1, 2, 3, 4, 4, 5, 6])
    for pg in rng.sample(PAGES, warm):
        f("rd %d %d" % (ras_rd, pg + off()))
    for _ in range(nops):
        k = rng.random()
        if k < 0.7:
            f("rd %d %d" % (ras_rd if rng.random() < 0.9 else rng.choice((0, 1, 2)), rng.choice(pool)))
        elif k < 0.78:
            f("newctx")
        else:
            # whole conversions under the re-entrant callback (not modelled: monitors only), then a fresh context
            a = rng.choice(pool)
            f(rng.choice(["conv 1 0 %d" % a, "op 2 0 %d ok" % a, "conv %d %d %d" % (rng.choice((0, 1, 2)), ras, a)]))
            f("newctx")
    if L[-1] != "newctx":
        f("newctx")                 # the context goes away: what it still held is given back, the ledger is reported
    return L


def gen(R, nb):
    quick = R.tier == "quick"
    blocks = []
    for i in range(nb):
        k = i % 12
        if k < 6:
            blocks.append(("soup", block_soup(R.rng, 22 if quick else 26)))
        elif k < 8:
            blocks.append(("twostage", block_twostage(R.rng, 16)))
        elif k < 10:
            blocks.append(("mutual", block_mutual(R.rng, 12)))
        elif k < 11:
            blocks.append(("custom", block_custom(R.rng, 14)))
        else:
            blocks.append(("reent", block_reent(R.rng, 12)))
    return blocks


# ------------------------------------------------------------------- property check
NEST_BOUND = [GP_RUNAWAY]       # bound on nested get-page callbacks of the working tree (set by sys_harness)


def sys_harness(R):
    """build harness/s_sys.c against the working tree; the nesting bound is what the tree's private header promises:
    READ_CACHE_SLOTS when slots carry the `filling` mark, MAX_READ_NESTING if there is such a counter, else none"""
    priv = open(os.path.join(kdf.REPO, "src/addrxlat/addrxlat-priv.h")).read()
    m = re.search(r"struct read_cache_slot\s*\{(.*?)\n\};", priv, re.S)
    mark = bool(m and re.search(r"\bfilling\s*;", m.group(1)))
    n = re.search(r"#define\s+READ_CACHE_SLOTS\s+(\d+)", priv)
    k = re.search(r"#define\s+MAX_READ_NESTING\s+(\d+)", priv)
    NEST_BOUND[0] = int(n.group(1)) if (mark and n) else int(k.group(1)) if k else GP_RUNAWAY
    lib, cflags = R.build_lib()
    return R.build_harness("s_sys", ["s_sys.c"], lib=lib, cflags=cflags + (["-DKDF_SLOT_FILLING"] if mark else []))


def split_obs(o):
    head, _, tail = o.partition(" | ")
    meas = dict(kv.split("=") for kv in tail.split()) if tail else {}
    return head, {k: int(v) for k, v in meas.items()}


def check_line(line, impl_obs, expect):
    """The property's executable statement on one observation of the implementation.
    Returns an error message or None."""
    w = line.split()
    if impl_obs.startswith("RUNAWAY"):
        return "the call never came back: %s (unbounded recursion)" % impl_obs
    if w[0] == "newctx":
        return None     # the give-back ledger is C15's to decide (tools/props/c15.py runs these blocks); here it is tied to the model
    if w[0] == "rd":
        t = impl_obs.split()
        kv = dict(x.split("=") for x in t if "=" in x)
        if t[0] != "rd" or "nest" not in kv:
            return "malformed observation %r" % impl_obs
        if int(kv["nest"]) > NEST_BOUND[0]:
            return "get-page callbacks nested %s deep (bound %d)" % (kv["nest"], NEST_BOUND[0])
        if t[1] == "ok" and expect and expect.startswith("rd-value") and int(t[2]) != int(expect.split()[1]):
            return "a successful read returned %s, the memory holds %s there" % (t[2], expect.split()[1])
        return None
    head, meas = split_obs(impl_obs)
    t = head.split()
    if w[0] == "map":
        return None if head == expect else "map set up as %r, expected %r" % (head, expect)
    if meas.get("nest", 0) > NEST_BOUND[0]:
        return "get-page callbacks nested %d deep (bound %d)" % (meas["nest"], NEST_BOUND[0])
    if meas.get("depth", 0) > MAXD:
        return "translations nested %d deep (bound %d)" % (meas["depth"], MAXD)
    if meas.get("left", 0) != 0:
        return "in-flight list not restored after the call (%d entries left)" % meas["left"]
    if w[0] == "op":
        caps, as_, addr, cbst = int(w[1]), int(w[2]), int(w[3]), w[4]
        if t[0] != "op" or len(t) < 3:
            return "malformed observation %r" % head
        st, calls = t[1], int(t[2].split("=")[1])
        if calls > 1:
            return "the caller's operation was invoked %d times" % calls
        if calls == 1:
            cas, caddr = int(t[3]), int(t[4])
            if st != cbst:
                return "operation invoked but its status %s was not returned (got %s)" % (cbst, st)
            if not Spec.has(caps, cas):
                return "operation invoked with address space %d which is not in caps %#x" % (cas, caps)
            if Spec.has(caps, as_) and (cas, caddr) != (as_, addr):
                return "address already in a usable space was changed: %d:%#x -> %d:%#x" % (as_, addr, cas, caddr)
        else:
            if st == "ok":
                return "status OK although the caller's operation was never invoked"
            if Spec.has(caps, as_):
                return "address already in a usable space was not passed through (status %s)" % st
    elif w[0] == "conv":
        tas, as_, addr = int(w[1]), int(w[2]), int(w[3])
        st, ras, raddr = t[1], int(t[2]), int(t[3])
        if st == "ok" and ras != tas:
            return "conversion to address space %d succeeded with a result in space %d" % (tas, ras)
        if st == "ok" and as_ == tas and (ras, raddr) != (as_, addr):
            return "address already in the target space was changed"
        if st != "ok" and (ras, raddr) != (as_, addr):
            return "failed conversion modified the address: %d:%#x -> %d:%#x" % (as_, addr, ras, raddr)
    if expect not in (None, "?") and head != expect:
        # The property fixes the outcome of a SUCCESSFUL translation (target space and address = the composition)
        # and says a failing one "fails with a status": which failure status is returned is not part of it
        # (the exact status is still compared with the model by the correspondence stream).
        et = expect.split()
        if len(t) > 1 and len(et) > 1 and t[0] == et[0] and t[1] != "ok" and et[1] != "ok" and \
                (w[0] != "op" or (t[2] == "calls=0" and et[2] == "calls=0")):
            return None
        return "result %r is not the composition of the selected methods: expected %r" % (head, expect)
    return None


PRODUCES = ("map", "op", "conv", "rd", "newctx")


def evaluate(R, exe, lines, timeout=600):
    """run implementation, model and specification on a script.
    Returns (impl_obs, model_obs, expects, obs_line_index, keep_mask, rc, stderr)"""
    text = "\n".join(lines) + "\n"
    model_all = kdf.obs(R.run_driver("sys", text))
    produces = [i for i, l in enumerate(lines) if l.split()[0] in PRODUCES]
    if len(model_all) != len(produces):
        raise kdf.CheckBroken("driver produced %d observations for %d operations" % (len(model_all), len(produces)))
    drop = {produces[j] for j, o in enumerate(model_all) if "unaligned" in o}
    kept_pos = [i for i in range(len(lines)) if i not in drop]
    kept = [lines[i] for i in kept_pos]
    model = [o for j, o in enumerate(model_all) if produces[j] not in drop]
    rc, out, err = R.run_harness(exe, stdin_text="\n".join(kept) + "\n", timeout=timeout)
    impl = kdf.obs(out)
    S = Spec()
    expects = []
    idx = []
    for i, l in enumerate(kept):
        e = S.feed(l)
        if l.split()[0] in PRODUCES:
            expects.append(e); idx.append(i)
    return kept, impl, model, expects, idx, rc, err, kept_pos


def first_failure(kept, impl, model, expects, idx, rc, err):
    """(position in obs list, message, is_property_failure)"""
    for j in range(min(len(impl), len(idx))):
        msg = check_line(kept[idx[j]], impl[j], expects[j])
        if msg:
            return j, msg, True
    if len(impl) < len(idx):
        j = len(impl)
        first = (err.strip().split("\n") or [""])
        why = next((l for l in first if "ERROR" in l or "runtime error" in l or "TIMEOUT" in l), first[0] if first else "")
        return j, "no result for `%s`: the call did not return (rc=%s) %s" % (kept[idx[j]], rc, why.strip()[:200]), True
    for j in range(len(idx)):
        if model[j].endswith(" ?"):
            continue                # outside the model (conversion under a re-entrant get-page callback)
        if split_obs(impl[j])[0] != model[j]:
            return j, "model mismatch on `%s`: implementation %r, model %r" % (kept[idx[j]], impl[j], model[j]), False
    return None


SETUP = ("meth", "map", "ovr", "bad", "null", "rd", "newctx")


def shrink(R, exe, block, fail_line, pos=None):
    """smallest script (setup lines of the block + the one failing operation) that still fails.
    A direct read (`rd`) depends on the reads before it (state of the read cache): only what precedes it is kept."""
    if fail_line.split()[0] in ("rd", "newctx") and pos is not None:
        setup = [l for l in block[:pos] if l.split()[0] not in ("op", "conv")]
    else:
        setup = [l for l in block if l.split()[0] not in ("op", "conv", "rd", "newctx")]
    cur = setup + [fail_line]
    def fails(ls):
        try:
            k, impl, model, exp, idx, rc, err, _ = evaluate(R, exe, ls, timeout=60)
        except Exception:
            return None
        ff = first_failure(k, impl, model, exp, idx, rc, err)
        return ff if ff and k[idx[ff[0]]] == fail_line else None
    if not fails(cur):
        return block[:block.index(fail_line) + 1] if fail_line in block else block
    budget = 160
    changed = True
    while changed and budget > 0:
        changed = False
        for i in range(len(cur) - 2, -1, -1):
            if cur[i].split()[0] not in SETUP:
                continue
            cand = cur[:i] + cur[i + 1:]
            budget -= 1
            if budget <= 0:
                break
            if fails(cand):
                cur = cand; changed = True
    return cur


# --------------------------------------------------------------- facts of sys.c
def extract_chains(repo):
    """the chain tables, map_expect_as and MAX_INFLIGHT of the working tree in the
    format of the driver's `chains` line"""
    src = open(os.path.join(repo, "src/addrxlat/sys.c")).read()
    src = re.sub(r"/\*.*?\*/", "", src, flags=re.S)
    MAPS = {"HW": 0, "KV_PHYS": 1, "KPHYS_DIRECT": 2, "MACHPHYS_KPHYS": 3, "KPHYS_MACHPHYS": 4}
    AS = {"KPHYSADDR": 0, "MACHPHYSADDR": 1, "KVADDR": 2, "NOADDR": 3}
    parts = []
    for name in ("kv2phys", "kphys2machphys", "kphys2direct", "kphys2any", "machphys2direct"):
        m = re.search(r"struct xlat_chain %s\s*=\s*CHAIN\((.*?)\);" % name, src, re.S)
        if not m:
            return None
        body = m.group(1)
        n = int(body.split(",")[0])
        alts = re.findall(r"ALT\(\s*(\d+)\s*,([^)]*)\)", body)
        if len(alts) != n:
            return None
        al = []
        for cnt, ms in alts:
            names = re.findall(r"ADDRXLAT_SYS_MAP_(\w+)", ms)
            if len(names) != int(cnt):
                return None
            al.append("+".join(str(MAPS[x]) for x in names))
        parts.append(name + "=" + "/".join(al))
    m = re.search(r"map_expect_as\[ADDRXLAT_SYS_MAP_NUM\]\s*=\s*\{(.*?)\};", src, re.S)
    ex = dict((MAPS[a], AS[b]) for a, b in re.findall(r"\[ADDRXLAT_SYS_MAP_(\w+)\]\s*=\s*ADDRXLAT_(\w+)", m.group(1))) if m else {}
    parts.append("expect=" + ",".join(str(ex.get(i, "?")) for i in range(5)))
    m = re.search(r"#define\s+MAX_INFLIGHT\s+(\d+)", src)
    parts.append("max_inflight=%s" % (m.group(1) if m else "none"))
    priv = open(os.path.join(repo, "src/addrxlat/addrxlat-priv.h")).read()
    m = re.search(r"#define\s+READ_CACHE_SLOTS\s+(\d+)", priv)
    parts.append("read_cache_slots=%s" % (m.group(1) if m else "none"))
    m = re.search(r"struct read_cache_slot\s*\{(.*?)\n\};", priv, re.S)
    parts.append("filling_mark=%d" % bool(m and re.search(r"\bfilling\s*;", m.group(1))))
    return "chains " + " ".join(parts)


# ----------------------------------------------------------------------------- run
def run(R):
    proof = R.prove(MODULES, THEOREMS)
    exe = sys_harness(R)
    facts_impl = extract_chains(kdf.REPO)
    facts_model = kdf.obs(R.run_driver("sys", "chains\n"))[0]
    nchunks, per = (3, 3000) if R.tier == "quick" else (60, 5000)
    kinds, nontriv, specd, nops, nimpl, ndropped, nblocks = {}, set(), 0, 0, 0, 0, 0
    reported = False
    sample = None
    for ci in range(nchunks):
        blocks = gen(R, per)
        nblocks += len(blocks)
        if sample is None:
            sample = blocks[0][1]
        lines, owner, starts = [], [], []
        for bi, (_, b) in enumerate(blocks):
            starts.append(len(lines)); lines += b; owner += [bi] * len(b)
        kept, impl, model, expects, idx, rc, err, kept_pos = evaluate(R, exe, lines)
        ndropped += len(lines) - len(kept)
        kept_owner = [owner[i] for i in kept_pos]
        ff = first_failure(kept, impl, model, expects, idx, rc, err)
        if ff:
            j, msg, is_prop = ff
            fail_line = kept[idx[j]]
            kind, block = blocks[kept_owner[idx[j]]]
            small = shrink(R, exe, block, fail_line, kept_pos[idx[j]] - starts[kept_owner[idx[j]]])
            rep = dict(stream="sys", generator=kind, input="\n".join(small) + "\n", failing_line=fail_line,
                       impl_output=impl[j] if j < len(impl) else None, expected=expects[j], model_output=model[j],
                       stderr=err[-1200:] if j >= len(impl) else "",
                       how="python3 tools/check.py C09 --replay <this file> feeds `input` to harness, model and specification")
            if is_prop:
                R.violation("%s  [input: %s]" % (msg, fail_line), rep)
            else:
                R.violation(msg, rep, found_input=False)
            reported = True
        # coverage accounting
        for j in range(min(len(impl), len(idx))):
            l = kept[idx[j]]
            if l.split()[0] in ("map", "newctx") or impl[j].startswith("RUNAWAY"):
                continue
            head, meas = split_obs(impl[j])
            t = head.split()
            if t[0] == "rd":
                kv = dict(x.split("=") for x in t if "=" in x)
                k = "rd/%s/n%s" % (t[1], kv.get("nest"))
                kinds[k] = kinds.get(k, 0) + 1
                if int(kv.get("nest", 0)) >= 2 or (t[1] != "ok" and int(kv.get("gp", 0)) >= 1):
                    nontriv.add(hash((ci, kept_owner[idx[j]], j)))
                continue
            k = "%s/%s/d%d" % (t[0], t[1], min(meas.get("depth", 0), MAXD))
            kinds[k] = kinds.get(k, 0) + 1
            if expects[j] != "?":
                specd += 1
            if meas.get("depth", 0) >= 1 or meas.get("pages", 0) >= 1:
                nontriv.add(hash((ci, kept_owner[idx[j]], l)))
        nops += sum(1 for l in kept if l.split()[0] in ("op", "conv", "rd"))
        nimpl += len(impl)
        if reported:
            break
    if not reported and (proof["broken"] or facts_impl != facts_model):
        R.violation("proof obligation or extracted facts broken: theorems %s; sys.c tables %r vs model %r" %
                    (proof["broken"], facts_impl, facts_model),
                    dict(stream="sys", broken_theorems=proof["broken"], lean_log=proof["log"][-1500:],
                         facts_impl=facts_impl, facts_model=facts_model), found_input=False)
    cov = dict(obligations=max(proof["obligations"], 1), discharged=proof["discharged"],
               checker_cmd="cd lean && lake build Kdf.Props.C09 && #print axioms on each theorem",
               trusted_base=["Lean 4 kernel", "axioms: " + ", ".join(sorted({a for v in proof["axioms"].values() for a in v}) or ["none"]),
                             "harness/s_sys.c + gcc + ASan/UBSan",
                             "read cache of ctx.c transparent for a deterministic, non-re-entrant get_page inside op/conv (observed, not proved); "
                             "for direct reads (rd) get_cache_buf itself is modelled (Kdf.Model.RCache), re-entrant callback included",
                             "Python Spec in tools/props/c09.py (independent expectation)"],
               broken_theorems=proof["broken"], theorems=THEOREMS, evaluations=nops, distinct_nontrivial=len(nontriv),
               rule="blocks of one translation system each (soup: random kinds/parameters in up to 9 method slots, random tilings of the 5 maps "
                    "with cut points from a breakpoint set, tables built where the library will read them; twostage: KV->KPHYS->MACHPHYS with both "
                    "stages' tables at the same numeric pages; mutual: self- and mutually-referential table roots; custom: ADDRXLAT_CUSTOM methods whose "
                    "callback finishes in its first step in a space other than target_as / leaves a linear level / fails, in every map, with "
                    "linear or custom second stages; reent: a get-page callback that first reads a frame-table entry through the same context - "
                    "self-hosted entries, chains, mutual pairs, chains of 15..20 pages - after 0..6 earlier reads (cold/warm cache), as direct "
                    "reads `rd` (modelled) and whole conversions (monitors only)), each followed by op/conv calls "
                    "over all capability masks and source spaces at range boundaries +-1; non-trivial = distinct (system, call) pairs that read "
                    "memory or nest a translation",
               traces_validated_against_impl=nimpl, spec_covered=specd, dropped_unaligned=ndropped,
               facts=dict(sys_c=facts_impl, model=facts_model), case_kinds=dict(sorted(kinds.items())[:140]),
               blocks=nblocks, samples=[dict(block=sample[:6] + ["..."] + sample[-2:])])
    return "proof", cov, ["get_page is a deterministic function of the page address (the 4-slot read cache is then transparent)",
                          "method indices stored in maps are NONE or < ADDRXLAT_SYS_METH_NUM (what the setters accept as meaningful)",
                          "ADDRXLAT_CUSTOM methods: the family whose first_step callback decides by (addr & mask) and finishes at once in an "
                          "address space of its choice, leaves one linear level, or fails (next_step does nothing); multi-level custom methods are not generated",
                          "PTE formats limited to pfn32/pfn64/ia32/ia32_pae/x86_64/riscv64/none",
                          "re-entrant get-page callbacks: the family that reads one 64-bit object per page through the same context (no translation "
                          "system) before delivering the page; whole conversions (op/conv) under such a callback are implementation-only: "
                          "termination, nesting <= READ_CACHE_SLOTS, exactly-once/caps/pass-through monitors, not compared with model or specification",
                          "naturally aligned page-table and array reads (unaligned cases are dropped before they reach the C code)"]


def replay(R, path):
    rep = json.load(open(path))
    exe = sys_harness(R)
    lines = [l for l in rep["input"].split("\n") if l]
    kept, impl, model, expects, idx, rc, err, _ = evaluate(R, exe, lines, timeout=120)
    for j in range(len(idx)):
        print("%-60s impl=%r model=%r spec=%r" % (kept[idx[j]][:60], impl[j] if j < len(impl) else None, model[j], expects[j]))
    ff = first_failure(kept, impl, model, expects, idx, rc, err)
    if ff:
        print("FAIL:", ff[1])
        return 1
    print("no failure")
    return 0
