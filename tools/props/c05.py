"""C05 — clones of one dump can be used from different threads at the same time.

Proof: lean/Kdf/Props/C05.lean (Owicki-Gries style invariant of the interleaving model
lean/Kdf/Model/Conc.lean over the C06 cache model, all schedules, all thread counts).
Tie to the code, every run (harness/s_thr.c):
  (a) lock-discipline monitor: every wrapped cache operation is checked against the calling
      thread's ledger of held locks (model table: cache_lock, or shared->lock for writing);
      an API call must return with an empty ledger;
  (b) lock-order graph: observed dynamically (held -> acquired) and extracted statically from
      the sources (nesting inside one function + calls made under a lock); must be acyclic and
      a subgraph of the model's table `lockOrder`;
  (c) stress: 2..16 real threads on clones (with/without KDUMP_CLONE_XLAT) of generated
      diskdump (zlib pages) and ELF dumps, cache.size = threads, threads-1, 1: right bytes or
      BUSY (BUSY only if cache.size < threads), nothing pinned afterwards;
  (d) controlled scheduling: cooperative scheduler at the interposed lock / cache / inflate /
      pread points, scripted scenarios (same-page double miss, failing fill next to a second
      holder, in-flight pressure = capacity, failing read inside elf_read_page) + seeded PCT
      priorities; the totally ordered event log is replayed on the Lean model (stream `thr`):
      lookup results and the complete page-cache state after every page-cache operation must
      agree, and the property (reference count = holders, BUSY rule, bytes) is evaluated on
      the implementation's own states;
  thorough: more schedules, bigger dumps (mmap failure), ThreadSanitizer build as a search aid.
"""
import os, re, collections, subprocess, shutil
import kdf, dumpgen

T = "Kdf.Props.C05."
THEOREMS = [T + t for t in (
    "pins_eq_holders", "quiescent_unpinned", "cache_inv", "no_wrong_bytes", "no_model_error",
    "busy_only_when_full", "cache_ops_locked", "cache_ops_locked_as_found", "mutual_exclusion",
    "writer_exclusive", "no_deadlock", "run_reach", "unlocked_put_loses_count",
    "unlocked_put_wrong_bytes", "quiescent_unpinned_false_as_found", "no_wrong_bytes_false_as_found",
    "cache_ops_locked_counterexample", "lock_order_acyclic", "lock_order_as_found_cyclic")]

WRAP = ("-Wl,--wrap=_kdumpfile_priv_cache_get_entry,--wrap=_kdumpfile_priv_cache_insert,"
        "--wrap=_kdumpfile_priv_cache_discard,--wrap=_kdumpfile_priv_cache_put_entry,--wrap=malloc,--wrap=realloc")
PS = 4096
MACHPHYS = 1
MODEL_EDGES = {("S", "C"), ("C", "M"), ("S", "M")}      # lean/Kdf/Model/Conc.lean lockOrder (0=S 1=C 2=M)
MMAP_NEVER, MMAP_TRY = 0, 2


# ----------------------------------------------------------------------------- dumps
class Dump:
    def __init__(self, path, kind, pages, absent, straddle=None, nuls=()):
        self.path, self.kind, self.pages, self.absent, self.straddle, self.nuls = path, kind, pages, absent, straddle, nuls
        self._h = {}

    def expect(self, pfn):
        if pfn not in self._h:
            self._h[pfn] = "%016x" % dumpgen.fnv(dumpgen.page_bytes(pfn, PS, self.nuls))
        return self._h[pfn]

    def expect_str(self, addr):
        b = dumpgen.page_bytes(addr // PS, PS, self.nuls)[addr % PS:]
        return "%016x" % dumpgen.fnv(b[:b.index(0)])


def make_dumps(R, big=False):
    d = {}
    n = 40
    pages = [p for p in range(n) if p % 13 != 5]
    path = R.path("dd-zlib.dump")
    nuls = [p * PS + 200 for p in pages]            # every page holds a string that ends at offset 200
    dumpgen.write_diskdump(path, pages, methods={p: "zlib" for p in pages}, nuls=nuls)
    d["dd"] = Dump(path, "dd", pages, [p for p in range(n) if p not in pages], nuls=nuls)
    # ELF: two page-aligned segments (direct file-cache path) and one page stored as two LOADs
    # (elf_read_page slow path through the page cache)
    segs = [dict(pfn=0, npages=12), dict(pfn=16, npages=10),
            dict(paddr=32 * PS, filesz=PS // 2, memsz=PS // 2),
            dict(paddr=32 * PS + PS // 2, filesz=PS // 2, memsz=PS // 2),
            dict(paddr=34 * PS, filesz=PS // 4, memsz=PS // 4),
            dict(paddr=34 * PS + PS // 4, filesz=3 * PS // 4, memsz=3 * PS // 4)]
    path = R.path("elf.dump")
    dumpgen.write_elf(path, segs)
    d["elf"] = Dump(path, "elf", list(range(12)) + list(range(16, 26)) + [32, 34], [12, 13, 27], straddle=[32, 34])
    # ELF with a segment beyond the first 4 MiB window of the mmap file cache
    path = R.path("elf-sparse.dump")
    dumpgen.write_elf_sparse(path, [dict(pfn=0, npages=8, offset=0x1000), dict(pfn=16, npages=8, offset=0x500000)])
    d["sparse"] = Dump(path, "elf", list(range(8)) + list(range(16, 24)), [9, 30])
    if big:
        pages = list(range(1200))
        path = R.path("dd-big.dump")
        dumpgen.write_diskdump(path, pages, methods={p: ("zlib" if p % 3 == 0 else "raw") for p in pages})
        d["big"] = Dump(path, "dd", pages, [])
    return d


# ----------------------------------------------------------------------------- harness runs
def case_text(dump, mode, nthreads, cache, ops, seed=1, pct=(0, 200), script=(), fails=(), xlatmask=0,
              mmap=None, repeat=1, perctx=0):
    L = ["dump %s" % dump.path, "ps %d" % PS, "cache %d" % cache, "mode %s" % mode, "threads %d" % nthreads,
         "xlatmask %d" % xlatmask, "seed %d" % seed, "pct %d %d" % pct, "repeat %d" % repeat]
    if mmap is not None:
        L.append("mmap %d" % mmap)
    if perctx:
        L.append("perctx 1")
    for t, o in ops:
        L.append("op %d %s" % (t, o))
    for t, what, n in fails:
        L.append("fail %d %s %d" % (t, what, n))
    for t, kind in script:
        L.append("until %d %s" % (t, kind))
    return "\n".join(L) + "\n"


def rd(dump, pfn):
    if pfn in dump.pages:
        return "read %d %d %s" % (MACHPHYS, pfn * PS, dump.expect(pfn))
    return "read %d %d nodata" % (MACHPHYS, pfn * PS)


def run_case(R, exe, text, tag="case", timeout=120, env=None):
    p = R.path(tag + ".txt")
    open(p, "w").write(text)
    rc, out, err = R.run_harness(exe, [p], timeout=timeout, env=env)
    return rc, out, err


class Log:
    """parsed output of one harness run"""
    def __init__(self, out):
        self.ev, self.R, self.B, self.T = [], [], [], {}
        self.Q = self.M = self.G = self.D = self.I = self.X = None
        self.M1, self.done = [], False
        for line in out.split("\n"):
            if not line:
                continue
            k, rest = line[0], line[2:]
            if k == "E":
                self.ev.append(self.parse_ev(rest))
            elif k == "R":
                m = re.match(r"(\d+) (\d+) (\w+) (.*) -> (\w+) ?(\S*) ?.*held=(\S+)", rest)
                if m:
                    self.R.append(dict(t=int(m.group(1)), i=int(m.group(2)), op=m.group(3), arg=m.group(4),
                                       st=m.group(5), verdict=m.group(6), held=m.group(7), pos=len(self.ev)))
            elif k == "Q":
                self.Q = dict((a, int(b)) for a, b in (x.split("=") for x in rest.split()))
            elif k == "M":
                if rest.startswith("cacheops"):
                    self.M = dict((a, int(b)) for a, b in (x.split("=") for x in rest.split()))
                else:
                    self.M1.append(rest)
            elif k == "G":
                self.G = [tuple(x.split(":")[0].split(">")) for x in rest.split()]
            elif k == "D":
                self.D = rest
            elif k == "I":
                self.I = rest
            elif k == "X":
                self.X = rest
            elif k == "B":
                self.B.append(rest)
            elif k == "T":
                f = rest.split()
                self.T[int(f[0])] = dict((a, int(b)) for a, b in (x.split("=") for x in f[1:]))
            elif k == "Z":
                self.done = True

    @staticmethod
    def parse_ev(rest):
        state = None
        if " | " in rest:
            rest, state = rest.split(" | ", 1)
        f = rest.split()
        e = dict(t=int(f[0]), kind=f[1], state=state, raw=rest)
        if f[1] in ("lock", "unlock", "rdlock", "rdunlock", "wrlock", "wrunlock"):
            e["cls"] = f[2]
        elif f[1] == "get":
            e.update(cache=f[2], key=int(f[3]), res=f[4], held=f[5][5:])
        elif f[1] in ("insert", "discard", "put"):
            e.update(cache=f[2], idx=int(f[3]), held=f[4][5:])
        else:
            e["res"] = f[2] if len(f) > 2 else ""
        return e


def parse_state(st):
    """'U=.. GB=.. B=.. P=.. GP=.. F=.. dp=n E=i:key:ref:buf[flag] ...' -> dict"""
    if st is None or st.startswith("MALFORMED") or st.startswith("S=TOOBIG"):
        return None
    head, ents = st.split(" E=")
    d = {}
    for tok in head.split():
        k, v = tok.split("=")
        d[k] = [int(x) for x in v.split(",") if x] if k != "dp" else int(v)
    d["ref"] = {}
    for tok in ents.split():
        i, k, r, b = tok.split(":")
        d["ref"][int(i)] = int(r)
    return d


def held_ok(held):
    hs = held.split(",")
    return "C" in hs or "S:w" in hs


def evaluate(L, cap, nthreads, faults):
    """The property itself, evaluated on the implementation's log.  Returns a message or None."""
    if L.X:
        return "harness could not set the case up: " + L.X
    if L.D:
        return "deadlock: " + L.D
    holders = {}                    # thread -> page-cache entry it holds
    frefs = collections.defaultdict(collections.Counter)   # file caches: entry -> references
    pgbusy, fbusy = set(), set()    # threads whose current op saw a justified BUSY
    for pos, e in enumerate(L.ev):
        k = e["kind"]
        if k in ("get", "insert", "discard", "put"):
            if not held_ok(e["held"]):
                return "cache bookkeeping touched outside the lock: thread %d cache_%s on the %s cache with held locks {%s}" % (
                    e["t"], k, e["cache"], e["held"])
            if e["cache"] != "pg":
                c = frefs[e["cache"]]
                if k == "get":
                    if e["res"] == "busy":
                        inuse = sum(1 for v in c.values() if v > 0)
                        if inuse < 16:
                            return "file cache lookup refused (busy) by thread %d with only %d of 16 entries referenced" % (e["t"], inuse)
                        fbusy.add(e["t"])
                    else:
                        c[int(e["res"].split(":")[0])] += 1
                elif k in ("put", "discard"):
                    c[e["idx"]] -= 1
                    if c[e["idx"]] < 0:
                        return "file cache entry %d of %s released more often than acquired (thread %d)" % (e["idx"], e["cache"], e["t"])
                continue
            st = parse_state(e["state"])
            if st is None:
                return "page cache state is malformed after thread %d %s: %s" % (e["t"], e["raw"], e["state"])
            if k == "get":
                if e["res"] == "busy":
                    pinned = sum(1 for i in st["B"] + st["P"] if st["ref"][i] > 0)
                    if pinned + len(st["F"]) < cap or len(holders) < cap:
                        return ("lookup of key %d by thread %d refused (KDUMP_ERR_BUSY) with %d referenced + %d in-flight entries, "
                                "%d reads in flight, capacity %d" % (e["key"], e["t"], pinned, len(st["F"]), len(holders), cap))
                    pgbusy.add(e["t"])
                else:
                    holders[e["t"]] = int(e["res"].split(":")[0])
            elif k in ("put", "discard"):
                if holders.get(e["t"]) != e["idx"]:
                    return "thread %d releases page-cache entry %d which it does not hold" % (e["t"], e["idx"])
                del holders[e["t"]]
            cnt = collections.Counter(holders.values())
            for i, r in st["ref"].items():
                if r != cnt.get(i, 0):
                    return ("after '%s': page-cache entry %d has reference count %d but %d thread(s) are between get and put on it"
                            % (e["raw"], i, r, cnt.get(i, 0)))
    for r in L.R:
        if r["held"] != "-":
            return "thread %d: %s returned to the caller holding {%s}" % (r["t"], r["op"], r["held"])
        if r["op"] != "read":
            if r["st"] not in ("ok", "nodata"):
                return "thread %d: %s %s failed with %s" % (r["t"], r["op"], r["arg"], r["st"])
            continue
        if r["st"] == "ok":
            if r["verdict"] != "good":
                return "thread %d: read %s returned wrong bytes" % (r["t"], r["arg"])
        elif r["st"] == "busy":
            if r["t"] not in pgbusy and r["t"] not in fbusy:
                return "thread %d: read %s failed with KDUMP_ERR_BUSY although no cache refused a lookup" % (r["t"], r["arg"])
        elif r["st"] == "nodata":
            pass
        elif r["t"] not in faults:
            return "thread %d: read %s failed with %s without an injected fault" % (r["t"], r["arg"], r["st"])
    if not L.done:
        return "harness did not finish"
    if L.M and L.M.get("unlocked"):
        return "cache bookkeeping touched outside the lock: " + "; ".join(L.M1)
    if L.M and L.M.get("leaks"):
        return "API call returned with a lock held: " + "; ".join(L.M1)
    for b in L.B:
        if "wrong bytes" in b or "expected" in b:
            return b
    if L.Q and any(L.Q.values()):
        return "after all threads finished cache entries remain pinned: reference sums %s" % L.Q
    bad = [e for e in (L.G or []) if tuple(e) not in MODEL_EDGES]
    if bad:
        return "lock acquired in an order the model's lock-order table does not have: %s" % bad
    return None


def to_model(L, cap, nthreads):
    """Event log -> (driver input lines, expected observation lines)."""
    pre = collections.defaultdict(list)
    last_lock = {}
    for pos, e in enumerate(L.ev):
        if e["kind"] == "lock" and e["cls"] == "C":
            last_lock[e["t"]] = pos
        elif e.get("cache") == "pg" and e["kind"] in ("insert", "discard") and e["t"] in last_lock:
            pre[last_lock[e["t"]]].append((e["t"], "fillEnd %d" % (1 if e["kind"] == "insert" else 0), ""))
        elif e.get("cache") == "pg" and e["kind"] == "put" and e["t"] in last_lock:
            pre[last_lock[e["t"]]].append((e["t"], "copy", " good"))
    inp = ["new %d %d 1" % (cap, nthreads)]
    exp = ["new " + L.I.split("pgstate: ")[1].strip()]
    for pos, e in enumerate(L.ev):
        for t, ev, extra in pre.get(pos, ()):
            inp.append("%d %s" % (t, ev)); exp.append("%d %s ok%s" % (t, ev, extra))
        k, t = e["kind"], e["t"]
        if k in ("rdlock", "rdunlock", "wrlock", "wrunlock"):
            if e["cls"] == "S":
                inp.append("%d %s" % (t, k)); exp.append("%d %s ok" % (t, k))
        elif k in ("lock", "unlock"):
            if e["cls"] == "C":
                inp.append("%d %s" % (t, k)); exp.append("%d %s ok" % (t, k))
        elif e.get("cache") == "pg":
            if k == "get":
                inp.append("%d get %d" % (t, e["key"]))
                exp.append("%d get %d ok %s | %s" % (t, e["key"], e["res"], e["state"]))
            else:
                inp.append("%d %s" % (t, k)); exp.append("%d %s ok | %s" % (t, k, e["state"]))
    inp.append("end")
    exp.append("end refs=%d quiescent=true bad=false lock=false readers=0" % (L.Q or {}).get("pg", -1))
    return inp, exp


# ----------------------------------------------------------------------------- scenarios
def scenarios(R, dumps, tier):
    """yield (name, dump, kwargs for case_text, faults)"""
    rng = R.rng
    dd, elf = dumps["dd"], dumps["elf"]
    P = dd.pages
    out = []
    # S1: two/three threads miss on the same page; variants: who finishes first, whose fill fails
    for variant in range(24 if tier == "quick" else 80):
        n = rng.choice((2, 2, 3))
        page = rng.choice(P)
        cap = rng.choice((1, n - 1 or 1, n))
        ops = [(t, rd(dd, page)) for t in range(n)] + [(t, rd(dd, rng.choice(P))) for t in range(n)]
        order = list(range(n)); rng.shuffle(order)
        script = [(t, "inflate") for t in order]
        fin = list(range(n)); rng.shuffle(fin)
        script += [(fin[0], "opdone" if False else "unlock")] * 0 + [(fin[0], "done")]
        fails = []
        if variant % 2:
            fails = [(rng.choice(order), "inflate", 1)]
        out.append(("same-page", dd, dict(mode="ctl", nthreads=n, cache=cap, ops=ops, script=script, fails=fails,
                                          seed=rng.randrange(1 << 30), pct=(rng.randrange(3), 150)), {f[0] for f in fails}))
    # S2: in-flight pressure = capacity: cap threads parked inside their fills, one more lookup
    for variant in range(12 if tier == "quick" else 40):
        cap = rng.choice((1, 2, 3))
        n = cap + 1
        pg = rng.sample(P, n + 1)
        ops = [(t, rd(dd, pg[t])) for t in range(n)] + [(t, rd(dd, rng.choice(pg))) for t in range(n)]
        script = [(t, "inflate") for t in range(cap)] + [(cap, "done")]
        out.append(("pressure", dd, dict(mode="ctl", nthreads=n, cache=cap, ops=ops, script=script,
                                         seed=rng.randrange(1 << 30), pct=(rng.randrange(3), 150)), set()))
    # S3: random programs, PCT schedules, occasional injected fill failure
    for variant in range(160 if tier == "quick" else 1500):
        n = rng.choice((2, 2, 3, 3, 4))
        pool = rng.sample(P, rng.choice((2, 3, 5)))
        cap = rng.choice((1, max(1, n - 1), n))
        ops = []
        for t in range(n):
            for _ in range(rng.randrange(2, 6)):
                x = rng.random()
                if x < 0.8:
                    ops.append((t, rd(dd, rng.choice(pool))))
                elif x < 0.86:
                    ops.append((t, rd(dd, rng.choice(dd.absent))))
                elif x < 0.92:
                    ops.append((t, "pagemap 0 0"))
                elif x < 0.96:
                    ops.append((t, "getattr cache.size"))
                else:
                    ops.append((t, "setattr file.mmap_policy %d" % MMAP_TRY))
        fails = [(rng.randrange(n), "inflate", rng.randrange(1, 3))] if rng.random() < 0.4 else []
        out.append(("random", dd, dict(mode="ctl", nthreads=n, cache=cap, ops=ops, fails=fails,
                                       seed=rng.randrange(1 << 30), pct=(rng.randrange(4), 40 * n), xlatmask=rng.randrange(1 << n)),
                    {f[0] for f in fails}))
    # S4: ELF: page stored as two LOADs (elf_read_page, fill under cache_lock), read(2) fails in one thread
    for variant in range(18 if tier == "quick" else 90):
        n = rng.choice((2, 3))
        cap = rng.choice((1, n))
        ops = []
        for t in range(n):
            for _ in range(3):
                ops.append((t, rd(elf, rng.choice(elf.straddle + elf.straddle + elf.pages[:6]))))
        fails = [(rng.randrange(n), "pread", rng.randrange(1, 4))] if variant % 3 != 2 else []
        script = [(t, "pread") for t in range(n)] if variant % 2 else []
        out.append(("elf-straddle", elf, dict(mode="ctl", nthreads=n, cache=cap, ops=ops, fails=fails, script=script, mmap=MMAP_NEVER,
                                              seed=rng.randrange(1 << 30), pct=(rng.randrange(3), 100)), {f[0] for f in fails}))
    # S5: mmap() of a new file-cache window fails in one thread (falls back to read(2))
    sp = dumps["sparse"]
    for variant in range(8 if tier == "quick" else 32):
        n = rng.choice((2, 3))
        ops = [(t, rd(sp, rng.choice(sp.pages[8:] if i < 2 else sp.pages))) for t in range(n) for i in range(4)]
        fails = [(rng.randrange(n), "mmap", 1)]
        out.append(("mmap-fail", sp, dict(mode="ctl", nthreads=n, cache=rng.choice((1, n)), ops=ops, fails=fails,
                                          seed=rng.randrange(1 << 30), pct=(rng.randrange(3), 100)), {f[0] for f in fails}))
    # S6: kdump_clone from a worker while others read; the per-context allocation fails in one call
    for variant in range(6 if tier == "quick" else 24):
        n = rng.choice((2, 3))
        ops = []
        for t in range(n):
            for i in range(3):
                ops.append((t, rd(dd, rng.choice(P))))
                if t == 0:
                    ops.append((t, "clone %d" % ((variant + i) % 2)))
        out.append(("clone", dd, dict(mode="ctl", nthreads=n, cache=n, ops=ops, perctx=1,
                                      seed=rng.randrange(1 << 30), pct=(rng.randrange(3), 120)), set()))
    # S7: a string is being copied out of a page (kdump_read_string parked at its realloc) while the other threads
    # read enough other pages to recycle every unpinned entry
    for variant in range(10 if tier == "quick" else 60):
        n = rng.choice((2, 2, 3))
        cap = n
        pg = rng.sample(P, 2 * n + 3)
        soff = (7 * variant) % 190                    # the string of every page ends at offset 200
        ops = [(0, "str %d %d %s" % (MACHPHYS, pg[0] * PS + soff, dd.expect_str(pg[0] * PS + soff)))]
        for t in range(1, n):
            ops += [(t, rd(dd, p)) for p in pg[1 + 3 * (t - 1):4 + 3 * (t - 1)]]
        ops.append((0, rd(dd, pg[0])))
        script = [(0, "realloc")] + [(t, "done") for t in range(1, n)]
        out.append(("string-copy", dd, dict(mode="ctl", nthreads=n, cache=cap, ops=ops, script=script,
                                            seed=rng.randrange(1 << 30), pct=(rng.randrange(2), 120)), set()))
    rng.shuffle(out)
    return out


def stress_plans(R, dumps, tier):
    rng = R.rng
    out = []
    ths = (2, 3, 4, 8, 16) if tier == "quick" else (2, 3, 4, 5, 6, 8, 12, 16)
    for n in ths:
        for cap in sorted({n, n - 1, 1}):
            if cap < 1:
                continue
            for name in ("dd", "elf"):
                if tier == "quick" and name == "elf" and cap not in (n, 1):
                    continue
                d = dumps[name]
                ops = []
                for t in range(n):
                    pool = rng.sample(d.pages, min(len(d.pages), rng.choice((3, 6, 12))))
                    if d.straddle:
                        pool += d.straddle
                    for _ in range(12):
                        ops.append((t, rd(d, rng.choice(pool))))
                    ops.append((t, "pagemap 0 0"))
                    if t == 0:
                        ops.append((t, "setattr file.mmap_policy %d" % MMAP_TRY))
                out.append((name, d, dict(mode="free", nthreads=n, cache=cap, ops=ops, repeat=6 if tier == "quick" else 40,
                                          xlatmask=rng.randrange(1 << n), mmap=rng.choice((None, MMAP_NEVER)) if name == "elf" else None)))
    return out


def eval_stress(L, kw, rc, err):
    n, cap = kw["nthreads"], kw["cache"]
    if rc != 0 or not L.done:
        return "stress run did not finish (rc %s): %s" % (rc, (err.strip().split("\n") or ["?"])[0][:300])
    msg = evaluate(L, cap, n, set())
    if msg:
        return msg
    if L.B:
        return L.B[0]
    busy = sum(t["busy"] for t in L.T.values())
    if cap >= n and busy:
        return "%d reads failed with KDUMP_ERR_BUSY although cache.size %d >= %d threads" % (busy, cap, n)
    return None


# ----------------------------------------------------------------------------- static lock order
def static_lock_order(tree):
    """Lock nesting extracted from src/kdumpfile/*.c: (held, acquired) class pairs with their site."""
    def cls(expr):
        if "cache_lock" in expr:
            return "C"
        if "pfn_block_mutex" in expr:
            return "M"
        return "S"
    srcdir = os.path.join(tree, "src", "kdumpfile")
    funcs = {}
    for fn in sorted(os.listdir(srcdir)):
        if not fn.endswith(".c") or fn.startswith("test-"):
            continue
        txt = open(os.path.join(srcdir, fn), errors="replace").read()
        txt = re.sub(r"/\*.*?\*/", lambda m: "\n" * m.group(0).count("\n"), txt, flags=re.S)
        for m in re.finditer(r"^(\w+)\(([^;{]*?)\)\s*\{(.*?)^\}", txt, re.S | re.M):
            funcs[m.group(1)] = (fn, m.group(3))
    acq = {}            # function -> set of classes it may acquire (transitively)
    def direct(body):
        return {cls(m.group(2)) for m in re.finditer(r"\b(mutex_lock|rwlock_rdlock|rwlock_wrlock)\(([^;]*?)\);", body)}
    for f, (fn, body) in funcs.items():
        acq[f] = direct(body)
    changed = True
    while changed:
        changed = False
        for f, (fn, body) in funcs.items():
            for g in set(re.findall(r"\b(\w+)\(", body)):
                if g in acq and g != f and not acq[g] <= acq[f]:
                    acq[f] |= acq[g]; changed = True
    edges = {}
    for f, (fn, body) in funcs.items():
        held = []
        for m in re.finditer(r"\b(mutex_lock|mutex_unlock|rwlock_rdlock|rwlock_wrlock|rwlock_unlock)\(([^;]*?)\);|\b(\w+)\(", body):
            if m.group(1):
                c = cls(m.group(2))
                if m.group(1) in ("mutex_lock", "rwlock_rdlock", "rwlock_wrlock"):
                    for h in held:
                        if h != c:
                            edges.setdefault((h, c), "%s:%s" % (fn, f))
                    held.append(c)
                elif c in held:
                    held.remove(c)
            elif held and m.group(3) in acq and m.group(3) != f:
                for c in acq[m.group(3)]:
                    for h in held:
                        if h != c:
                            edges.setdefault((h, c), "%s:%s -> %s" % (fn, f, m.group(3)))
    return edges


def has_cycle(edges):
    nodes = {a for a, b in edges} | {b for a, b in edges}
    reach = {a: {b for x, b in edges if x == a} for a in nodes}
    for _ in nodes:
        for a in nodes:
            for b in list(reach[a]):
                reach[a] |= reach.get(b, set())
    return sorted(a for a in nodes if a in reach[a])


# ----------------------------------------------------------------------------- the check
def run(R):
    proof = R.prove(["Kdf.Props.C05"], THEOREMS)
    lib, cflags = R.build_lib()
    exe = R.build_harness("s_thr", ["s_thr.c"], lib=lib, cflags=cflags + ["-ffunction-sections", "-fdata-sections"],
                          ldflags=["-Wl,--gc-sections", WRAP])
    dumps = make_dumps(R, big=(R.tier != "quick"))
    evaluations = 0
    kinds = collections.Counter()
    samples = []

    # (b) static lock-order graph of the working tree
    sedges = static_lock_order(R.tree())
    # rd/wr -> C under S is everywhere; what matters: subset of the model's table and no cycle
    extra = {e: s for e, s in sedges.items() if e not in MODEL_EDGES}
    cyc = has_cycle(set(sedges))
    if extra or cyc:
        R.violation("lock order: the sources nest locks in an order outside the model's acyclic table %s: %s%s" % (
            sorted(MODEL_EDGES), {"%s>%s" % e: s for e, s in extra.items()}, (" (cycle through %s)" % cyc) if cyc else ""),
            dict(stream="thr", static_lock_order={"%s>%s" % e: s for e, s in sedges.items()},
                 how="two clones: one runs the first site while the other runs the second (e.g. LKCD: kdump_read in one thread, "
                     "kdump_get_attr(max_pfn) in another)"), key="lock-order", found_input=False)

    # (d) controlled schedules + model replay
    all_inp, all_exp, spans = [], [], []
    first_fail = None
    for name, dump, kw, faults in scenarios(R, dumps, R.tier):
        text = case_text(dump, **kw)
        rc, out, err = run_case(R, exe, text, "ctl", timeout=60)
        L = Log(out)
        evaluations += len(L.ev) + len(L.R)
        kinds[name] += 1
        filling, fillers = {}, collections.defaultdict(set)
        for e in L.ev:
            if e.get("cache") == "pg":
                kinds["pg-" + e["kind"] + ("-" + e["res"].split(":")[-1] if e["kind"] == "get" else "")] += 1
                if e["kind"] == "get" and e["res"].endswith(":miss"):
                    filling[e["t"]] = int(e["res"].split(":")[0])
                elif e["kind"] in ("insert", "discard"):
                    filling.pop(e["t"], None)
                    if e["idx"] not in filling.values():
                        fillers.pop(e["idx"], None)
            elif e["kind"] == "inflate" and e["t"] in filling:
                fillers[filling[e["t"]]].add(e["t"])
                if len(fillers[filling[e["t"]]]) == 2:
                    kinds["double-fill-of-one-entry"] += 1
                if e.get("res") == "fail" and len([t for t in filling if filling[t] == filling[e["t"]]]) > 1:
                    kinds["fill-fails-next-to-second-holder"] += 1
        msg = None
        if rc not in (0,) and not L.D:
            msg = "harness aborted (rc %s): %s" % (rc, next((l for l in err.split("\n") if "ERROR" in l or "runtime error" in l or "TIMEOUT" in l), err.strip()[:200]))
        msg = msg or evaluate(L, kw["cache"], kw["nthreads"], faults)
        if msg:
            first_fail = (msg, name, text, L)
            break
        if len(samples) < 2:
            samples.append(dict(scenario=name, events=[e["raw"] for e in L.ev if e.get("cache") == "pg"][:6]))
        inp, exp = to_model(L, kw["cache"], kw["nthreads"])
        spans.append((len(all_inp), len(inp), name, text))
        all_inp += inp; all_exp += exp
    if first_fail:
        msg, name, text, L = first_fail
        R.violation(msg, dict(stream="thr", scenario=name, case_file=text, how="harness/s_thr <case file> (mode ctl: deterministic)",
                              log_tail=[e["raw"] for e in L.ev[-12:]], broken_theorems=proof["broken"]))
    model = kdf.obs(R.run_driver("thr", "\n".join(all_inp) + "\n")) if all_inp else []
    mism = kdf.diff_streams(all_exp, model)

    # (c) stress with real threads
    stress_n = 0
    if not first_fail:
        for name, dump, kw in stress_plans(R, dumps, R.tier):
            text = case_text(dump, **kw)
            rc, out, err = run_case(R, exe, text, "free", timeout=300)
            L = Log(out)
            stress_n += 1
            evaluations += sum(sum(t.values()) for t in L.T.values())
            kinds["stress-%s" % name] += 1
            msg = eval_stress(L, kw, rc, err)
            if msg:
                R.violation(msg, dict(stream="thr", scenario="stress-" + name, case_file=text,
                                      how="harness/s_thr <case file> (mode free: real threads; rerun a few times)",
                                      stderr=err[-1500:]))
                break

    # thorough: bigger dump (mmap failure inside a thread), ThreadSanitizer build
    tsan_note = None
    if R.tier != "quick" and not R.violations:
        big = dumps["big"]
        for variant in range(6):
            n = 3
            ops = [(t, rd(big, R.rng.randrange(1100, 1200))) for t in range(n) for _ in range(4)]
            kw = dict(mode="ctl", nthreads=n, cache=2, ops=ops, fails=[(variant % n, "mmap", 1)], seed=R.rng.randrange(1 << 30), pct=(2, 200))
            text = case_text(big, **kw)
            rc, out, err = run_case(R, exe, text, "ctl", timeout=60)
            L = Log(out)
            evaluations += len(L.ev)
            kinds["mmap-fail"] += 1
            msg = evaluate(L, 2, n, {variant % n})
            if msg:
                R.violation(msg, dict(stream="thr", scenario="mmap-fail", case_file=text, log_tail=[e["raw"] for e in L.ev[-12:]]))
                break
        tsan_note = tsan_search(R, dumps)

    if not R.violations and (proof["broken"] or mism is not None):
        span = next(((a, n, nm, tx) for (a, n, nm, tx) in spans if mism is not None and a <= mism < a + n), None)
        R.violation("proof obligation or correspondence broken: theorems %s; first differing line %s" % (proof["broken"], mism),
                    dict(stream="thr", broken_theorems=proof["broken"], lean_log=proof["log"][-1500:],
                         first_diff=None if mism is None else dict(
                             index=mism, scenario=span[2] if span else None, case_file=span[3] if span else None,
                             model_input=all_inp[span[0]:mism + 1][-25:] if span else None,
                             impl=all_exp[mism] if mism < len(all_exp) else None,
                             model=model[mism] if mism < len(model) else None)),
                    found_input=False)

    cov = dict(obligations=proof["obligations"], discharged=proof["discharged"],
               checker_cmd="cd lean && lake build Kdf.Props.C05 && #print axioms on each theorem",
               trusted_base=["Lean 4 kernel", "axioms: " + ", ".join(sorted({a for v in proof["axioms"].values() for a in v}) or ["none"]),
                             "harness/s_thr.c: pthread/inflate/pread/mmap interposition, --wrap of the four cache entry points, cooperative scheduler",
                             "pthread mutex/rwlock semantics; fill routines write only bytes of their own page (buffer-tag abstraction)",
                             "gcc + ASan/UBSan (+ TSan in the thorough tier)"],
               broken_theorems=proof["broken"], theorems=THEOREMS,
               evaluations=evaluations, distinct_nontrivial=len([k for k, v in kinds.items() if v]),
               case_kinds=dict(kinds), stress_runs=stress_n, static_lock_order={"%s>%s" % e: s for e, s in sedges.items()},
               rule="controlled schedules (scripted same-page double miss / failing fill next to a second holder / in-flight pressure = capacity / "
                    "failing read inside elf_read_page, then seeded PCT priorities) on 2-4 clones, cache.size in {1, n-1, n}; every event log is replayed on the "
                    "Lean model (lookup result + full page-cache state after every page-cache operation); the property (ledger at every cache op, "
                    "refcnt = holders at every state, BUSY rule, bytes, quiescent sums, lock order) is evaluated on the implementation; "
                    "stress with 2..16 real threads; non-trivial = distinct scenario/event kinds reached",
               traces_validated_against_impl=len(all_exp), correspondence_first_diff=mism, tsan=tsan_note,
               samples=samples)
    return "proof", cov, ["the model covers the page-cache protocol of cache_get_page; the two file caches (mmap / read) are covered by the "
                          "monitor and the quiescent sums only",
                          "interleavings at instruction granularity, memory ordering and pthread itself are outside the model",
                          "the unlocked test of cache_entry_valid() after the lookup in cache_get_page is modelled as a read of a monotone flag",
                          "devmem.c keeps a private unlocked cache (live /dev/mem, not reachable with dump files)"]


def tsan_search(R, dumps):
    """ThreadSanitizer build of library + harness, free mode; a search aid.  Races that involve the
    cache bookkeeping (cache.c, entry state, lookup hints) are violations; races between two fill
    routines / a fill routine and a copy on the SAME page buffer (two threads that missed on the same
    page both fill it; every byte they write is the same) are listed in the evidence."""
    try:
        lib, cflags = R.build_lib(san=False, extra=["-fsanitize=thread", "-fno-omit-frame-pointer"], tag="libtsan")
        exe = R.build_harness("s_thr_tsan", ["s_thr.c"], lib=lib,
                              cflags=cflags + ["-ffunction-sections", "-fdata-sections", "-DS_THR_NO_MMAP_HOOK"],
                              ldflags=["-Wl,--gc-sections", WRAP])
    except kdf.CheckBroken as e:
        return "tsan build failed: %s" % str(e)[:200]
    BOOK = re.compile(r"^(cache_get_entry\w*|cache_insert|cache_discard|cache_put_entry|cache_entry_valid|cache_get_page|get_inflight_entry|"
                      r"reuse_\w+|evict_\w+|reclaim_data|get_missed_entry|get_ghost_or_missed_entry|add_entry_\w+|remove_entry|add_inflight|"
                      r"find_closest_\w+|fcache_get\w*|fcache_put\w*|_kdumpfile_priv_cache_\w+|_kdumpfile_priv_fcache_\w+)$")
    FILL = re.compile(r"^(inflate|_kdumpfile_priv_uncompress_page_gzip|uncompress_page_gzip|diskdump_read_page|elf_read_page|memcpy|memset|"
                      r"_kdumpfile_priv_read_locked|read_locked|_kdumpfile_priv_fcache_pread|snappy_uncompress|ZSTD_decompress)$")
    book, fill, other = collections.Counter(), collections.Counter(), collections.Counter()
    runs, failed = 0, []
    for name, n, cap in (("dd", 4, 4), ("dd", 4, 1), ("dd", 8, 7), ("elf", 4, 2), ("elf", 8, 8)):
        d = dumps[name]
        pool = d.pages[:5] + (d.straddle or [])
        ops = [(t, rd(d, R.rng.choice(pool))) for t in range(n) for _ in range(10)] + [(t, "pagemap 0 0") for t in range(n)]
        text = case_text(d, mode="free", nthreads=n, cache=cap, ops=ops, repeat=10)
        rc, out, err = run_case(R, exe, text, "tsan", timeout=300,
                                env={"TSAN_OPTIONS": "halt_on_error=0:report_signal_unsafe=0:history_size=4:exitcode=0"})
        runs += 1
        if "Z done" not in out:
            failed.append((err.strip().split("\n") or ["?"])[0][:200])
            continue
        for blk in err.split("WARNING: ThreadSanitizer: data race")[1:]:
            blk = blk.split("SUMMARY:")[0]
            stacks = re.split(r"\n\s*\n", blk)[:2]
            names = [f for st in stacks for f in re.findall(r"#\d+ (\S+) ", st)[:5] if not f.startswith("__wrap")]
            sig = " / ".join(dict.fromkeys(names[:1] + [f for f in names if BOOK.match(f) or FILL.match(f)][:3]))
            if any(BOOK.match(f) for f in names[:1]) or any(BOOK.match(f) for st in stacks for f in re.findall(r"#0 (\S+) ", st)):
                book[sig] += 1
            elif any(FILL.match(f) for f in names):
                fill[sig] += 1
            else:
                other[sig] += 1
    if book:
        R.violation("ThreadSanitizer: unsynchronised access to shared cache bookkeeping: %s" % dict(book),
                    dict(stream="thr", scenario="tsan", races=dict(book), how="build library and harness/s_thr.c with -fsanitize=thread, mode free"),
                    found_input=False)
    return dict(runs=runs, failed=failed, bookkeeping_races=dict(book), same_buffer_fill_races=dict(fill), other=dict(other))
