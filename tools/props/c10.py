"""C10 — a translation map behaves as a total function from addresses to methods."""
import itertools, bisect
import kdf

W = 1 << 64
THEOREMS = ["Kdf.Props.C10." + t for t in ("search_eq_den", "set_ok", "set_wf", "set_den", "set_nomem", "copy_eq", "copy_fail", "history", "set_status")]
LAYOUT_THEOREMS = ["Kdf.Props.C10." + t for t in ("layout_status", "layout_ok_map", "layout_ok_rev", "layout_ok_rev_some", "layout_no_fault")]
DIRECT, RDIRECT = 2, 5          # ADDRXLAT_SYS_METH_DIRECT, ADDRXLAT_SYS_METH_RDIRECT
OS_ARCHS = ["ppc64", "ia32", "x86_64", "s390x", "aarch64", "arm", "riscv64"]
PTS = [0, 1, 0x1000, (1 << 63) - 1, 1 << 63, W - 2, W - 1]
METHS = [-1, 0, 3]


class Ref:
    """Independent function view: sorted list of (start, meth), total on [0, W)."""
    def __init__(self, segs=None):
        self.segs = segs if segs is not None else [(0, -1)]
    def copy(self):
        return Ref(list(self.segs))
    def at(self, a):
        i = bisect.bisect_right(self.segs, (a, 1 << 70)) - 1
        return self.segs[i][1]
    def set(self, lo, hi, m):
        after = self.at(hi + 1) if hi + 1 < W else None
        segs = [s for s in self.segs if s[0] < lo or s[0] > hi + 1]
        keep = [s for s in segs if s[0] < lo]
        rest = [s for s in segs if s[0] > hi + 1]
        new = keep + [(lo, m)]
        if after is not None:
            new.append((hi + 1, after))
        new += rest
        self.segs = self.canon(new)
    @staticmethod
    def canon(segs):
        out = []
        for s in sorted(segs):
            if out and out[-1][0] == s[0]:
                out[-1] = s
            elif out and out[-1][1] == s[1]:
                continue
            else:
                out.append(s)
        return out


def parse_map(tokens):
    n = int(tokens[0])
    rs = []
    for t in tokens[1:1 + n]:
        e, m = t.rsplit(":", 1)
        rs.append((int(e), int(m)))
    return rs


def view_of(ranges):
    """Function view of an exposed range list, or an error string."""
    if not ranges:
        return Ref.canon([(0, -1)]), None
    segs, start = [], 0
    for e, m in ranges:
        if start >= W:
            return None, "range list extends beyond the top of the address space"
        segs.append((start, m))
        start += e + 1
    if start != W:
        return None, "ranges do not tile [0,2^64): they end at %#x" % start
    return Ref.canon(segs), None


def gen(R):
    """Returns list of op-sequences; each op is a tuple."""
    seqs = []
    ranges = [(a, b) for a in PTS for b in PTS if a <= b]
    ops = [(a, b - a, m) for (a, b) in ranges for m in METHS]
    # exhaustive pairs (and triples in the thorough tier / sampled in quick)
    for o1, o2 in itertools.product(ops, repeat=2):
        seqs.append([("set", 0) + o1, ("set", 0) + o2])
    if R.tier == "thorough":
        trip = list(itertools.product(ops, repeat=3))
        R.rng.shuffle(trip)
        for t in trip[:120000]:
            seqs.append([("set", 0) + o for o in t])
    else:
        for _ in range(3000):
            seqs.append([("set", 0) + R.rng.choice(ops) for _ in range(3)])
    # random boundary-biased histories with copies
    nrand = 1500 if R.tier == "quick" else 40000
    for _ in range(nrand):
        seq = []
        bounds = {0: [0, W - 1], 1: [0, W - 1], 2: [0, W - 1], 3: [0, W - 1]}
        for _ in range(R.rng.randint(3, 40)):
            k = R.rng.random()
            mid = R.rng.randrange(2) if k < 0.9 else R.rng.randrange(4)
            if k < 0.8:
                def pick():
                    b = R.rng.choice(bounds[mid])
                    c = R.rng.random()
                    v = b + R.rng.choice([-1, 0, 0, 1]) if c < 0.75 else (R.rng.getrandbits(64) if c < 0.9 else R.rng.getrandbits(R.rng.randint(1, 63)))
                    return min(max(v, 0), W - 1)
                a, b = sorted((pick(), pick()))
                m = R.rng.choice([-1, -1, 0, 1, 2, 3, 7])
                seq.append(("set", mid, a, b - a, m))
                bounds[mid] += [a, b]
            elif k < 0.84:
                seq.append(("reinst", mid))
            elif k < 0.92:
                dst = R.rng.randrange(4)
                seq.append(("copy", mid, dst))
                if dst != mid:
                    bounds[dst] = list(bounds[mid])
            else:
                seq.append(("new", mid))
                bounds[mid] = [0, W - 1]
        seqs.append(seq)
    return seqs


def to_lines(seq, R, probes):
    """Expand a sequence into protocol lines: every set is first tried with the
    allocation failing, then for real; searches at all boundaries±1 follow."""
    lines = []
    for op in seq:
        if op[0] == "set":
            _, mid, a, e, m = op
            lines.append("set %d %d %d %d 0" % (mid, a, e, m))
            lines.append("set %d %d %d %d 1" % (mid, a, e, m))
            for p in sorted({x for x in (a - 1, a, a + e, a + e + 1, 0, W - 1) if 0 <= x < W}):
                lines.append("search %d %d" % (mid, p))
        elif op[0] == "copy":
            _, s, d = op
            lines.append("copy %d %d 0 1" % (s, d))
            lines.append("copy %d %d 1 0" % (s, d))
            lines.append("copy %d %d 1 1" % (s, d))
        elif op[0] == "new":
            lines.append("new %d" % op[1])
        elif op[0] == "reinst":
            lines.append("reinst %d" % op[1])
            lines.append("search %d %d" % (op[1], W - 1))
    return lines


def check_property(lines, outs):
    """Evaluate the property's executable statement on an observation stream
    (of the implementation).  Returns (index, message) of the first failure."""
    refs = [Ref() for _ in range(4)]
    lastmap = [[] for _ in range(4)]
    started = [False] * 4
    for i, (ln, o) in enumerate(zip(lines, outs)):
        w = ln.split()
        t = o.split()
        if w[0] == "new":
            mid = int(w[1]); refs[mid] = Ref(); lastmap[mid] = []; started[mid] = False
        elif w[0] == "set":
            mid, a, e, m, ok = int(w[1]), int(w[2]), int(w[3]), int(w[4]), w[5] == "1"
            if t[0] not in ("ok", "nomem"):
                return i, "set returned status %s" % t[0]
            ranges = parse_map(t[1:])
            if t[0] == "nomem":
                if ok:
                    return i, "set failed with nomem although the allocation succeeded"
                if ranges != lastmap[mid]:
                    return i, "map changed by a set that failed for lack of memory: %s -> %s" % (lastmap[mid], ranges)
                continue
            # status ok (allowed also with ok=False when no allocation was needed)
            refs[mid].set(a, a + e, m)
            started[mid] = True
            view, err = view_of(ranges)
            if err:
                return i, err
            if view != refs[mid].segs:
                return i, "function view after set(%#x..%#x -> %d) is %s, expected %s" % (a, a + e, m, fmt(view), fmt(refs[mid].segs))
            lastmap[mid] = ranges
        elif w[0] == "reinst":
            mid = int(w[1])
            if t[0] != "ok" or parse_map(t[1:]) != lastmap[mid]:
                return i, "map changed by being installed in a translation system and taken back: %s -> %s" % (lastmap[mid], o)
        elif w[0] == "search":
            mid, a = int(w[1]), int(w[2])
            if int(t[0]) != refs[mid].at(a):
                return i, "search(%#x) = %s, function value is %d" % (a, t[0], refs[mid].at(a))
        elif w[0] == "copy":
            s, d, a1, a2 = int(w[1]), int(w[2]), w[3] == "1", w[4] == "1"
            if t[0] != "copy":
                return i, "bad copy output"
            if t[1] == "null":
                if a1 and a2:
                    return i, "copy failed although allocations succeeded"
                continue
            ranges = parse_map(t[2:])
            if ranges != lastmap[s]:
                return i, "copy differs from its source: %s vs %s" % (ranges, lastmap[s])
            refs[d] = refs[s].copy(); lastmap[d] = list(ranges); started[d] = started[s]
    return None, None


# ----------------------------------------------------------------------------- layout tables (sys_set_layout)
def gen_layouts(R):
    """cases: (prior table or None, table); a table is a list of (first, last, meth, direct)"""
    rng = R.rng
    def table():
        pts = [0, W - 1]
        out = []
        for _ in range(rng.choice([1, 1, 2, 2, 3, 4, 6])):
            def pick():
                b = rng.choice(pts)
                c = rng.random()
                v = b + rng.choice([-1, 0, 0, 1]) if c < 0.6 else (rng.getrandbits(64) if c < 0.8 else rng.getrandbits(rng.randint(1, 63)))
                return min(max(v, 0), W - 1)
            a, b = sorted((pick(), pick()))
            d = rng.random() < 0.4
            out.append((a, b, DIRECT if d else rng.choice([-1, 0, 1, 3, 4, DIRECT]), 1 if d else 0))
            pts += [a, b]
        return out
    # the shapes of the OS layouts: one direct region at the bottom / in the middle / at the top of the address space
    fixed = [[(0xc000000000000000, 0xcfffffffffffffff, DIRECT, 1), (0xd000000000000000, 0xd00007ffffffffff, 0, 0)],
             [(0, 0xffff, DIRECT, 1)], [(W - 0x10000, W - 1, DIRECT, 1)], [(0, W - 1, DIRECT, 1)],
             [(0x1000, 0x1fff, DIRECT, 1), (0x1000, 0x1fff, DIRECT, 1)],
             [(0x1000, 0x1fff, DIRECT, 1), (0x800, 0x2fff, DIRECT, 1), (0x10, 0x20, DIRECT, 1)]]
    cases = [(None, t) for t in fixed] + [(fixed[1], t) for t in fixed]
    for _ in range(150 if R.tier == "quick" else 4000):
        cases.append((table() if rng.random() < 0.5 else None, table()))
    return cases


def layout_lines(cases):
    """every table is applied with no fault and with the k-th allocation failing for every k up to the largest
    number of allocations the call can make (map object + per region: reverse map object, its assignment, the
    assignment itself)"""
    lines, owner = [], []
    fmt_t = lambda t: "%d %s" % (len(t), " ".join("%d %d %d %d" % g for g in t))
    for ci, (prior, t) in enumerate(cases):
        for k in range(0, 3 + 3 * len(t)):
            ls = ["lnew"] + (["layout 0 " + fmt_t(prior)] if prior else []) + ["layout %d %s" % (k, fmt_t(t))]
            lines += ls
            owner += [ci] * len(ls)
    return lines, owner


def parse_slots(o):
    """'<status> M <slot> R <slot>' -> status, map ranges | None, rev ranges | None"""
    t = o.split()
    i, j = t.index("M"), t.index("R")
    slot = lambda x: None if x == ["null"] else parse_map(x)
    return t[0], slot(t[i + 1:j]), slot(t[j + 1:])


def check_layouts(lines, outs):
    mref = rref = None
    for i, (ln, o) in enumerate(zip(lines, outs)):
        w = ln.split()
        if w[0] == "lnew":
            mref, rref = Ref(), Ref()
            if o != "ok":
                return i, "bad lnew output"
            continue
        k, n = int(w[1]), int(w[2])
        regs = [tuple(int(x) for x in w[3 + 4 * j:7 + 4 * j]) for j in range(n)]
        try:
            st, mr, rr = parse_slots(o)
        except ValueError:
            return i, "bad layout output '%s'" % o[:100]
        mv, e1 = view_of(mr or [])
        rv, e2 = view_of(rr or [])
        if e1 or e2:
            return i, "after a layout table: " + (e1 or e2)
        # the states the two maps go through
        states = [(list(mref.segs), list(rref.segs))]
        for (a, b, m, d) in regs:
            if d:
                rref.set(0, b - a, RDIRECT)
                states.append((list(mref.segs), list(rref.segs)))   # reverse map assigned, region not yet
            mref.set(a, b, m)
            states.append((list(mref.segs), list(rref.segs)))
        tab = ", ".join("[%#x..%#x -> %d%s]" % (a, b, m, " direct" if d else "") for a, b, m, d in regs)
        if st == "ok":
            if mr is None:
                return i, "layout table {%s} reported success but the map was not created" % tab
            if mv != states[-1][0]:
                return i, "layout table {%s} (allocation %d failing) reported success; the map is %s, the table describes %s" % (tab, k, fmt(mv), fmt(states[-1][0]))
            if rv != states[-1][1]:
                return i, ("layout table {%s} (allocation %d failing) reported success; the reverse direct map is %s (%s), the table describes %s"
                           % (tab, k, fmt(rv), "no map" if rr is None else "%d ranges" % len(rr), fmt(states[-1][1])))
        elif st == "nomem":
            if k == 0:
                return i, "layout table {%s} failed with nomem although every allocation succeeded" % tab
            if (mv, rv) not in states[:-1]:
                return i, "layout table {%s} failed (allocation %d): maps %s / %s are not a state between two assignments" % (tab, k, fmt(mv), fmt(rv))
            mref, rref = Ref(mv), Ref(rv)
        else:
            return i, "layout table {%s} returned status %s" % (tab, st)
    return None, None


def check_osinit(lines, outs):
    """addrxlat_sys_os_init with the k-th allocation failing: the call fails, or all maps are those of the
    undisturbed run"""
    ref, n = {}, 0
    for i, (ln, o) in enumerate(zip(lines, outs)):
        _, arch, k = ln.split()
        t = o.split(" |")
        head = t[0].split()
        if head[0] != "osinit":
            return i, "bad osinit output '%s'" % o[:100], n
        st, maps = int(head[1]), t[1:]
        if int(k) == 0:
            ref[arch] = (st, maps, int(head[3]))
            continue
        if ref[arch][0] != 0 or int(k) > ref[arch][2]:
            continue
        n += 1
        if st == 0 and maps != ref[arch][1]:
            names = ["HW", "KV_PHYS", "KPHYS_DIRECT", "MACHPHYS_KPHYS", "KPHYS_MACHPHYS"]
            bad = [j for j in range(len(maps)) if maps[j] != ref[arch][1][j]]
            return i, ("addrxlat_sys_os_init(arch=%s, os_type=linux) with allocation %d of %d failing returned OK, but map %s is '%s'; "
                       "without the failure it is '%s'" % (arch, int(k), ref[arch][2], names[bad[0]] if bad[0] < 5 else bad[0],
                                                           maps[bad[0]].strip(), ref[arch][1][bad[0]].strip())), n
    return None, None, n


SLOT_NAMES = ["HW", "KV_PHYS", "KPHYS_DIRECT", "MACHPHYS_KPHYS", "KPHYS_MACHPHYS"]
OSMOD_CFG = {"s390x": [(42, 1), (31, 1), (53, 1), (64, 1), (0, 0)]}     # (virt_bits, rootpgt given); default: [(0, 0), (0, 1)]


def gen_osmod(R):
    """The maps a translation system gets from addrxlat_sys_os_init (a client of addrxlat_map_copy: s390x, arm,
    aarch64, riscv64 and x86_64 derive KV_PHYS from the HW map) are independent objects: a range assignment by the
    caller on the map of one slot changes that map on exactly that range and no other map of the system."""
    rng, lines = R.rng, []
    for arch in OS_ARCHS:
        for vb, rp in OSMOD_CFG.get(arch, [(0, 0), (0, 1)]):
            for slot in range(5):
                for _ in range(1 if R.tier == "quick" else 6):
                    k = rng.random()
                    if k < 0.4:
                        lo = rng.choice([0, 0x1000, 1 << 31, 1 << 41, 1 << 47])
                        hi = lo + rng.choice([0, 0xfff, (1 << 30) - 1])
                    else:
                        lo, hi = sorted((rng.getrandbits(rng.choice([16, 32, 42, 64])), rng.getrandbits(rng.choice([16, 32, 42, 64]))))
                    lines.append("osmod %s %d %d %d %d %d %d" % (arch, vb, rp, slot, lo, hi - lo, rng.choice([-1, DIRECT, RDIRECT, 0, 1])))
    return lines


def check_osmod(lines, outs):
    n = 0
    for i, (ln, o) in enumerate(zip(lines, outs)):
        f = ln.split()
        arch, slot, lo, eo, m = f[1], int(f[4]), int(f[5]), int(f[6]), int(f[7])
        halves = o.split(" # ")
        if len(halves) != 2 or not o.startswith("osmod "):
            return i, "bad osmod output '%s'" % o[:100], n
        before = [x.strip() for x in halves[0].split(" |")[1:]]
        st2 = int(halves[1].split(" |")[0])
        after = [x.strip() for x in halves[1].split(" |")[1:]]
        if before[slot] == "null":
            continue
        n += 1
        what = ("addrxlat_sys_os_init(%s) then addrxlat_map_set(map of slot %s, %#x..%#x -> %d)"
                % (" ".join(f[1:4]), SLOT_NAMES[slot], lo, lo + eo, m))
        for j in range(len(before)):
            if j != slot and after[j] != before[j]:
                return i, ("%s changed the map of slot %s, which was not assigned to: '%s' -> '%s' (the maps of a translation "
                           "system are independent copies)" % (what, SLOT_NAMES[j], before[j], after[j])), n
        if st2 != 0:
            if after[slot] != before[slot]:
                return i, "%s failed with status %d and changed the map: '%s' -> '%s'" % (what, st2, before[slot], after[slot]), n
            continue
        bv, e1 = view_of(parse_map(before[slot].split()))
        av, e2 = view_of(parse_map(after[slot].split()))
        if e2 and not e1:
            return i, "%s: %s ('%s')" % (what, e2, after[slot]), n
        if e1 or e2:
            continue
        ref = Ref(bv); ref.set(lo, lo + eo, m)
        if av != ref.segs:
            return i, "%s: the map is %s, expected %s (before: %s)" % (what, fmt(av), fmt(ref.segs), fmt(bv)), n
    return None, None, n


def fmt(segs):
    return "[" + ", ".join("%#x:%d" % s for s in segs) + "]"


def run(R):
    facts, changed = R.extract()
    proof = R.prove(["Kdf.Props.C10"], THEOREMS + LAYOUT_THEOREMS)
    seqs = gen(R)
    lines, owner = [], []
    for si, s in enumerate(seqs):
        ls = ["new 0", "new 1", "new 2", "new 3"] + to_lines(s, R, None)
        lines += ls
        owner += [si] * len(ls)
    text = "\n".join(lines) + "\n"
    exe = R.build_harness("s_map", ["s_map.c"], ldflags=[kdf.ALLOC_WRAP])
    rc, out, err = R.run_harness(exe, stdin_text=text)
    impl = kdf.obs(out)
    model = kdf.obs(R.run_driver("map", text))
    crashed = rc != 0 or len(impl) != len(lines)
    mism = kdf.diff_streams(impl, model)
    idx, msg = check_property(lines, impl)
    if idx is None and crashed:
        idx, msg = len(impl), "harness stopped (rc=%s): %s" % (rc, err.strip().split("\n")[0] if err.strip() else "")
    # ---- layout tables: sys_set_layout with every allocation failing in turn (implementation and model), and the
    #      real OS layouts through addrxlat_sys_os_init (implementation only)
    lcases = gen_layouts(R)
    llines, lowner = layout_lines(lcases)
    ltext = "\n".join(llines) + "\n"
    lrc, lout, lerr = R.run_harness(exe, stdin_text=ltext)
    limpl = kdf.obs(lout)
    lmodel = kdf.obs(R.run_driver("map", ltext))
    lidx, lmsg = check_layouts(llines, limpl)
    if lidx is None and (lrc != 0 or len(limpl) != len(llines)):
        lidx, lmsg = len(limpl), "harness stopped in a layout table (rc=%s): %s" % (lrc, lerr.strip().split("\n")[0] if lerr.strip() else "")
    lmism = kdf.diff_streams(limpl, lmodel)
    olines = ["osinit %s %d" % (a, k) for a in OS_ARCHS for k in range(0, 41)]
    orc, oout, oerr = R.run_harness(exe, stdin_text="\n".join(olines) + "\n")
    oimpl = kdf.obs(oout)
    oidx, omsg, on = check_osinit(olines, oimpl)
    if oidx is None and (orc != 0 or len(oimpl) != len(olines)):
        oidx, omsg = len(oimpl), "harness stopped in osinit (rc=%s): %s" % (orc, oerr.strip().split("\n")[0] if oerr.strip() else "")
    mlines = gen_osmod(R)
    mrc, mout, merr = R.run_harness(exe, stdin_text="\n".join(mlines) + "\n")
    mimpl = kdf.obs(mout)
    midx, mmsg, mn = check_osmod(mlines, mimpl)
    if midx is None and (mrc != 0 or len(mimpl) != len(mlines)):
        midx, mmsg = len(mimpl), "harness stopped in osmod (rc=%s): %s" % (mrc, merr.strip().split("\n")[0] if merr.strip() else "")
    if midx is not None:
        R.violation(mmsg, dict(stream="map (implementation only)", input=mlines[min(midx, len(mlines) - 1)] + "\n",
                               impl_output=mimpl[midx] if midx < len(mimpl) else None, stderr=merr[-1500:]))
    if lidx is not None:
        ci = lowner[min(lidx, len(lowner) - 1)]
        first = max(j for j in range(min(lidx, len(llines) - 1) + 1) if llines[j] == "lnew")
        R.violation(lmsg, dict(stream="map", layout_case=lcases[ci], input="\n".join(llines[first:lidx + 1]) + "\n",
                               failing_line=llines[lidx] if lidx < len(llines) else None, impl_output=limpl[first:lidx + 1],
                               model_output=lmodel[first:lidx + 1], stderr=lerr[-1500:], broken_theorems=proof["broken"]))
    if oidx is not None:
        R.violation(omsg, dict(stream="map (implementation only)", input=olines[min(oidx, len(olines) - 1)] + "\n",
                               reference_input=olines[min(oidx, len(olines) - 1)].rsplit(" ", 1)[0] + " 0\n",
                               impl_output=oimpl[oidx] if oidx < len(oimpl) else None, stderr=oerr[-1500:]))
    if lidx is None and oidx is None and idx is None and lmism is not None and not proof["broken"] and mism is None:
        R.violation("correspondence broken on a layout table: first differing line %d '%s'" % (lmism, llines[min(lmism, len(llines) - 1)]),
                    dict(stream="map", first_diff=dict(index=lmism, line=llines[min(lmism, len(llines) - 1)],
                                                       impl=limpl[lmism] if lmism < len(limpl) else None,
                                                       model=lmodel[lmism] if lmism < len(lmodel) else None)),
                    found_input=False)
    if idx is not None:
        si = owner[min(idx, len(owner) - 1)]
        first = owner.index(si)
        R.violation(msg, dict(stream="map", sequence=seqs[si], input="\n".join(lines[first:idx + 1]) + "\n",
                             failing_line=lines[idx] if idx < len(lines) else None,
                             impl_output=impl[first:idx + 1], stderr=err[-1500:], broken_theorems=proof["broken"]))
    elif proof["broken"] or mism is not None:
        si = owner[mism] if mism is not None else None
        R.violation("proof obligation or correspondence broken: theorems %s; first differing line %s" % (proof["broken"], mism),
                    dict(stream="map", broken_theorems=proof["broken"], lean_log=proof["log"][-1500:],
                         first_diff=None if mism is None else dict(index=mism, line=lines[mism], impl=impl[mism] if mism < len(impl) else None,
                                                                   model=model[mism] if mism < len(model) else None,
                                                                   sequence=seqs[si])),
                    found_input=False)
    # coverage accounting
    kinds = {}
    nontriv = set()
    for ln, o in zip(lines, impl):
        if ln.startswith("set"):
            t = o.split()
            k = t[0] + "/n=%s" % min(int(t[1]), 6)
            kinds[k] = kinds.get(k, 0) + 1
    for s in seqs:
        if sum(1 for o in s if o[0] == "set") >= 2:
            nontriv.add(tuple(s))
    cov = dict(obligations=max(proof["obligations"], 1), discharged=proof["discharged"],
               checker_cmd="cd lean && lake build Kdf.Props.C10 && #print axioms on each theorem",
               trusted_base=["Lean 4 kernel", "axioms: " + ", ".join(sorted({a for v in proof["axioms"].values() for a in v}) or ["none"]),
                             "realloc modelled as succeed/fail preserving content", "harness/s_map.c + gcc + ASan/UBSan"],
               broken_theorems=proof["broken"], theorems=THEOREMS + LAYOUT_THEOREMS,
               evaluations=len(lines) + len(llines) + on + mn, distinct_nontrivial=len(nontriv) + len(lcases),
               layout_cases=len(lcases), layout_lines=len(llines), osinit_fault_runs=on, osinit_independence_runs=mn, layout_correspondence_first_diff=lmism,
               rule="op sequences over 4 maps: exhaustive pairs (sampled/exhaustive-shuffled triples) of sets with endpoints in the 7-point "
                    "breakpoint set x 3 methods, random boundary-biased histories of <=40 ops with copies; every set is run first with realloc "
                    "failing, then succeeding, followed by searches at all boundaries +-1; layout tables (sys_set_layout: 1-6 regions, "
                    "direct regions that also fill the reverse direct map, on empty slots or after a prior table) with no fault and with the k-th "
                    "allocation failing for every k; addrxlat_sys_os_init(arch, linux) for 7 architectures with every allocation failing in turn; "
                    "non-trivial = distinct sequences with >=2 sets, and layout cases",
               traces_validated_against_impl=len(impl) + len(limpl), correspondence_first_diff=mism, case_kinds=kinds,
               samples=[dict(sequence=seqs[i]) for i in (0, len(seqs) // 2, len(seqs) - 1)])
    return "proof", cov, ["no-wrap guard addr+endoff < 2^64 (wrapping ranges are outside the property)",
                          "realloc/malloc succeed or fail as scheduled and preserve content",
                          "addrxlat_sys_os_init under allocation failure is evaluated on the implementation only (its layout tables are "
                          "not modelled; sys_set_layout itself is: setLayout)",
                          "independence of the maps that addrxlat_sys_os_init leaves in a translation system (osmod: one caller "
                          "assignment on one slot, every other slot unchanged, the assigned slot = Ref.set) is evaluated on the "
                          "implementation only; the assignment itself is the modelled Map.set (set_den)"]
