"""C11 — flattened and split packaging do not change what a dump contains.

Three streams:
  flat   the real flatmap.c (flatmap_init, flatmap_pread_flat, flatmap_get_chunk_flat) on explicit record
         streams (any sizes/orders, overlapping rewrites, holes, empty and invalid streams), every read
         compared with the rearranged file computed in Python and with the Lean model;
  split  diskdump_read_page's descriptor lookup (file index, position) on split sets passed in any order
         with plain/flattened members, compared with the window that contains the frame and with the model;
  pack   the public API (harness/s_fmt.c): a plain single-file dump against its flattened variants and its
         split sets: attribute tree, both page maps, every page and cross-page reads must be identical.
"""
import os, struct
import kdf, dumpgen

THEOREMS = ["Kdf.Props.C11.pread_flat_rearranged", "Kdf.Props.C11.get_chunk_rearranged",
            "Kdf.Props.C11.scan_accepts", "Kdf.Props.C11.scan_terminates",
            "Kdf.Props.C11.hole_reads_zero", "Kdf.Props.C11.last_record_wins", "Kdf.Props.C11.other_record_keeps",
            "Kdf.Props.C11.split_order_irrelevant", "Kdf.Props.C11.split_selects_window",
            "Kdf.Props.C11.split_uncovered_excluded", "Kdf.Props.C11.zero_excluded_only_excluded", "Kdf.Props.C11.scanE_ok_scan", "Kdf.Props.C11.scanE_eq_scan_of_no_eof", "Kdf.Props.C11.scanE_eof_refused"]
PS = 4096
WRAP = "-Wl,--wrap=_kdumpfile_priv_fcache_pread,--wrap=_kdumpfile_priv_flatmap_pread_flat"
VOLATILE = ("file.set.", "file.fd", "file.description", "file.mmap_cache.", "file.read_cache.", "cache.hits", "cache.misses")


# ------------------------------------------------------------------------------------------ stream `flat`
def rand_records(rng, kind):
    """explicit record list [(pos, data)] over a small rearranged space"""
    recs = []
    if kind == "empty":
        return recs
    n = {"few": rng.randint(1, 4), "many": rng.randint(33, 70), "mid": rng.randint(5, 14), "far": rng.randint(2, 5)}[kind]
    base = 0 if kind != "far" else rng.choice([1 << 32, (1 << 40) + 7, (1 << 62) - 500])
    span = 60 * n if kind == "many" else 700
    p = rng.randint(0, 40)
    for _ in range(n):
        mode = rng.random()
        size = rng.choice([1, 1, 2, 3, 16, 17, 24, 100, rng.randint(1, 200)])
        if mode < 0.35 and recs:               # adjacent to the previous one
            pos = recs[-1][0] + len(recs[-1][1])
        elif mode < 0.6 and recs:              # overlapping / nested / identical rewrite
            q, d = rng.choice(recs)
            pos = max(base, q + rng.randint(-size, len(d)))
            if rng.random() < 0.2:
                pos, size = q, len(d)
        elif mode < 0.8:
            pos = base + p + rng.randint(1, 60)  # leaves a hole
        else:
            pos = base + rng.randrange(span)
        data = bytes(rng.getrandbits(8) | (1 if rng.random() < 0.9 else 0) for _ in range(size))
        recs.append((pos, data))
        p = max(p, pos - base + size)
    return recs


def flat_queries(rng, recs, thorough):
    bounds = sorted({0} | {p for p, _ in recs} | {p + len(d) for p, d in recs})
    qs = set()
    for i, b in enumerate(bounds):
        nxt = bounds[i + 1:i + 4]
        for pos in (b - 2, b - 1, b, b + 1):
            if pos < 0:
                continue
            lens = {0, 1, 2, 3}
            for x in nxt:
                lens |= {x - pos - 1, x - pos, x - pos + 1}
            lens.add(rng.randint(1, 300))
            for ln in lens:
                if 0 <= ln <= 5000:
                    qs.add((pos, ln))
    qs = sorted(qs)
    cap = 900 if thorough else 160
    if len(qs) > cap:
        qs = rng.sample(qs, cap)
    return qs


def parse_expect(blob):
    """independent reading of the flattened format: ('plain'|'notimpl'|'corrupt'|'ok', records)"""
    def at(p, n):
        return blob[p:p + n].ljust(n, b"\0")
    if at(0, 16) != b"makedumpfile".ljust(16, b"\0"):
        return "plain", None
    if struct.unpack(">qq", at(16, 16)) != (1, 1):
        return "notimpl", None
    p, recs = 4096, []
    while True:
        # a regular file has an end: a record header in a 4096-byte block wholly behind it cannot be read (block 0 excepted)
        b = (p + 15) // 4096 * 4096
        if b > 0 and b >= len(blob):
            return "eof", None
        off, size = struct.unpack(">qq", at(p, 16))
        if off == -1:
            return "ok", recs
        if off < 0 or size <= 0:
            return "corrupt", None
        recs.append((off, at(p + 16, size)))
        p += 16 + size


def gen_flat(R):
    rng, thorough = R.rng, R.tier != "quick"
    ncase = 2000 if thorough else 160
    cases = []
    kinds = ["few", "mid", "mid", "many", "far", "empty", "mid", "few"]
    for k in range(ncase):
        kind = kinds[k % len(kinds)]
        path = R.path("c11-flat-%d.flat" % k)
        recs = rand_records(rng, kind)
        bad = None
        if k % 9 == 8:
            bad = ["zerosize", "negoff", "negsize", "noend", "type", "version", "sig"][(k // 9) % 7]
        kw = {}
        wrecs = list(recs)
        if bad == "negoff":
            wrecs.insert(rng.randint(0, len(wrecs)), (-2 - rng.randrange(1000), b"xy"))
        elif bad == "zerosize":
            wrecs.insert(rng.randint(0, len(wrecs)), (5, 0, b""))
        elif bad == "negsize":
            wrecs.insert(rng.randint(0, len(wrecs)), (5, -3, b""))
        elif bad == "noend":
            kw["end"] = False
        elif bad == "type":
            kw["ftype"] = rng.choice([0, 2, 1 << 40])
        elif bad == "version":
            kw["version"] = rng.choice([0, 2])
        elif bad == "sig":
            kw["sig"] = b"makedumpfilf"
        if bad is None and rng.random() < 0.3:
            kw["trailing"] = bytes(rng.getrandbits(8) for _ in range(rng.randint(1, 40)))
        dumpgen.write_flat_records(path, wrecs, **kw)
        st, precs = parse_expect(open(path, "rb").read())
        cases.append(dict(path=path, recs=recs, kind=kind, bad=bad, status=st, parsed=precs,
                          queries=flat_queries(rng, recs, thorough) if st == "ok" else []))
    return cases


def slice_of(recs, pos, ln):
    """bytes [pos, pos+ln) of the rearranged file (sparse: offsets may be huge)"""
    out = bytearray(ln)
    for p, d in recs:
        a, b = max(p, pos), min(p + len(d), pos + ln)
        if a < b:
            out[a - pos:b - pos] = d[a - p:b - p]
    return bytes(out)


# ------------------------------------------------------------------------------------------ layouts
def rand_runs(rng, top):
    s, p = set(), rng.randint(0, 5)
    while p < top:
        n = rng.choice([1, 1, 2, 3, 5, rng.randint(1, 9)])
        s |= set(range(p, min(p + n, top)))
        p += n + rng.choice([1, 1, 2, 7, rng.randint(1, 12)])
    return s


class DD:
    kind = "diskdump"

    def __init__(self, rng, idx):
        self.top = rng.choice([12, 20, 33, 48])
        self.file = rand_runs(rng, self.top)
        if not self.file:
            self.file = {1}
        self.mem = self.file | rand_runs(rng, self.top)
        self.version = rng.choice([6, 6, 3, 5])
        meths = ["raw", "raw", "zlib", "zlib-stored", "snappy", "zstd"]
        self.methods = {p: rng.choice(meths) for p in self.file}
        self.zero = set(p for p in self.file if self.methods[p] == "raw" and rng.random() < 0.25)
        self.vmci = b"OSRELEASE=5.4.0-verif\nPAGESIZE=4096\nSYMBOL(x)=ffffffff81000000\n" if self.version == 3 else None
        self.split_ok = self.version != 3       # VMCOREINFO of a version-3 dump is placed per file

    def write(self, path, split=None):
        info = dumpgen.write_diskdump(path, self.file, ps=PS, max_mapnr=self.top, ram=self.mem, version=self.version,
                                      split=split, methods=self.methods, vmcoreinfo=self.vmci)
        img = bytearray(open(path, "rb").read())
        mine = [p for p in sorted(self.file) if split is None or split[0] <= p < split[1]]
        for i, p in enumerate(mine):
            if p in self.zero:
                off, size = struct.unpack("<QI", img[info["pdoff"] + 24 * i:info["pdoff"] + 24 * i + 12])
                img[off:off + size] = bytes(size)
        open(path, "wb").write(img)
        cuts = {info["pdoff"] + 24 * i + d for i in range(len(mine)) for d in (0, 1)}
        for i in range(len(mine)):
            off, size = struct.unpack("<QI", img[info["pdoff"] + 24 * i:info["pdoff"] + 24 * i + 12])
            cuts |= {off, off + 1, off + size - 1, off + size}
        cuts |= {PS, PS + 1, 2 * PS, 2 * PS + 1, 3 * PS + 1}
        return bytes(img), cuts, info

    def restrict(self, cover, rng):
        """keep only the stored frames inside `cover` (the union of the windows of a split set that does not cover the frame space)"""
        self.file &= cover
        if not self.file:
            self.file = {min(cover)}
            self.mem |= self.file
        self.methods = {p: self.methods.get(p, "raw") for p in self.file}
        self.zero &= self.file

    def describe(self):
        return dict(kind=self.kind, top=self.top, file=sorted(self.file), mem=sorted(self.mem), version=self.version,
                    methods={str(k): v for k, v in sorted(self.methods.items())}, zero=sorted(self.zero))


class ELF:
    kind = "elf"
    split_ok = False

    def __init__(self, rng, idx):
        self.top = rng.choice([10, 16, 26])
        self.segs = []
        p = rng.randint(0, 3)
        while p < self.top:
            n = rng.randint(1, 5)
            self.segs.append(dict(pfn=p, npages=n, filepages=n if rng.random() < 0.8 else rng.randint(0, n), voff=0xffff880000000000))
            p += n + rng.choice([1, 2, 5])
        self.file = set()
        for s in self.segs:
            self.file |= set(range(s["pfn"], s["pfn"] + s["filepages"]))
        self.zero = set(p for p in self.file if rng.random() < 0.25)
        self.order = list(self.segs)
        rng.shuffle(self.order)

    def write(self, path, split=None):
        dumpgen.write_elf(path, self.order, ps=PS)
        img = bytearray(open(path, "rb").read())
        cuts = set()
        for p in sorted(self.file):
            off = img.find(dumpgen.page_bytes(p, PS))
            if off >= 0:
                cuts |= {off, off + 1, off + PS - 1, off + PS}
                if p in self.zero:
                    img[off:off + PS] = bytes(PS)
        open(path, "wb").write(img)
        return bytes(img), cuts, {}

    def describe(self):
        return dict(kind=self.kind, top=self.top, segs=self.order, zero=sorted(self.zero))


def flatten_variant(rng, img, cuts, path):
    cs = set(c for c in cuts if rng.random() < 0.5)
    cs |= {rng.randrange(1, len(img)) for _ in range(rng.randint(0, 6))}
    spec = dict(max_rec=rng.choice([700, 3000, 4096, 6000, 9000, 40000]), order=rng.choice(["fwd", "rev", "shuffle"]),
                holes=rng.random() < 0.8, stale=rng.choice([0, 1, 3]))
    recs = dumpgen.segment_image(img, rng, cuts=cs, **spec)
    dumpgen.write_flat_records(path, recs)
    spec["records"] = [(p, len(d)) for p, d in recs]
    return spec


def pack_commands(rng, L):
    top = L.top + 3
    cmds = ["tree"]
    for p in range(top):
        cmds.append("probe 1 %d %d" % (p * PS, PS))
    for _ in range(12):
        a = rng.randrange(top * PS)
        cmds.append("read 1 %d %d" % (a, rng.choice([1, 100, PS, PS + 1, 3 * PS])))
    for w in ("file", "mem"):
        for idx in rng.sample(range(top + 5), 8):
            cmds.append("fset %s %d" % (w, idx)); cmds.append("fclr %s %d" % (w, idx))
        for _ in range(8):
            a = rng.randrange(top); b = rng.randint(a, top + 9)
            cmds.append("bits %s %d %d" % (w, a, b))
    if L.kind == "elf":
        for s in L.segs[:3]:
            if s["filepages"]:
                cmds.append("probe 2 %d %d" % ((s["pfn"] * PS + s["voff"]) % (1 << 64), PS))
    # excluded frames delivered as zeroes (file.zero_excluded): every frame again, reads across stored/excluded frames
    cmds.append("setnum file.zero_excluded 1")
    for p in sorted(rng.sample(range(top), 8)) + [top - 4, top - 3]:
        cmds.append("probe 1 %d %d" % (p * PS, PS))
    for _ in range(3):
        a = rng.randrange(top * PS)
        cmds.append("read 1 %d %d" % (a, rng.choice([1, PS, PS + 1, 3 * PS])))
    cmds.append("tree")
    return cmds


def canon(line):
    if line.startswith("tree "):
        items = [x for x in line[5:].split("|") if x and not x.startswith(VOLATILE)]
        return "tree " + "|".join(sorted(items))
    return line


def gen_pack(R):
    rng, thorough = R.rng, R.tier != "quick"
    nlay = 900 if thorough else 60
    layouts = []
    for li in range(nlay):
        L = (DD if li % 3 != 2 else ELF)(rng, li)
        gapwin = None
        if L.split_ok and rng.random() < 0.4:
            # a split set whose windows do not cover the frame space: the last window ends before max_mapnr, the first one
            # starts behind frame 0, windows are not adjacent (its plain twin stores no frame outside the windows)
            nsplit = rng.choice([2, 2, 3, 4])
            hi = rng.choice([L.top, L.top, max(2 * nsplit, L.top // 2)])
            pts = sorted(rng.sample(range(0, hi + 1), 2 * nsplit))
            if rng.random() < 0.5:
                pts[0] = 0
            gapwin = [(pts[2 * i], pts[2 * i + 1]) for i in range(nsplit)]
            L.restrict({p for a, b in gapwin for p in range(a, b)}, rng)
        twin = R.path("c11-%d-twin.dump" % li)
        img, cuts, info = L.write(twin)
        variants = []
        for v in range(2 if not thorough else 3):
            p = R.path("c11-%d-f%d.flat" % (li, v))
            spec = flatten_variant(rng, img, cuts, p)
            variants.append(dict(kind="flattened", paths=[p], spec=spec))
        if L.split_ok:
            for v in range(2):
                nsplit = rng.choice([2, 3, 4])
                cs = sorted(rng.sample(range(1, L.top), nsplit - 1))
                windows = list(zip([0] + cs, cs + [L.top]))
                if gapwin:
                    windows, nsplit = list(gapwin), len(gapwin)
                paths, specs, members = [], [], []
                for k, (a, b) in enumerate(windows):
                    p = R.path("c11-%d-s%d-%d.dump" % (li, v, k))
                    simg, scuts, sinfo = L.write(p, split=(a, b))
                    spec = None
                    if rng.random() < 0.5:
                        fp = p + ".flat"
                        spec = flatten_variant(rng, simg, scuts, fp)
                        p = fp
                    paths.append(p); specs.append(spec)
                    bm = bytearray((L.top + 7) // 8)
                    for x in L.file:
                        bm[x >> 3] |= 1 << (x & 7)
                    members.append(dict(window=(a, b), bitmap=bytes(bm).hex(), pdoff=sinfo["pdoff"],
                                        pages=[x for x in sorted(L.file) if a <= x < b]))
                order = list(range(nsplit))
                rng.shuffle(order)
                if v == 1 and order == sorted(order):
                    order.reverse()
                variants.append(dict(kind="split", paths=[paths[i] for i in order], order=order, windows=windows,
                                     flattened=[specs[i] is not None for i in order], specs=[specs[i] for i in order],
                                     members=[members[i] for i in order]))
        layouts.append(dict(L=L, twin=twin, variants=variants, cmds=pack_commands(rng, L)))
    return layouts


# ------------------------------------------------------------------------------------------ the check
def run(R):
    proof = R.prove(["Kdf.Props.C11"], THEOREMS)
    rng = R.rng
    # record data sits at arbitrary alignment in a flattened file; the library casts chunk pointers to
    # header structs (elf_probe, ...): UBSan's alignment check would stop every such run although the
    # access is well-defined on this platform and not what C11 is about (see REPORT_C11.txt)
    lib, cflags = R.build_lib(extra=["-fno-sanitize=alignment"], tag="lib-c11")
    fails = []                 # (message, replay dict)

    # ---- streams flat + split: real internal functions vs Python oracle vs Lean model
    streams = os.environ.get("C11_STREAMS", "flat,split,pack").split(",")     # debugging aid: restrict the streams
    cases = gen_flat(R) if "flat" in streams else []
    layouts = gen_pack(R)
    lines, meta = [], []
    for ci, c in enumerate(cases):
        lines.append("fopen " + c["path"]); meta.append(("fopen", ci))
        for (pos, ln) in c["queries"]:
            lines.append("pread %d %d" % (pos, ln)); meta.append(("pread", ci, pos, ln))
            lines.append("chunk %d %d" % (pos, ln)); meta.append(("chunk", ci, pos, ln))
            lines.append("path %d %d" % (pos, ln)); meta.append(None)
    for li, lay in enumerate(layouts):
        L = lay["L"]
        for vi, v in enumerate(lay["variants"]):
            if v["kind"] != "split" or "split" not in streams:
                continue
            lines.append("split %d" % L.top); meta.append(None)
            for m in v["members"]:
                lines.append("sfile %d %d %d %s %d" % (m["window"][0], m["window"][1], L.top, m["bitmap"], m["pdoff"])); meta.append(None)
            lines.append("sopen %d %s" % (len(v["paths"]), " ".join(v["paths"]))); meta.append(("sopen", li, vi))
            for p in range(L.top + 3):
                lines.append("tprobe %d" % p); meta.append(("tprobe", li, vi, p))
            # (a fresh context: the frames read above sit in its page cache)
            lines.append("sopen %d %s" % (len(v["paths"]), " ".join(v["paths"]))); meta.append(("sopen", li, vi))
            lines.append("zx 1"); meta.append(None)
            for p in range(L.top + 3):
                lines.append("zprobe %d" % p); meta.append(("zprobe", li, vi, p))
    text = "\n".join(lines) + "\n"
    exe = R.build_harness("s_flat", ["s_flat.c"], lib=lib, cflags=cflags, ldflags=[WRAP])
    rc, out, err = R.run_harness(exe, stdin_text=text)
    impl = kdf.obs(out)
    drv_out = R.run_driver("flat", text)
    model_all = kdf.obs(drv_out)
    paths_taken = {}
    for l in drv_out.split("\n"):
        if l.startswith("# path"):
            paths_taken[l[7:]] = paths_taken.get(l[7:], 0) + 1
    obs_meta = [m for m in meta if m]
    model = [o for o in model_all if not o.startswith("sopen")]           # the model has no `sopen` line
    impl_cmp = [o for m, o in zip(obs_meta, impl) if m[0] != "sopen"]
    kinds = {}
    imgs = {}
    for i, m in enumerate(obs_meta):
        if i >= len(impl):
            first = (err.strip().split("\n") or [""])
            fails.append(("the harness stopped at '%s' (rc=%s): %s" % (" ".join(map(str, m)), rc, " / ".join(first[:3])[:400]),
                          replay_flat(cases, layouts, m, err)))
            break
        o = impl[i]
        if m[0] == "fopen":
            c = cases[m[1]]
            want = {"ok": "fopen ok flat", "plain": "fopen ok plain", "corrupt": "fopen corrupt -", "notimpl": "fopen notimpl -", "eof": "fopen eof -"}[c["status"]]
            kinds["fopen/" + c["status"]] = kinds.get("fopen/" + c["status"], 0) + 1
            if not o.startswith(want):
                fails.append(("flattened stream (%s%s) opened as '%s', the format says '%s'" % (c["kind"], "/" + c["bad"] if c["bad"] else "", o[:80], want),
                              replay_flat(cases, layouts, m, err)))
                break
            if c["status"] == "ok":
                imgs[m[1]] = c["parsed"]
        elif m[0] in ("pread", "chunk"):
            c = cases[m[1]]
            want = "%s ok %d" % (m[0], dumpgen.fnv(slice_of(imgs[m[1]], m[2], m[3])))
            kinds[m[0] + "/" + c["kind"]] = kinds.get(m[0] + "/" + c["kind"], 0) + 1
            if o != want:
                fails.append(("%s(pos=%d, len=%d) on a flattened stream with records %s answered '%s'; the rearranged file has %s there"
                              % (m[0], m[2], m[3], [(p, len(d)) for p, d in c["recs"]][:40], o, slice_of(imgs[m[1]], m[2], m[3])[:32].hex()),
                              replay_flat(cases, layouts, m, err)))
                break
        elif m[0] == "sopen":
            if o != "sopen ok":
                v = layouts[m[1]]["variants"][m[2]]
                fails.append(("split set %s in order %s does not open: %s" % (v["windows"], v["order"], o), replay_pack(layouts[m[1]], m[2], None, None, None)))
                break
        elif m[0] == "zprobe":
            lay = layouts[m[1]]; v = lay["variants"][m[2]]; p = m[3]
            want = "zprobe zero" if p < lay["L"].top else "zprobe nodata"
            covered = False
            for k, mem in enumerate(v["members"]):
                if mem["window"][0] <= p < mem["window"][1]:
                    covered = True
                    if p in lay["L"].file:
                        want = "zprobe pd=%d:%d" % (k, mem["pdoff"] + 24 * mem["pages"].index(p))
            kk = "zprobe/" + ("hit" if "pd=" in want else "oob" if "nodata" in want else "excluded" if covered else "outside-all-windows")
            kinds[kk] = kinds.get(kk, 0) + 1
            if o != want:
                fails.append(("frame %d of a split set (max_mapnr %d, windows %s passed in order %s) read with file.zero_excluded=1: the library answers '%s'; "
                              "the plain dump gives '%s' (descriptor of a stored frame, a page of zeroes for a frame without one, no data at or above max_mapnr)"
                              % (p, lay["L"].top, v["windows"], v["order"], o, want), replay_pack(lay, m[2], "zx 1; zprobe %d" % p, want, o, err)))
                break
        elif m[0] == "tprobe":
            lay = layouts[m[1]]; v = lay["variants"][m[2]]; p = m[3]
            want = "tprobe pd=-"
            for k, mem in enumerate(v["members"]):
                if mem["window"][0] <= p < mem["window"][1] and p in lay["L"].file:
                    want = "tprobe pd=%d:%d" % (k, mem["pdoff"] + 24 * mem["pages"].index(p))
            kinds["tprobe/" + ("hit" if want != "tprobe pd=-" else "miss")] = kinds.get("tprobe/" + ("hit" if want != "tprobe pd=-" else "miss"), 0) + 1
            if o != want:
                fails.append(("frame %d of a split set (windows %s passed in order %s): descriptor read from '%s', the window that contains the frame says '%s'"
                              % (p, v["windows"], v["order"], o, want), replay_pack(lay, m[2], "tprobe %d" % p, want, o)))
                break
    mism = None
    if not fails:
        mism = kdf.diff_streams(impl_cmp, model)

    # ---- stream pack: public API, twin vs variants
    exe2 = R.build_harness("s_fmt", ["s_fmt.c"], lib=lib, cflags=cflags)
    pack_eval = 0
    pack_kinds = {}
    for li, lay in enumerate(layouts):
        if fails or "pack" not in streams:
            break
        sets = [[lay["twin"]]] + [v["paths"] for v in lay["variants"]]
        text2 = ""
        for paths in sets:
            text2 += "open %d %s\n" % (len(paths), " ".join(paths)) + "\n".join(lay["cmds"]) + "\n"
        rc2, out2, err2 = R.run_harness(exe2, stdin_text=text2)
        o2 = [canon(x) for x in kdf.obs(out2)]
        per = 1 + len(lay["cmds"])
        ref = o2[:per]
        if len(ref) < per or not ref[0].startswith("open ok"):
            fails.append(("the plain %s twin cannot be used: %s %s" % (lay["L"].kind, ref[:1], err2[:300]), replay_pack(lay, None, None, None, None)))
            break
        for vi, v in enumerate(lay["variants"]):
            got = o2[per * (vi + 1):per * (vi + 2)]
            pack_kinds[v["kind"] + "/" + lay["L"].kind] = pack_kinds.get(v["kind"] + "/" + lay["L"].kind, 0) + 1
            for k in range(per):
                pack_eval += 1
                if k >= len(got):
                    first = (err2.strip().split("\n") or [""])
                    fails.append(("the %s variant of a %s dump stopped the harness at '%s' (rc=%s): %s" %
                                  (v["kind"], lay["L"].kind, (["open"] + lay["cmds"])[k], rc2, " / ".join(first[:3])[:400]),
                                  replay_pack(lay, vi, (["open"] + lay["cmds"])[k], ref[k], None, err2)))
                    break
                if got[k] != ref[k]:
                    cmd = (["open"] + lay["cmds"])[k]
                    fails.append(("%s variant of a %s dump differs from the plain single-file dump at '%s': plain '%s', variant '%s'" %
                                  (v["kind"] + (" (files in order %s, flattened members %s)" % (v["order"], v["flattened"]) if v["kind"] == "split" else ""),
                                   lay["L"].kind, cmd, short_diff(ref[k], got[k])[0], short_diff(ref[k], got[k])[1]),
                                  replay_pack(lay, vi, cmd, ref[k], got[k])))
                    break
            if fails:
                break

    # ---- split-file maps whose window ends lie far apart (> 2^31, 2^32, 2^63), in any order: sort and lookups of pfn.c
    import sys as _sys
    _sys.path.insert(0, os.path.dirname(os.path.abspath(__file__)))
    import c07
    ml, mw = c07.maps_stream(R, 120 if R.tier == "quick" else 3000)
    exe3 = R.build_harness("s_pfn", ["s_pfn.c"], lib=lib, cflags=cflags + ["-ffunction-sections", "-fdata-sections"], ldflags=["-Wl,--gc-sections"])
    rc3, out3, err3 = R.run_harness(exe3, stdin_text="\n".join(ml) + "\n")
    mimpl = [o.rstrip() for o in kdf.obs(out3)]
    mmodel = [o.rstrip() for o in kdf.obs(R.run_driver("pfn", "\n".join(ml) + "\n"))]
    if not fails:
        if rc3 != 0 or len(mimpl) != len(ml):
            k = min(len(mimpl), len(ml) - 1)
            fails.append(("split-map harness stopped after %d of %d (rc=%s) at '%s': %s" % (len(mimpl), len(ml), rc3, ml[k], err3.strip()[:300]),
                          dict(stream="pfn/maps", case=ml[k], stderr=err3[-1200:])))
        else:
            for l, o, w in zip(ml, mimpl, mw):
                if o != w:
                    fails.append(("split-file maps '%s' (start:end:region:count per file, in the order passed): the library answers '%s'; sorted window "
                                  "ends, next stored frame, next missing frame and page-map bits of the set are '%s'" % (l, o, w),
                                  dict(stream="pfn/maps", case=l, impl=o, want=w)))
                    break
    if mism is None and not fails:
        m3 = kdf.diff_streams(mimpl, mmodel)
        if m3 is not None:
            mism = len(impl_cmp) + m3
            impl_cmp = impl_cmp + mimpl; model = model + mmodel
            obs_meta = obs_meta + [("maps", l) for l in ml]

    if fails:
        msg, rep = fails[0]
        rep["broken_theorems"] = proof["broken"]
        R.violation(msg, rep)
    elif proof["broken"] or mism is not None:
        cmp_meta = [m for m in obs_meta if m[0] != "sopen"]
        R.violation("proof obligation or correspondence broken: theorems %s; first differing observation %s" % (proof["broken"], mism),
                    dict(stream="flat", broken_theorems=proof["broken"], lean_log=proof["log"][-1500:],
                         first_diff=None if mism is None else dict(index=mism, op=cmp_meta[mism] if mism < len(cmp_meta) else None,
                                                                   impl=impl_cmp[mism] if mism < len(impl_cmp) else None,
                                                                   model=model[mism] if mism < len(model) else None)),
                    found_input=False)
    nontriv = len({(m[1], m[2], m[3]) for m in obs_meta if m[0] in ("pread", "chunk") and m[3] > 0}) + \
        sum(len(l["variants"]) for l in layouts)
    cov = dict(obligations=max(proof["obligations"], 1), discharged=proof["discharged"],
               checker_cmd="cd lean && lake build Kdf.Props.C11 && #print axioms on each theorem",
               trusted_base=["Lean 4 kernel", "axioms: " + ", ".join(sorted({a for v in proof["axioms"].values() for a in v}) or ["none"]),
                             "C10 theorems about addrxlat_map_set (Kdf.Props.C10)", "qsort sorts; malloc/realloc succeed; file reads return the file's bytes, zero past EOF",
                             "tools/dumpgen.py writers (ELF, diskdump incl. split, flattened records)", "harness/s_flat.c, harness/s_fmt.c, gcc + ASan/UBSan, ld --wrap"],
               broken_theorems=proof["broken"], theorems=THEOREMS,
               evaluations=len(impl) + pack_eval + len(mimpl), distinct_nontrivial=nontriv + len(set(ml)), split_map_cases=len(mimpl),
               rule="flat: explicit record streams (0..70 records, adjacent/overlapping/nested/identical rewrites, holes, offsets up to 2^62, "
                    "invalid headers), pread and get_chunk at every record boundary -2..+1 with lengths reaching the next three boundaries +-1; "
                    "split: descriptor lookup of every frame for 2-4 windows in shuffled order with plain/flattened members, windows that partition the frame "
                    "space and windows that leave frames outside (before the first, between, behind the last window), each frame also read with file.zero_excluded=1; pack: plain twin vs "
                    "flattened variants (cuts at object start/+1/end, fwd/rev/shuffled, stale rewrites, zero pieces as holes) and split sets through "
                    "the public API (attribute tree, all pages, cross-page reads, both page maps); non-trivial = distinct (stream, pos, len>0) + variants",
               traces_validated_against_impl=len(impl_cmp), correspondence_first_diff=mism, case_kinds=kinds, pack_variants=pack_kinds,
               chunk_paths_in_model=paths_taken,
               samples=[dict(records=[(p, len(d)) for p, d in c["recs"]][:6], status=c["status"]) for c in cases[:2]])
    return "proof", cov, ["record streams stay inside off_t (flatpos + size < 2^63)", "split windows have distinct end frames (a partition of the frame space)",
                          "every split member carries the same header, notes and bitmaps (as makedumpfile writes them)",
                          "the plain twin of a split set that leaves frames outside its windows stores no such frame",
                          "allocation failure and I/O errors are outside this property", "SADUMP disk sets are not covered (no writer)"]


def short_diff(a, b):
    if len(a) < 200 and len(b) < 200:
        return a, b
    if a.startswith("tree ") and b.startswith("tree "):
        sa, sb = set(a[5:].split("|")), set(b[5:].split("|"))
        return "|".join(sorted(sa - sb))[:300], "|".join(sorted(sb - sa))[:300]
    i = 0
    while i < min(len(a), len(b)) and a[i] == b[i]:
        i += 1
    return "...@%d %s" % (i, a[i:i + 64]), "...@%d %s" % (i, b[i:i + 64])


def replay_flat(cases, layouts, m, err):
    if m[0] in ("fopen", "pread", "chunk"):
        c = cases[m[1]]
        return dict(stream="flat", op=list(m[:1]) + list(m[2:]), records=[(p, d.hex()) for p, d in c["recs"]], invalid=c["bad"],
                    file_hex=open(c["path"], "rb").read()[4096:].hex()[:20000], stderr=err[-1200:],
                    how="write a 4096-byte makedumpfile header (type 1, version 1), then file_hex; flatmap_init, then the op on file 0")
    return replay_pack(layouts[m[1]], m[2], " ".join(map(str, m[3:])), None, None, err)


def replay_pack(lay, vi, cmd, ref, got, err=""):
    v = lay["variants"][vi] if vi is not None else None
    d = dict(stream="pack", layout=lay["L"].describe(), command=cmd, plain=(ref or "")[:600], variant=(got or "")[:600], stderr=(err or "")[-1200:])
    if v:
        d["variant_kind"] = v["kind"]
        if v["kind"] == "split":
            d.update(windows=v["windows"], order=v["order"], flattened_members=v["flattened"],
                     member_records=[s and dict(order=s["order"], records=s["records"][:60]) for s in v["specs"]])
        else:
            d.update(flatten=dict(order=v["spec"]["order"], records=v["spec"]["records"][:80]))
    return d
