"""C14 — derived views of dump metadata stay coherent with their source.

Stream `derived` (harness/s_derived.c vs lean/Driver/Derived.lean): four kinds of cases
  P  arch.page_size / arch.page_shift            (fresh context)
  L  linux.uts.release / linux.version_code      (fresh context)
  V  linux.vmcoreinfo.raw / lines / typed values / convenience calls (fresh context)
  R  cpu.0.reg.* / cpu.0.pid / cpu.0.PRSTATUS    (generated ELF dump of every architecture)
  X  cpu.<n>.reg.* / cpu.<n>.XEN_PRSTATUS        (generated Xen domain dump, 1-3 virtual CPUs)
(1) the property is evaluated on the implementation's outputs against expectations
computed here, independently of the model (ELF core ABI register layout, Python's own
text splitting and number parsing); (2) the outputs are compared with the Lean model.
"""
import json, re, struct
import kdf, dumpgen

P = "Kdf.Props.C14."
THEOREMS = [P + t for t in (
    "page_set_coherent", "page_history", "page_set_ok_iff",
    "reg_read_eq_blob", "reg_write_patches_blob", "reg_read_after_write", "reg_history", "reg_cleared",
    "xen_records", "xen_reg_read_eq_section", "xen_cpu_frame", "xen_reg_write_patches_record", "xen_history",
    "version_code_coherent", "version_history", "version_cleared",
    "vmci_lines_split", "vmci_lines_view", "vmci_raw_unchanged", "vmci_dir_refused", "vmci_dot_refused",
    "vmci_typed_last_row", "vmci_symbol_view")]
M64 = (1 << 64) - 1

# ----------------------------------------------------------------------------- ABI
def _r(prefix, n, start=0):
    return [prefix + str(i) for i in range(start, start + n)]

REGNAMES = dict(
    x86_64="r15 r14 r13 r12 rbp rbx r11 r10 r9 r8 rax rcx rdx rsi rdi orig_rax rip cs rflags rsp ss fs_base gs_base ds es fs gs".split(),
    aarch64=_r("x", 30) + ["lr", "sp", "pc", "pstate"],
    arm=_r("r", 16) + ["cpsr", "orig_r0"],
    i386="ebx ecx edx esi edi ebp eax ds es fs gs orig_eax eip cs eflags esp ss".split(),
    ppc64=_r("r", 32) + "pc msr or3 ctr lr xer ccr softe trap dar dsisr res".split(),
    riscv64="pc ra sp gp tp t0 t1 t2 s0 s1 a0 a1 a2 a3 a4 a5 a6 a7 s2 s3 s4 s5 s6 s7 s8 s9 s10 s11 t3 t4 t5 t6".split())
ARM_ALIAS = dict(fp=11, ip=12, sp=13, lr=14, pc=15)
NGREG = dict(x86_64=27, aarch64=34, arm=18, i386=17, ppc64=48, riscv64=33)
ARCHES = [("x86_64", 64, False), ("aarch64", 64, False), ("arm", 32, False), ("i386", 32, False),
          ("ppc64", 64, True), ("ppc64", 64, False), ("riscv64", 64, False), ("s390x", 64, True)]


def abi_table(arch):
    """name -> (offset, length) inside struct elf_prstatus, from the ELF core ABI of the
    architecture (not from the repository); and the size of the structure."""
    t = {}
    if arch in ("arm", "i386"):
        t["pid"] = (24, 4); base, w = 72, 4
    else:
        t["pid"] = (32, 4); base, w = 112, 8
    if arch == "s390x":
        t["reg.pswm"] = (base, 8); t["reg.pswa"] = (base + 8, 8)
        for i in range(16):
            t["reg.r%d" % i] = (base + 16 + 8 * i, 8)
        for i in range(16):
            t["reg.a%d" % i] = (base + 144 + 4 * i, 4)
        t["reg.orig_gpr2"] = (base + 208, 8)
        return t, base + 216
    for i, n in enumerate(REGNAMES[arch]):
        t["reg." + n] = (base + w * i, w)
    if arch == "arm":
        for n, i in ARM_ALIAS.items():
            t["reg." + n] = (base + w * i, w)
    return t, base + w * NGREG[arch] + (4 if arch == "ppc64" else 0)


XEN_RECSZ = 5168


def xen_abi_table():
    """name -> (offset, length) inside struct vcpu_guest_context of x86-64 as laid out by Xen's
    public headers (xen/include/public/arch-x86/xen.h, xen-x86_64.h; not taken from the
    repository): fpu_ctxt[512], flags, user_regs (cpu_user_regs: fifteen 64-bit registers,
    error_code/entry_vector, rip, cs + padding, saved_upcall_mask, rflags, rsp, ss/es/ds/fs/gs each
    padded to 8 bytes), trap_ctxt[256] of 16 bytes, ldt_base/ldt_ents, gdt_frames[16]/gdt_ents,
    kernel_ss/kernel_sp, ctrlreg[8], debugreg[8], three callbacks, vm_assist, three segment bases."""
    t = {}
    ur = 512 + 8
    for i, n in enumerate("r15 r14 r13 r12 rbp rbx r11 r10 r9 r8 rax rcx rdx rsi rdi".split()):
        t["reg." + n] = (ur + 8 * i, 8)
    t["reg.rip"] = (ur + 128, 8)
    t["reg.cs"] = (ur + 136, 2)
    t["reg.rflags"] = (ur + 144, 8)
    t["reg.rsp"] = (ur + 152, 8)
    for i, n in enumerate("ss es ds fs gs".split()):
        t["reg." + n] = (ur + 160 + 8 * i, 2)
    after_traps = ur + 200 + 256 * 16
    ctrl = after_traps + 16 + 17 * 8 + 16
    for i in range(8):
        t["reg.cr%d" % i] = (ctrl + 8 * i, 8)
        t["reg.dr%d" % i] = (ctrl + 64 + 8 * i, 8)
    size = ctrl + 128 + 4 * 8 + 3 * 8
    assert size == XEN_RECSZ
    return t, size


def elf_note(name, ntype, desc, be):
    E = ">" if be else "<"
    nm = name + b"\0"
    pad = lambda b: b + b"\0" * (-len(b) % 4)
    return struct.pack(E + "III", len(nm), len(desc), ntype) + pad(nm) + pad(desc)


def hx(b):
    if isinstance(b, str):
        b = b.encode("latin-1")
    return b.hex() if b else "-"


def unhx(s):
    return b"" if s == "-" else bytes.fromhex(s)


# ----------------------------------------------------------------------------- cases
class Case:
    """lines: protocol lines; silent lines (regdef/endian) produce no observation."""
    def __init__(self, kind, lines, meta=None):
        self.kind, self.lines, self.meta = kind, lines, meta or {}
    def nobs(self):
        return sum(1 for l in self.lines if not silent(l))


def silent(l):
    return l.startswith("regdef ") or l.startswith("endian ") or l.startswith("initblob ") or l.startswith("xenrec ")


POW2 = [1 << s for s in (0, 1, 9, 12, 13, 16, 18, 31, 32, 47, 62, 63)]
BADSZ = [0, 3, 6, 4097, 12, (1 << 63) + 1, M64, (1 << 64) - 4096, 4095]
SHIFTS = [0, 1, 12, 13, 16, 31, 32, 62, 63]
BADSH = [64, 65, 127, 1 << 12, (1 << 32) + 12, M64, (1 << 63)]


def gen_page(rng, n, with_clear):
    lines = ["new"]
    ops = []
    for _ in range(n):
        k = rng.random()
        if k < 0.35:
            v = rng.choice(POW2) if rng.random() < 0.7 else rng.choice(BADSZ)
            ops.append("setnum arch.page_size %d" % v)
        elif k < 0.7:
            v = rng.choice(SHIFTS) if rng.random() < 0.7 else rng.choice(BADSH)
            ops.append("setnum arch.page_shift %d" % v)
        elif k < 0.8 and with_clear:
            ops.append("clear arch.page_size")
        elif k < 0.9 and with_clear:
            ops.append("clear arch.page_shift")
        else:
            ops.append("setnum arch.page_size %d" % (1 << rng.randrange(64)))
    for o in ops:
        lines += [o, "get arch.page_size", "get arch.page_shift"]
    return Case("P", lines, dict(clears=with_clear))


def rand_release(rng):
    n = lambda: str(rng.choice([0, 1, 2, 3, 4, 5, 6, 10, 15, 19, 44, 100, 255, 256, 300, 65535, 70000, 123456789]))
    k = rng.random()
    suffix = rng.choice(["", "", "-rc1", "-100-generic", "+", ".el8.x86_64", "-default", " ", "a"])
    if k < 0.45:
        return "%s.%s.%s%s" % (n(), n(), n(), suffix)
    if k < 0.6:
        return "%s.%s" % (n(), n())
    if k < 0.68:
        return n()
    if k < 0.75:
        return "%s.%s%s" % (n(), n(), rng.choice(["-rc1", "x", "."]))
    if k < 0.8:
        return "%s.%s.%s.%s" % (n(), n(), n(), n())
    return rng.choice(["", "abc", ".", "5.", "5..1", ".5.4.0", "v5.4.0", "5.4.", "5.x.1", " 5.4.3", "+5.4.3", "5.+4.3",
                       "05.04.03", "5.4.0x10", "4.19.0-rc1+", "6.1.0\t"])


def gen_version(rng, n):
    lines = ["new"]
    pool = [rand_release(rng) for _ in range(3)]
    for _ in range(n):
        k = rng.random()
        if k < 0.5:
            s = rng.choice(pool) if rng.random() < 0.4 else rand_release(rng)
            if rng.random() < 0.2 and pool:      # extend / shorten a previous string
                b = rng.choice(pool)
                s = b + rng.choice(["0", "1", ".1"]) if rng.random() < 0.5 else b[:-1]
            pool.append(s)
            lines.append("setstr linux.uts.release " + hx(s))
        elif k < 0.6:
            lines.append("clear linux.uts.release")
        lines.append("get linux.version_code")
        if rng.random() < 0.3:
            lines.append("get linux.version_code")
        lines.append("get linux.uts.release")
    return Case("L", lines)


TYPES = ["SYMBOL", "NUMBER", "OFFSET", "SIZE", "LENGTH"]


def rand_value(rng, key):
    m = re.match(r"^([A-Z]+)\(", key)
    if key == "PAGESIZE":
        return rng.choice(["4096", "4096", "65536", "8192", "4096 ", "abc", "12", "0", "", "0x1000"])
    if key == "OSRELEASE":
        return rand_release(rng)
    if m and m.group(1) == "SYMBOL":
        return rng.choice(["ffffffff81000000", "ffffffff81000001", "0", "c0ffee", "0xffff000010080000", "FFFF", "zz", "",
                           "ffffffff8100000g", "1ffffffffffffffff", " 10", "10 ", "-1", "0x"])
    if m:
        return rng.choice(["0", "1", "8", "16", "4096", "0x10", "010", "18446744073709551615", "18446744073709551616",
                           "zz", "", "12abc", " 7", "-1", "+5", "0x", "08", "1"])
    return rng.choice(["1", "2", "x", "", "hello world", "a=b", "=", "1.5", "v"])


KEYPOOL = ["A", "B", "AB", "CRASHTIME", "PAGESIZE", "OSRELEASE", "SYMBOL(s1)", "SYMBOL(s2)", "SYMBOL(a.b)", "SYMBOL(a.c)",
           "NUMBER(n1)", "NUMBER(n2)", "NUMBER(phys_base)", "OFFSET(list_head.next)", "OFFSET(list_head.prev)",
           "SIZE(list_head)", "LENGTH(arr)", "NUMBER(n1))", "SYMBOL(", "FOO(bar)", "SYMBOL()", "SYM", "X.Y", "X.Z",
           "A.", "B..C", "", "NUMBER(a.b.c)", "SYMBOL(s1)x", "lines", "raw", "KERNELOFFSET", "SYMBOL(s1"]
CONFLICT = [("X.Y", "X.Y.W"), ("A", "A.B"), ("SYMBOL(a.b)", "SYMBOL(a)"), ("NUMBER(n1)", "NUMBER(n1.z)"), ("B..C", "B"),
            ("A.", "A")]


DOTKEYS = [".A", ".", "..B", ".SYMBOL(s1)", ".X.Y", ".PAGESIZE"]


def rand_text(rng, conflict=False, dot=False):
    k = rng.random()
    if k < 0.04:
        return b"", []
    if k < 0.06:
        return b"\n", []
    keys = rng.sample(KEYPOOL, rng.randint(1, 7))
    if rng.random() < 0.3:
        keys.append("".join(rng.choice("abXY_9") for _ in range(rng.randint(1, 4))))
    if conflict:
        a, b = rng.choice(CONFLICT)
        keys += [a, b] if rng.random() < 0.5 else [b, a]
    rows = []
    for _ in range(rng.randint(1, 10)):
        key = rng.choice(keys)
        if conflict and rng.random() < 0.3:
            key = keys[-1] if rng.random() < 0.5 else keys[-2]
        f = rng.random()
        if f < 0.85:
            rows.append(key + "=" + rand_value(rng, key))
        elif f < 0.93:
            rows.append(key)
        else:
            rows.append("")
    if conflict:
        rng.shuffle(rows)
        rows += [keys[-1] + "=1", keys[-2] + "=2"]
    if dot:
        dk = rng.choice(DOTKEYS)
        rows.insert(rng.randint(0, len(rows)), dk + rng.choice(["=1", "=", "", "=4096"]))
        keys.append(dk)
    text = "\n".join(rows)
    if rng.random() < 0.7:
        text += "\n"
    return text.encode("latin-1"), keys


def vm_queries(text, keys, rng):
    lines = ["get linux.vmcoreinfo.raw", "vraw", "tree linux.vmcoreinfo.lines"]
    for t in TYPES:
        lines.append("tree linux.vmcoreinfo." + t)
    qs = set(keys)
    qs |= {"A", "X", "OFFSET(list_head", "nokey", "SYMBOL(a"}
    for q in sorted(qs):
        if q:
            lines.append("vline " + hx(q))
    if any(q.startswith(".") for q in qs):
        lines += ["vline " + hx(".A"), "vsym " + hx(".s1")]
    syms = set()
    for q in keys:
        m = re.match(r"^[A-Z]+\((.*)\)$", q)
        if m and m.group(1):
            syms.add(m.group(1))
    syms |= {"a", "s1", "nosym"}
    for s in sorted(syms):
        lines.append("vsym " + hx(s))
    lines += ["get arch.page_size", "get arch.page_shift", "get linux.uts.release", "get linux.version_code"]
    return lines


def gen_vmci(rng, n, conflict_rate=0.0, dot_rate=0.0):
    lines = ["new", "setstr addrxlat.ostype " + hx("linux")]
    for _ in range(n):
        k = rng.random()
        if k < 0.85:
            text, keys = rand_text(rng, conflict=rng.random() < conflict_rate, dot=rng.random() < dot_rate)
            lines.append("setblob linux.vmcoreinfo.raw " + hx(text))
        else:
            text, keys = None, rng.sample(KEYPOOL, 3)
            lines.append("clear linux.vmcoreinfo.raw")
        lines += vm_queries(text, keys, rng)
    return Case("V", lines)


def gen_regs(R, rng, idx, nops):
    arch, cls, be = ARCHES[idx % len(ARCHES)]
    tab, size = abi_table(arch)
    blob0 = bytes(rng.randrange(256) for _ in range(size))
    path = R.path("c14-%d.elf" % idx)
    dumpgen.write_elf(path, [dict(pfn=16, npages=1, voff=0)], machine=arch, elfclass=cls, be=be,
                      notes=elf_note(b"CORE", 1, blob0, be))
    names = sorted(tab)
    lines = ["endian %d" % be] + ["regdef %s %d %d" % (n, tab[n][0], tab[n][1]) for n in names]
    lines += ["initblob " + hx(blob0), "open " + path, "get cpu.0.PRSTATUS"]
    if rng.random() < 0.5:
        lines.append("setblob cpu.0.PRSTATUS " + hx(blob0))
    seen = {}
    def pick():
        c = rng.random()
        if arch == "s390x" and c < 0.35:
            return rng.choice([n for n in names if tab[n][1] == 4])
        if c < 0.15:
            return "pid"
        if arch == "arm" and c < 0.4:
            return rng.choice(["reg.fp", "reg.r11", "reg.sp", "reg.r13", "reg.pc", "reg.r15"])
        return rng.choice(names)
    for _ in range(nops):
        k = rng.random()
        if k < 0.3:
            n = pick()
            lines.append("get cpu.0." + n)
        elif k < 0.7:
            n = pick()
            c = rng.random()
            width = 8 * tab[n][1]
            if c < 0.2:
                v = 0
            elif c < 0.35 and seen:
                v = rng.choice(list(seen.values()))          # a value read or written before
            elif c < 0.5:
                v = rng.getrandbits(64)                      # possibly wider than the register
            elif c < 0.6:
                v = (1 << width) - 1
            else:
                v = rng.getrandbits(width)
            seen[n] = v
            lines += ["setnum cpu.0.%s %d" % (n, v), "get cpu.0.PRSTATUS", "get cpu.0." + n]
            if arch == "arm" and rng.random() < 0.5:
                lines.append("get cpu.0." + rng.choice(["reg.fp", "reg.r11", "reg.sp", "reg.r13", "reg.pc", "reg.r15"]))
        elif k < 0.85:
            n = pick()
            off, ln = tab[n]
            o = max(0, off - rng.choice([0, 0, 1, 3]))
            bs = bytes(rng.randrange(256) for _ in range(rng.choice([1, ln, ln, ln + 2])))
            lines += ["poke cpu.0.PRSTATUS %d %s" % (o, hx(bs)), "get cpu.0." + n]
        elif k < 0.88:
            n = pick()
            lines += ["clear cpu.0.PRSTATUS", "get cpu.0.PRSTATUS", "get cpu.0." + n]
            if rng.random() < 0.6:
                lines += ["setnum cpu.0.%s %d" % (n, rng.getrandbits(8 * tab[n][1])), "get cpu.0." + n]
            if rng.random() < 0.3:
                lines.append("poke cpu.0.PRSTATUS %d %s" % (tab[n][0], hx(b"\x55")))
            lines += ["setblob cpu.0.PRSTATUS " + hx(bytes(rng.randrange(256) for _ in range(size))), "get cpu.0." + n]
        else:
            c = rng.random()
            if c < 0.5:
                nb = bytes(rng.randrange(256) for _ in range(size))
            elif c < 0.8:
                cut = rng.choice([tab[pick()][0] + rng.choice([0, 1, 3]), 0, size - 1, size + 16])
                nb = bytes(rng.randrange(256) for _ in range(cut))
            else:
                nb = bytes(size)
            n = pick()
            lines += ["setblob cpu.0.PRSTATUS " + hx(nb), "get cpu.0." + n]
            if rng.random() < 0.5:
                lines += ["setnum cpu.0.%s %d" % (n, rng.getrandbits(8 * tab[n][1])), "get cpu.0.PRSTATUS", "get cpu.0." + n]
    # final sweep: every register against the blob
    if rng.random() < 0.1:
        lines.append("clear cpu.0.PRSTATUS")
    lines.append("get cpu.0.PRSTATUS")
    lines += ["get cpu.0." + n for n in names]
    return Case("R", lines, dict(arch=arch, be=be, table=tab, size=size, blob0=blob0))


def gen_xen(R, rng, idx, nops):
    """A Xen domain dump (xc_core ELF, x86-64) whose `.xen_prstatus` section holds 1-3 register
    records and, in some cases, a trailing partial one: reads and WRITES of cpu.<n>.reg.*, edits,
    replacement and clearing of cpu.<n>.XEN_PRSTATUS, on every virtual CPU in turn."""
    tab, size = xen_abi_table()
    ncpu = rng.choice([1, 1, 2, 3])
    tail = rng.choice([0, 0, 1, 8, size - 1])
    sect = bytes(rng.randrange(256) for _ in range(ncpu * size + tail))
    path = R.path("c14-xen-%d.elf" % idx)
    p2m = rng.random() < 0.5
    dumpgen.write_xc_core(path, [(3 + k, 0x100 + 7 * k) for k in range(rng.randint(1, 3))], p2m=p2m, prstatus=sect)
    # (the page list plays no role here; a replay regenerates the dump with one page)
    names = sorted(tab)
    lines = ["endian 0"] + ["regdef %s %d %d" % (n, tab[n][0], tab[n][1]) for n in names]
    lines += ["xenrec %d" % size, "initblob " + hx(sect), "open " + path]
    narrow = [n for n in names if tab[n][1] == 2]
    def pick():
        return rng.choice(narrow) if rng.random() < 0.3 else rng.choice(names)
    def cpu():
        return rng.randrange(ncpu)
    for c in range(ncpu):
        lines.append("get cpu.%d.XEN_PRSTATUS" % c)
    lines += ["get cpu.%d.XEN_PRSTATUS" % ncpu, "get cpu.%d.reg.rip" % ncpu, "get cpu.0.PRSTATUS"]
    seen = []
    for _ in range(nops):
        k = rng.random()
        c, n = cpu(), pick()
        key = "cpu.%d.%s" % (c, n)
        bk = "cpu.%d.XEN_PRSTATUS" % c
        off, ln = tab[n]
        if k < 0.25:
            lines.append("get " + key)
        elif k < 0.7:
            q = rng.random()
            if q < 0.15:
                v = 0
            elif q < 0.3 and seen:
                v = rng.choice(seen)
            elif q < 0.5:
                v = rng.getrandbits(64)                      # wider than a 16-bit selector
            elif q < 0.6:
                v = (1 << 8 * ln) - 1
            else:
                v = rng.getrandbits(8 * ln)
            seen.append(v)
            lines += ["setnum %s %d" % (key, v), "get " + key]
            if rng.random() < 0.5:
                lines.append("get " + bk)
            if ncpu > 1 and rng.random() < 0.5:              # the same register of another CPU
                lines.append("get cpu.%d.%s" % ((c + 1) % ncpu, n))
        elif k < 0.82:
            o = max(0, off - rng.choice([0, 0, 1, 3]))
            bs = bytes(rng.randrange(256) for _ in range(rng.choice([1, ln, ln, ln + 2])))
            lines += ["poke %s %d %s" % (bk, o, hx(bs)), "get " + key]
        elif k < 0.86:
            lines += ["clear " + bk, "get " + bk, "get " + key]
            if rng.random() < 0.6:
                lines += ["setnum %s %d" % (key, rng.getrandbits(8 * ln)), "get " + key]
            if ncpu > 1:
                lines.append("get cpu.%d.%s" % ((c + 1) % ncpu, n))
            lines += ["setblob %s %s" % (bk, hx(bytes(rng.randrange(256) for _ in range(size)))), "get " + key]
        else:
            q = rng.random()
            if q < 0.5:
                nb = bytes(rng.randrange(256) for _ in range(size))
            elif q < 0.85:
                nb = bytes(rng.randrange(256) for _ in range(rng.choice([off, off + 1, off + ln - 1, off + ln, 0, size - 1, size + 16])))
            else:
                nb = bytes(size)
            lines += ["setblob %s %s" % (bk, hx(nb)), "get " + key]
            if rng.random() < 0.5:
                lines += ["setnum %s %d" % (key, rng.getrandbits(8 * ln)), "get " + bk, "get " + key]
    for c in range(ncpu):                                    # final sweep: every register of every CPU
        lines.append("get cpu.%d.XEN_PRSTATUS" % c)
        lines += ["get cpu.%d.%s" % (c, n) for n in names]
    return Case("X", lines, dict(arch="xen-x86_64", be=False, table=tab, size=size, blob0=sect, ncpu=ncpu,
                                 blobkey="XEN_PRSTATUS", p2m=p2m, npages=None))


# fixed probes for the findings that are listed in KNOWN_FINDINGS (evaluated by (1) only)
def probes():
    ost = "setstr addrxlat.ostype " + hx("linux")
    out = []
    out.append(Case("P", ["new", "setnum arch.page_size 4096", "get arch.page_size", "get arch.page_shift",
                          "clear arch.page_size", "get arch.page_size", "get arch.page_shift"], dict(clears=True, probe=True)))
    out.append(Case("P", ["new", "setnum arch.page_shift 16", "get arch.page_size", "get arch.page_shift",
                          "clear arch.page_shift", "get arch.page_size", "get arch.page_shift"], dict(clears=True, probe=True)))
    for text in (b"A=1\nA.B=2\n", b"X.Y=1\nX=2\nZ=3\n", b"NUMBER(x)=1\nNUMBER(x)=zz\n", b".A=1\nB=2\n", b"A=1\n.A=2\n",
                 b"SYMBOL(a)=10\nSYMBOL(a.b)=20\n"):
        keys = sorted({l.split(b"=")[0].decode() for l in text.split(b"\n") if l})
        c = Case("V", ["new", ost, "setblob linux.vmcoreinfo.raw " + hx(text)] + vm_queries(text, keys, None), dict(probe=True))
        out.append(c)
    return out


# ----------------------------------------------------------------------------- oracles
def parse_get(o):
    """'get <status> <val>' -> (status, value)"""
    t = o.split()
    if len(t) < 3 or t[0] != "get":
        return None, None
    if t[1] != "ok":
        return t[1], None
    k, _, v = t[2].partition(":")
    if k in ("num", "addr"):
        return "ok", int(v)
    if k in ("str", "blob"):
        return "ok", unhx(v)
    return "ok", t[2]


class Fail(Exception):
    def __init__(self, msg, key=None):
        Exception.__init__(self, msg)
        self.key = key


def check_page(case, obs):
    """page size == 1 << page shift after every operation; sets of powers of two succeed and
    take effect, everything else is refused and changes nothing."""
    size = shift = None
    cleared = False
    i = 0
    L = [l for l in case.lines if not silent(l)]
    while i < len(L):
        l, o = L[i], obs[i]
        w = l.split()
        if w[0] in ("setnum", "clear"):
            st = o.split()[1] if len(o.split()) > 1 else o
            s1, v1 = parse_get(obs[i + 1]); s2, v2 = parse_get(obs[i + 2])
            nsize = v1 if s1 == "ok" else None
            nshift = v2 if s2 == "ok" else None
            where = "after '%s'" % l
            if w[0] == "clear":
                cleared = True
            if (nsize is None) != (nshift is None):
                msg = "%s: arch.page_size is %s but arch.page_shift is %s" % (where, nsize, nshift)
                if cleared:
                    raise Fail(msg, key="clear-page-size-shift") if False else KnownHit(i + 2, msg, "clear-page-size-shift")
                raise FailAt(i + 2, msg)
            if nsize is not None and (nshift >= 64 or nsize != 1 << nshift):
                raise FailAt(i + 2, "%s: arch.page_size=%d is not 2^arch.page_shift (=%d)" % (where, nsize, nshift))
            if w[0] == "setnum" and not cleared:
                v = int(w[2])
                if w[1] == "arch.page_size":
                    good = v != 0 and v & (v - 1) == 0 and v <= M64
                    want = (v, v.bit_length() - 1) if good else (size, shift)
                else:
                    good = v < 64
                    want = (1 << v, v) if good else (size, shift)
                if good and st != "ok":
                    raise FailAt(i, "%s: a valid value was refused with status %s" % (where, st))
                if not good and st == "ok":
                    raise FailAt(i, "%s: an impossible value was accepted" % where)
                if (nsize, nshift) != want:
                    raise FailAt(i + 2, "%s: views are (%s, %s), expected %s" % (where, nsize, nshift, want))
            size, shift = nsize, nshift
            i += 3
        else:
            i += 1


class FailAt(Exception):
    def __init__(self, idx, msg):
        Exception.__init__(self, msg)
        self.idx, self.msg = idx, msg


class KnownHit(Exception):
    def __init__(self, idx, msg, key):
        Exception.__init__(self, msg)
        self.idx, self.msg, self.key = idx, msg, key


def release_triple(s):
    m = re.match(r"^(\d+)$", s) or re.match(r"^(\d+)\.(\d+)$", s) or re.match(r"^(\d+)\.(\d+)\.(\d+)(?:\D.*)?$", s, re.S)
    if not m:
        return None
    g = [int(x) for x in m.groups() if x is not None] + [0, 0]
    return g[0], g[1], g[2]


def version_code(t):
    a, b, c = t
    return (a << 16) + (b << 8) + min(c, 255)


def check_version(case, obs, release=None, start=0):
    L = [l for l in case.lines if not silent(l)]
    for i in range(start, len(L)):
        l, o = L[i], obs[i]
        w = l.split()
        if w[0] == "setstr" and w[1] == "linux.uts.release":
            if o != "set ok":
                raise FailAt(i, "setting linux.uts.release failed: " + o)
            release = unhx(w[2]).decode("latin-1")
        elif w[0] == "clear" and w[1] == "linux.uts.release":
            release = None
        elif l == "get linux.uts.release":
            st, v = parse_get(o)
            if (v.decode("latin-1") if st == "ok" else None) != release:
                raise FailAt(i, "linux.uts.release reads %r, was set to %r" % (v, release))
        elif l == "get linux.version_code":
            st, v = parse_get(o)
            if release is None:
                if st == "ok":
                    raise FailAt(i, "linux.version_code = %s although linux.uts.release has no value" % v)
                continue
            t = release_triple(release)
            if t is None:
                if st == "ok":
                    # a value for a string without a recognised triple: only the model decides
                    continue
                continue
            if st != "ok":
                raise FailAt(i, "linux.version_code cannot be read (%s) for release %r" % (st, release))
            if v != version_code(t):
                raise FailAt(i, "linux.version_code = %d, release %r means %d.%d.%d = %d" % ((v, release) + t + (version_code(t),)))
    return release


NUM_RE = [(re.compile(r"^[1-9][0-9]*$"), 10), (re.compile(r"^0[xX][0-9a-fA-F]+$"), 16), (re.compile(r"^0[0-7]*$"), 8)]
SYM_RE = [(re.compile(r"^[0-9a-fA-F]+$"), 16), (re.compile(r"^0[xX][0-9a-fA-F]+$"), 16)]


def parse_typed(kind, val):
    """('num', n) when the value is a plain C literal that fits 64 bits, ('bad',) when it is
    clearly not a number, ('unknown',) otherwise (sign, space, overflow …: no expectation)."""
    for rx, base in (SYM_RE if kind == "SYMBOL" else NUM_RE):
        if rx.match(val):
            n = int(val, base)
            return ("num", n) if n <= M64 else ("unknown",)
    # clearly not a number: a character that no strtoull base can consume, with nothing but (possible) digits in front of it,
    # or a blank behind the first characters (an empty value converts to 0: strtoull semantics, no expectation)
    if re.match(r"^[0-9a-fA-F]*[g-wyzG-WYZ_]", val) or re.match(r"^[0-9a-fA-FxX]+ ", val):
        return ("bad",)
    return ("unknown",)


def text_expect(text):
    """the key/value list a VMCOREINFO text denotes"""
    s = text.decode("latin-1")
    rows = s.split("\n")
    if rows and rows[-1] == "":
        rows.pop()
    out = []
    for r in rows:
        k, eq, v = r.partition("=")
        out.append((k, v))
    return out


def has_conflict(keys):
    ks = set(keys)
    return any(b.startswith(a + ".") for a in ks for b in ks if a != b)


def typed_path(key):
    m = re.match(r"^(SYMBOL|NUMBER|OFFSET|SIZE|LENGTH)\(([^)]*)\)$", key)
    return (m.group(1), m.group(2)) if m else None


def parse_tree(o):
    t = o.split()
    if t[:2] != ["tree", "ok"]:
        return t[1] if len(t) > 1 else "?", None
    ents = []
    for e in t[2:]:
        k, _, v = e.partition("=")
        kind, _, val = v.partition(":")
        ents.append((unhx(k).decode("latin-1"), kind, int(val) if kind in ("num", "addr") else unhx(val).decode("latin-1") if kind == "str" else val))
    return "ok", ents


def check_vmci(case, obs):
    L = [l for l in case.lines if not silent(l)]
    text = None          # current raw text (None: cleared / never set)
    rows = []
    setst = None
    release = None
    i = 0
    known = None
    lines_exp = {}
    conflict = False
    ldot = False
    for i, (l, o) in enumerate(zip(L, obs)):
        w = l.split()
        if w[0] == "setblob":
            text = unhx(w[2]); rows = text_expect(text)
            setst = o.split()[1]
            keys = [k for k, _ in rows]
            tkeys = ["%s.%s" % typed_path(k) for k in keys if typed_path(k)]
            conflict = has_conflict(keys) or has_conflict(tkeys)
            ldot = any(k.startswith(".") for k in keys)
            lines_exp = dict(rows)
            if b"\0" in text:
                raise FailAt(i, "generator produced a NUL byte")
            pgs = [v for k, v in rows if k == "PAGESIZE" and re.match(r"^\d+$", v)]
            badpg = any(int(v) == 0 or int(v) & (int(v) - 1) for v in pgs) or any(k == "PAGESIZE" and v == "" for k, v in rows)
            if setst != "ok" and not (conflict or badpg or ldot):
                raise FailAt(i, "setting linux.vmcoreinfo.raw failed with status %s for a well-formed text" % setst)
            if setst == "ok" and ldot:
                raise FailAt(i, "a text with a key that starts with a dot was accepted (%r): such a row cannot be stored" % text)
            for k, v in rows:
                if k == "OSRELEASE":
                    release = v
        elif w[0] == "clear":
            text, rows, setst, lines_exp, conflict, ldot = None, [], "ok", {}, False, False
        elif l in ("vraw", "get linux.vmcoreinfo.raw"):
            t = o.split()
            got = None if t[1] != "ok" else unhx(t[2].partition(":")[2] if ":" in t[2] else t[2])
            if got != text:
                raise FailAt(i, "%s returns %r, the raw text is %r" % (w[0] if w[0] == "vraw" else "linux.vmcoreinfo.raw", got, text))
        elif l == "tree linux.vmcoreinfo.lines":
            st, ents = parse_tree(o)
            if text is None or not rows:
                if ents:
                    raise FailAt(i, "parsed lines %r although the raw text is %r" % (ents, text))
                continue
            got = {}
            for k, kind, v in (ents or []):
                if k in got:
                    raise FailAt(i, "line key %r listed twice" % k)
                got[k] = v
            if setst == "ok":
                if got != lines_exp:
                    miss = sorted(set(lines_exp.items()) ^ set(got.items()))[:4]
                    raise FailAt(i, "parsed lines differ from the raw text %r: %r" % (text, miss))
            else:
                # a refused text: what was parsed must be a prefix of the key/value list
                ok = any(dict(rows[:n]) == got for n in range(len(rows) + 1))
                if not ok:
                    raise FailAt(i, "after a refused text %r the parsed lines %r are no prefix of its rows" % (text, got))
                if ldot and not conflict:
                    known = (i, "VMCOREINFO %r has a key that starts with a dot: the text is refused (%s) and linux.vmcoreinfo.lines "
                                "holds only %d of %d rows while raw holds the whole text" % (text, setst, len(got), len(lines_exp)),
                             "vmci-leading-dot")
                if conflict:
                    known = (i, "VMCOREINFO %r has a key that is a dotted prefix of another key: the text is refused (%s) and "
                                "linux.vmcoreinfo.lines holds only %d of %d rows while raw holds the whole text" % (text, setst, len(got), len(lines_exp)),
                             "vmci-dotted-prefix")
        elif w[0] == "tree":
            tn = w[1].rsplit(".", 1)[1]
            st, ents = parse_tree(o)
            got = {k: v for k, kind, v in (ents or [])}
            if text is None:
                if got:
                    raise FailAt(i, "%s values %r although the raw text is cleared" % (tn, got))
                continue
            # expectation from the text: last row of each TYPE(sym) key
            last = {}
            seenkeys = {}
            for k, v in rows:
                tp = typed_path(k)
                if tp and tp[0] == tn:
                    last[tp[1]] = parse_typed(tn, v)
                    seenkeys.setdefault(tp[1], []).append(v)
            if setst != "ok":
                # refused text: every listed value must come from some row
                for sym, v in got.items():
                    if not any(parse_typed(tn, x) in (("num", v), ("unknown",)) for x in seenkeys.get(sym, [])):
                        raise FailAt(i, "%s.%s = %d does not come from any row of %r" % (tn, sym, v, text))
                continue
            for sym, e in last.items():
                if e[0] == "num" and got.get(sym) != e[1]:
                    raise KnownOrFail(i, "%s(%s) is %s in the typed view, the text %r says %d" % (tn, sym, got.get(sym), text, e[1]),
                                      conflict and "vmci-dotted-prefix")
                if e[0] == "bad" and sym in got:
                    # the last row of a key decides: a value that does not parse leaves NO typed value (an earlier row's is cleared)
                    raise FailAt(i, "%s(%s) = %s in the typed view, but the last row of the text %r gives it the non-numeric value %r%s"
                                 % (tn, sym, got[sym], text, seenkeys[sym][-1],
                                    " (the value of an earlier row with the same key is stale)" if len(seenkeys[sym]) > 1 else ""))
            for sym in got:
                if sym not in last:
                    raise FailAt(i, "%s.%s = %s has no row in the text %r" % (tn, sym, got[sym], text))
        elif w[0] == "vline":
            key = unhx(w[1]).decode("latin-1")
            t = o.split()
            got = unhx(t[2]).decode("latin-1") if t[1] == "ok" else None
            if text is None:
                exp = None
            else:
                exp = lines_exp.get(key)
            if setst == "ok" and got != exp:
                raise FailAt(i, "kdump_vmcoreinfo_line(%r) returns %r, the text %r says %r" % (key, got, text, exp))
            if key.startswith(".") and got is not None:
                raise FailAt(i, "kdump_vmcoreinfo_line(%r) returns %r: no line with a leading dot can be stored (text %r)" % (key, got, text))
            if setst != "ok" and got is not None and got not in [v for k, v in rows if k == key]:
                raise FailAt(i, "kdump_vmcoreinfo_line(%r) returns %r which is no row of %r" % (key, got, text))
        elif w[0] == "vsym":
            sym = unhx(w[1]).decode("latin-1")
            t = o.split()
            got = int(t[2]) if t[1] == "ok" else None
            vals = [v for k, v in rows if typed_path(k) == ("SYMBOL", sym)]
            if text is None or not vals:
                if got is not None:
                    raise FailAt(i, "kdump_vmcoreinfo_symbol(%r) = %#x but the text %r has no such symbol" % (sym, got, text))
            elif setst == "ok":
                e = parse_typed("SYMBOL", vals[-1])
                if e[0] == "num" and got != e[1]:
                    raise KnownOrFail(i, "kdump_vmcoreinfo_symbol(%r) returns %s, the text %r says %#x" % (sym, got, text, e[1]),
                                      conflict and "vmci-dotted-prefix")
                if e[0] == "bad" and got is not None:
                    raise FailAt(i, "kdump_vmcoreinfo_symbol(%r) = %#x but the last row of the text %r gives it the non-numeric value %r"
                                 % (sym, got, text, vals[-1]))
        elif l == "get linux.version_code" or l == "get linux.uts.release":
            pass
    if known:
        raise KnownHit(*known)


def KnownOrFail(idx, msg, key):
    return KnownHit(idx, msg, key) if key else FailAt(idx, msg)


def check_regs(case, obs):
    """Registers of CPU n against the bytes of that CPU's blob attribute (PRSTATUS, or XEN_PRSTATUS
    on a Xen dump: blob n = record n of the `.xen_prstatus` section), in both directions."""
    m = case.meta
    tab, be = m["table"], m["be"]
    bkey = m.get("blobkey", "PRSTATUS")
    ncpu = m.get("ncpu", 1)
    size = m["size"]
    L = [l for l in case.lines if not silent(l)]
    blobs = None
    def split(key):
        t = key.split(".", 2)
        return int(t[1]), t[2]
    for i, (l, o) in enumerate(zip(L, obs)):
        w = l.split()
        if w[0] == "open":
            if o != "open ok":
                raise FailAt(i, "generated %s dump does not open: %s" % (m["arch"], o))
            if bkey == "PRSTATUS":
                blobs = [bytearray(m["blob0"])]
            else:
                blobs = [bytearray(m["blob0"][k * size:(k + 1) * size]) for k in range(ncpu)]
            continue
        c, name = split(w[1])
        cpu = "cpu.%d." % c
        if c >= ncpu or (name.endswith("PRSTATUS") and name != bkey):
            # no such CPU / no such blob in this kind of dump
            if w[0] in ("get", "setnum", "setblob", "clear") and o.split()[1] == "ok":
                raise FailAt(i, "'%s' succeeds although the dump has %d CPU(s) with %s" % (l, ncpu, bkey))
            continue
        blob = blobs[c]
        if w[0] == "setblob":
            if o != "set ok":
                raise FailAt(i, "replacing %s%s failed: %s" % (cpu, bkey, o))
            blobs[c] = bytearray(unhx(w[2]))
        elif w[0] == "clear":
            if o != "clear ok":
                raise FailAt(i, "clearing %s%s failed: %s" % (cpu, bkey, o))
            blobs[c] = None
        elif w[0] == "poke":
            off, bs = int(w[2]), unhx(w[3])
            if blob is not None and off + len(bs) <= len(blob):
                blob[off:off + len(bs)] = bs
        elif w[0] == "get" and name == bkey:
            st, v = parse_get(o)
            if blob is None:
                if st == "ok":
                    raise FailAt(i, "%s%s still has a value after it was cleared" % (cpu, bkey))
                continue
            if st != "ok" or v != bytes(blob):
                d = [j for j in range(min(len(v or b""), len(blob))) if v[j] != blob[j]][:8] if st == "ok" else []
                raise FailAt(i, "%s%s differs from the bytes written (status %s, first differing offsets %s)" % (cpu, bkey, st, d))
        elif w[0] == "setnum":
            off, ln = tab[name]
            v = int(w[2])
            st = o.split()[1]
            if blob is None:
                if st == "ok":
                    raise FailAt(i, "writing %s%s succeeded although %s has no value" % (cpu, name, bkey))
                continue
            if off + ln <= len(blob):
                if st != "ok":
                    raise FailAt(i, "writing %s%s = %#x failed with %s although %s%s holds %d bytes (register at %d..%d): "
                                    "the attribute side does not update the blob side" % (cpu, name, v, st, cpu, bkey, len(blob), off, off + ln))
                blob[off:off + ln] = (v & ((1 << 8 * ln) - 1)).to_bytes(ln, "big" if be else "little")
            elif st == "ok":
                raise FailAt(i, "writing %s%s succeeded although %s has only %d bytes (register at %d..%d)" % (cpu, name, bkey, len(blob), off, off + ln))
        elif w[0] == "get":
            if name not in tab:
                raise FailAt(i, "register %s is not in the ABI table" % name)
            off, ln = tab[name]
            st, v = parse_get(o)
            if blob is None:
                if st == "ok":
                    raise FailAt(i, "%s%s reads %#x although %s has no value" % (cpu, name, v, bkey))
                continue
            if off + ln <= len(blob):
                exp = int.from_bytes(blob[off:off + ln], "big" if be else "little")
                if st != "ok" or v != exp:
                    raise FailAt(i, "%s%s reads %s (%s), %s bytes %d..%d in %s-endian order are %#x"
                                 % (cpu, name, "%#x" % v if st == "ok" else "-", st, bkey, off, off + ln, "big" if be else "little", exp))
            elif st == "ok":
                raise FailAt(i, "%s%s reads %#x although %s has only %d bytes" % (cpu, name, v, bkey, len(blob)))


CHECK = dict(P=check_page, L=check_version, V=check_vmci, R=check_regs, X=check_regs)


# ----------------------------------------------------------------------------- run
def gen_cases(R):
    rng = R.rng
    quick = R.tier == "quick"
    cases = probes()
    for i in range(100 if quick else 12000):
        cases.append(gen_page(rng, rng.randint(2, 12), with_clear=(i % 3 == 2)))
    for i in range(100 if quick else 12000):
        cases.append(gen_version(rng, rng.randint(3, 12)))
    for i in range(250 if quick else 30000):
        cases.append(gen_vmci(rng, rng.randint(1, 4), conflict_rate=0.08 if i % 4 == 0 else 0.0,
                              dot_rate=0.15 if i % 4 == 1 else 0.0))
    for i in range(32 if quick else 1600):
        cases.append(gen_regs(R, rng, i, rng.randint(8, 30) if quick else rng.randint(10, 60)))
    for i in range(10 if quick else 400):
        cases.append(gen_xen(R, rng, i, rng.randint(8, 24) if quick else rng.randint(10, 60)))
    return cases


def discover_tables(R, exe):
    """Register layout as implemented: three PRSTATUS patterns per architecture, every
    derived attribute read back; compared with the ABI table."""
    bad = []
    n = 0
    targets = [(arch, cls, be, "PRSTATUS") for arch, cls, be in ARCHES] + [("xen-x86_64", 64, False, "XEN_PRSTATUS")]
    for idx, (arch, cls, be, bkey) in enumerate(targets):
        path = R.path("c14-disc-%d.elf" % idx)
        if bkey == "PRSTATUS":
            tab, size = abi_table(arch)
            dumpgen.write_elf(path, [dict(pfn=16, npages=1, voff=0)], machine=arch, elfclass=cls, be=be,
                              notes=elf_note(b"CORE", 1, bytes(size), be))
        else:
            tab, size = xen_abi_table()
            dumpgen.write_xc_core(path, [(3, 0x103)], prstatus=bytes(size))
        pats = [bytes(i & 0xff for i in range(size)), bytes((i >> 8) & 0xff for i in range(size)), bytes([0xff]) * size]
        inp = "open %s\n" % path + "".join("setblob cpu.0.%s %s\ntree cpu.0\n" % (bkey, hx(p)) for p in pats)
        rc, out, err = R.run_harness(exe, stdin_text=inp)
        o = kdf.obs(out)
        trees = [parse_tree(x)[1] or [] for x in o if x.startswith("tree")]
        if not o or o[0] != "open ok":
            bad.append((arch, be, "generated dump with one %s record does not open: %s %s" % (bkey, o[:1], first_err(err))))
            continue
        if len(trees) != 3:
            bad.append((arch, be, "cannot list cpu.0: " + " | ".join(o)[:200] + err[-300:]))
            continue
        vals = [{k: v for k, kind, v in t if kind == "num"} for t in trees]
        impl = {}
        for name in vals[0]:
            ln = (vals[2][name].bit_length() + 7) // 8
            first = (lambda v: (v >> (8 * (ln - 1))) & 0xff) if be else (lambda v: v & 0xff)
            impl[name] = (first(vals[0][name]) | (first(vals[1][name]) << 8), ln)
        n += len(impl)
        if impl != tab:
            diff = sorted(set(impl.items()) ^ set(tab.items()))[:6]
            bad.append((arch, be, "register layout differs from the %s: %r" % ("ELF core ABI" if bkey == "PRSTATUS" else "Xen public headers", diff)))
    return bad, n


def run(R):
    proof = R.prove(["Kdf.Props.C14"], THEOREMS)
    exe = R.build_harness("s_derived", ["s_derived.c"])
    badtabs, nregs = discover_tables(R, exe)
    for arch, be, msg in badtabs:
        R.violation("%s (%s-endian): %s" % (arch, "big" if be else "little", msg),
                    dict(stream="derived", arch=arch, big_endian=be, detail=msg))
    cases = gen_cases(R)
    text = "".join("\n".join(c.lines) + "\n" for c in cases)
    rc, out, err = R.run_harness(exe, stdin_text=text, timeout=1500)
    impl = kdf.obs(out)
    c16 = [l for l in out.split("\n") if l.startswith("#")]
    model = kdf.obs(R.run_driver("derived", text))
    total = sum(c.nobs() for c in cases)
    # split the streams per case
    pos = 0
    nviol = 0
    evals = 0
    kinds = {}
    nontriv = set()
    first_mismatch = None
    for ci, c in enumerate(cases):
        n = c.nobs()
        io, mo = impl[pos:pos + n], model[pos:pos + n]
        pos += n
        L = [l for l in c.lines if not silent(l)]
        crashed = len(io) < n
        kinds[c.kind] = kinds.get(c.kind, 0) + 1
        try:
            CHECK[c.kind](c, io)
            evals += len(io)
            if crashed:
                raise FailAt(len(io), "harness stopped (rc=%s) at '%s': %s" % (rc, L[len(io)] if len(io) < len(L) else "?", first_err(err)))
        except KnownHit as k:
            evals += len(io)
            R.violation(k.msg, replay_of(c, k.idx, io, err), key=k.key)
        except (IndexError, AttributeError, ValueError) as ex:
            # truncated / malformed observation: the harness stopped inside this case
            if nviol < 5:
                R.violation("harness stopped (rc=%s) at '%s': %s" % (rc, L[len(io)] if len(io) < len(L) else "?", first_err(err)),
                            replay_of(c, min(len(io), len(L) - 1), io, err, proof))
            nviol += 1
        except FailAt as f:
            if nviol < 5:
                R.violation(f.msg, replay_of(c, f.idx, io, err, proof))
            nviol += 1
        if sum(1 for l in L if l.split()[0] in ("setnum", "setstr", "setblob", "clear", "poke")) >= 2:
            nontriv.add(tuple(L))
        if crashed:
            break
        if not c.meta.get("probe"):
            d = kdf.diff_streams(io, mo)
            if d is not None and first_mismatch is None:
                first_mismatch = dict(case_kind=c.kind, input="\n".join(c.lines[:line_index(c, d) + 1]) + "\n", line=L[d] if d < len(L) else None,
                                      impl=io[d] if d < len(io) else None, model=mo[d] if d < len(mo) else None)
    if not R.violations and (proof["broken"] or first_mismatch):
        R.violation("proof obligation or correspondence broken: theorems %s; first differing line %s"
                    % (proof["broken"], first_mismatch and (first_mismatch["line"], first_mismatch["impl"], first_mismatch["model"])),
                    dict(stream="derived", broken_theorems=proof["broken"], lean_log=proof["log"][-1500:], first_diff=first_mismatch),
                    found_input=False)
    cov = dict(obligations=max(proof["obligations"], 1), discharged=proof["discharged"],
               checker_cmd="cd lean && lake build Kdf.Props.C14 && #print axioms on each theorem",
               trusted_base=["Lean 4 kernel", "axioms: " + ", ".join(sorted({a for v in proof["axioms"].values() for a in v}) or ["none"]),
                             "glibc strtoul/strtoull/ffsl behave as modelled (Model.Derived.strtou, ffsl)",
                             "ELF core ABI layout of struct elf_prstatus per architecture (tools/props/c14.py abi_table)",
                             "harness/s_derived.c + gcc + ASan/UBSan"],
               broken_theorems=proof["broken"], theorems=THEOREMS,
               evaluations=evals, distinct_nontrivial=len(nontriv),
               rule="cases of 4 kinds on the public API: P = histories of set/clear of arch.page_size and arch.page_shift over powers of two, "
                    "non-powers, 0, shifts >= 64; L = histories of set/clear of linux.uts.release (well-formed a, a.b, a.b.c<suffix> and malformed) "
                    "with reads of linux.version_code; V = 1-4 VMCOREINFO texts per context from a grammar with repeated keys, keys that are plain "
                    "or dotted prefixes of other keys, TYPE(sym) keys, PAGESIZE/OSRELEASE, empty text, empty lines, rows without '=', missing final "
                    "newline, followed by tree listings, kdump_vmcoreinfo_raw/line/symbol and the page/release views; R = generated ELF dumps of "
                    "8 architecture/byte-order pairs with random PRSTATUS, histories of register reads, writes (0, repeated, over-wide values), "
                    "in-place blob edits, blob replacement incl. short blobs, final sweep of every register; X = generated Xen domain dumps "
                    "(xc_core ELF, x86-64) whose .xen_prstatus section holds 1-3 virtual-CPU records plus a partial one, the same histories "
                    "on cpu.<n>.reg.* / cpu.<n>.XEN_PRSTATUS of every CPU, reads of the other CPUs after each write; non-trivial = distinct cases with >= 2 mutating operations",
               traces_validated_against_impl=len(impl), correspondence_first_diff=first_mismatch, case_kinds=kinds,
               registers_checked_against_abi=nregs, c16_monitor_lines=c16[:5],
               samples=[dict(kind=cases[i].kind, lines=cases[i].lines[:6]) for i in (len(cases) // 3, len(cases) - 1)])
    return "proof", cov, ["VMCOREINFO texts contain no NUL byte",
                          "no allocation failure; fresh contexts have no file (page-size post hook does not reallocate caches)",
                          "release components and VMCOREINFO numbers stay below 2^40 in the generated cases (KERNEL_VERSION on long)",
                          "glibc strtoul/ffsl semantics as transcribed in Kdf.Model.Derived"]


def first_err(err):
    for l in err.split("\n"):
        if "ERROR" in l or "runtime error" in l:
            return l.strip()[:300]
    return err.strip().split("\n")[0][:300] if err.strip() else ""


def line_index(c, obs_idx):
    """index into c.lines of the obs_idx-th observable line"""
    k = -1
    for j, l in enumerate(c.lines):
        if not silent(l):
            k += 1
            if k == obs_idx:
                return j
    return len(c.lines) - 1


def replay_of(c, idx, io, err, proof=None):
    j = line_index(c, idx)
    L = [l for l in c.lines if not silent(l)]
    return dict(stream="derived", case_kind=c.kind, input="\n".join(c.lines[:j + 1]) + "\n",
                failing_line=L[idx] if idx < len(L) else None, impl_output=io[max(0, idx - 6):idx + 1],
                stderr=first_err(err), arch=c.meta.get("arch"),
                how_to_replay="tools/check.py C14 --replay <this file>  (feeds `input` to harness/s_derived.c built from the working tree)")


def replay(R, path):
    rp = json.load(open(path))
    exe = R.build_harness("s_derived", ["s_derived.c"])
    inp = rp.get("input") or (rp.get("first_diff") or {}).get("input") or ""
    # ELF dumps of R cases live in the scratch directory of the original run: regenerate
    m = re.search(r"^open (\S+)$", inp, re.M)
    if m and rp.get("arch") == "xen-x86_64":
        p = R.path("replay.elf")
        ib = re.search(r"^initblob (\S+)$", inp, re.M)
        dumpgen.write_xc_core(p, [(3, 0x103)], prstatus=unhx(ib.group(1)) if ib else bytes(XEN_RECSZ))
        inp = inp.replace(m.group(1), p)
    elif m and rp.get("arch"):
        arch = rp["arch"]
        cls, be = [(c, b) for a, c, b in ARCHES if a == arch][0] if arch != "ppc64" else (64, "endian 1" in inp)
        tab, size = abi_table(arch)
        p = R.path("replay.elf")
        ib = re.search(r"^initblob (\S+)$", inp, re.M)
        blob0 = unhx(ib.group(1)) if ib else bytes(size)
        dumpgen.write_elf(p, [dict(pfn=16, npages=1, voff=0)], machine=arch, elfclass=cls, be=be, notes=elf_note(b"CORE", 1, blob0, be))
        inp = inp.replace(m.group(1), p)
    rc, out, err = R.run_harness(exe, stdin_text=inp)
    print(out + err[-2000:])
    print("model:")
    print(R.run_driver("derived", inp))
    return 0
