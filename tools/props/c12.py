"""C12 — a failed or partial read reports exactly the prefix it delivered."""
import os
import kdf, dumpgen

W = 1 << 64
THEOREMS = ["Kdf.Props.C12.read_len_le", "Kdf.Props.C12.read_ok", "Kdf.Props.C12.read_zero_len",
            "Kdf.Props.C12.read_fail_prefix", "Kdf.Props.C12.read_ok_iff", "Kdf.Props.C12.string_upto_nul",
            "Kdf.Props.C12.string_fail_no_result", "Kdf.Props.C12.string_total",
            "Kdf.Props.C12.read_ok_of_pages_ok", "Kdf.Props.C12.read_full_iff", "Kdf.Props.C12.read_ok_needs_sound",
            "Kdf.Props.C12.read_unknown_ps", "Kdf.Props.C12.readApi_known", "Kdf.Props.C12.readApi_len_le",
            "Kdf.Props.C12.string_unknown_ps"]
# ELF machine numbers for which the library has no default page size (EM_PPC, EM_IA_64, unassigned numbers)
NOPS_MACHINES = [20, 50, 0, 9999, 0xfffe]
VOFFS = [0xffff880000000000, 0xffffffff80000000 - 0x1000000, 0x1000]


class Layout:
    def __init__(self, rng, path, ps=4096, kind="elf"):
        self.ps, self.path, self.kind = ps, path, kind
        self.kphys_off = rng.choice([0, 0, ps, 3 * ps])     # KPHYS -> MACHPHYS = addr + off
        self.cache = rng.choice([None, None, 2, 4]) if kind == "diskdump" else None
        self.segs = []
        pfn = rng.randint(0, 3)
        voff = rng.choice(VOFFS)
        for _ in range(rng.randint(1, 5)):
            n = rng.randint(1, 4)
            self.segs.append(dict(pfn=pfn, npages=n, voff=voff))
            pfn += n + rng.randint(1, 3)
        if kind == "elf" and rng.random() < 0.35:
            # the last segment ends at the top of the virtual address space (its last page is 0xfffffffffffff000)
            last = self.segs[-1]
            last["voff"] = (W - (last["pfn"] + last["npages"]) * ps) % W
        self.nuls = []
        self.present = {}
        for s in self.segs:
            for i in range(s["npages"]):
                self.present[s["pfn"] + i] = s["voff"]

    def write(self):
        if self.kind == "elf":
            dumpgen.write_elf(self.path, self.segs, ps=self.ps, nuls=self.nuls)
        else:
            pages = sorted(self.present)
            top = max(pages) + 4
            # RAM pages that are excluded from the file: their reads fail below the cache (the fill function fails)
            dumpgen.write_diskdump(self.path, pages, ps=self.ps, max_mapnr=top, ram=range(top), nuls=self.nuls,
                                   methods={p: ("zlib" if p % 3 == 0 else "raw") for p in pages})

    def to_as(self, as_, pa):
        if as_ == 0:
            return pa - self.kphys_off       # may be negative: caller skips
        return (pa + self.present[pa // self.ps]) % W if as_ == 2 else pa

    def universe(self):
        """(as, page address) pairs probed for the oracle"""
        top = max(s["pfn"] + s["npages"] for s in self.segs) + 8
        out = []
        for as_ in (0, 1):
            out += [(as_, p * self.ps) for p in range(top)]
        if self.kind == "diskdump":
            return out                      # no KVADDR without page tables
        vs = set()
        for s in self.segs:
            for i in range(-8, s["npages"] + 8):
                v = (s["pfn"] + i) * self.ps + s["voff"]
                if 0 <= v < W:
                    vs.add(v)
        out += [(2, v) for v in sorted(vs)]
        return out

    # expectations from the discovered oracle: self.oracle[(as, pageaddr)] = bytes | status string
    def page(self, as_, pa):
        return self.oracle.get((as_, pa), None)

    def expect_read(self, as_, addr, ln):
        out = bytearray()
        a = addr
        while len(out) < ln:
            pg = self.page(as_, a - a % self.ps)
            if pg is None:
                return None, None          # outside the probed universe
            if isinstance(pg, str):
                return pg, bytes(out)
            k = min(self.ps - a % self.ps, ln - len(out))
            out += pg[a % self.ps:a % self.ps + k]
            a += k
        return "ok", bytes(out)

    def expect_str(self, as_, addr):
        out = bytearray()
        a = addr
        while True:
            pg = self.page(as_, a - a % self.ps)
            if pg is None:
                return None, None
            if isinstance(pg, str):
                return pg, None
            chunk = pg[a % self.ps:]
            k = chunk.find(b"\0")
            if k >= 0:
                return "ok", bytes(out + chunk[:k])
            out += chunk
            a = a - a % self.ps + self.ps


def gen_cases(R, L):
    rng, ps = R.rng, L.ps
    cases = []
    runs = [(s["pfn"] * ps, (s["pfn"] + s["npages"]) * ps) for s in L.segs]
    # strings: NULs near page starts so that strings straddle page ends
    for (a, b) in runs:
        if b - a >= 2 * ps and rng.random() < 0.8:
            pg = a + ps * rng.randint(1, (b - a) // ps - 1)
            L.nuls.append(pg + rng.randint(0, 5))
        if rng.random() < 0.5:
            L.nuls.append(rng.randrange(a, b))
    for as_ in ((0, 1, 2) if L.kind == "elf" else (0, 1)):
        for (a, b) in runs:
            starts = {a, a + 1, b - 1, b - ps, b - ps - 1 if b - ps - 1 >= a else a, a + ps - 1 if a + ps <= b else a,
                      rng.randrange(a, b), b, a - 1}
            for st in starts:
                lens = {0, 1, 2, max(b - st - 1, 0), max(b - st, 0), max(b - st, 0) + 1, ps, ps + 1, 3 * ps + 7,
                        rng.randint(0, 5 * ps)}
                for ln in rng.sample(sorted(lens), 4):
                    if st >= 0:
                        if st >= a and st < b or st == b or st == a - 1:
                            addr = L.to_as(as_, st) if (st // ps) in L.present else (L.to_as(as_, st - 1) + 1 if ((st - 1) // ps) in L.present and st > 0 else (L.to_as(as_, st + 1) - 1 if ((st + 1) // ps) in L.present else None))
                            if addr is not None and 0 <= addr and addr + ln <= W:
                                cases.append(("read", as_, addr, ln))
        for n in L.nuls:
            for k in list(range(0, 8)) + [ps - 1, ps, ps + 1, rng.randint(0, 2 * ps)]:
                st = n - k
                if st >= 0 and (st // ps) in L.present:
                    cases.append(("str", as_, L.to_as(as_, st)))
        # strings running into a hole (no NUL before the end of the run)
        for (a, b) in runs:
            tail_nul = [n for n in L.nuls if a <= n < b]
            lastn = max(tail_nul) + 1 if tail_nul else a
            for st in {lastn, b - 1, b - ps + 3 if b - ps + 3 >= lastn else lastn, max(lastn, b - 2 * ps - 1)}:
                if lastn <= st < b:
                    cases.append(("str", as_, L.to_as(as_, st)))
    return cases


def nops_phase(R, exe):
    """Reads in the state "the page size is not known" (ELF cores of machines without a default page size and without
    PAGESIZE in VMCOREINFO), then the same context after arch.page_size was set.  Returns (fail, replay, n, kinds, impl, model)."""
    rng = R.rng
    lines, want, lays = [], [], []
    for li in range(3 if R.tier == "quick" else 24):
        ps = rng.choice([4096, 4096, 8192, 16384]) if li else 4096
        L = Layout(rng, R.path("c12-nops-%d.elf" % li), ps=ps, kind="elf")
        L.machine = NOPS_MACHINES[li] if li < 2 else rng.choice(NOPS_MACHINES + [rng.randrange(260, 0xff00)])
        L.kphys_off = 0
        for s in L.segs:
            s["voff"] = 0
        runs = [(s["pfn"] * ps, (s["pfn"] + s["npages"]) * ps) for s in L.segs]
        for (a, b) in runs:
            L.nuls.append(rng.randrange(a, b))
        dumpgen.write_elf(L.path, L.segs, ps=ps, machine=L.machine, nuls=L.nuls)
        top = max(s["pfn"] + s["npages"] for s in L.segs) + 2
        L.oracle = {(1, pf * ps): (dumpgen.page_bytes(pf, ps, L.nuls) if pf in L.present else "nodata") for pf in range(top)}
        lays.append(L)
        cases = []
        for as_ in (0, 1, 2):
            for (a, b) in runs[:2]:
                for st in {a, a + 1, b - 1, b, rng.randrange(a, b), rng.getrandbits(64)}:
                    for ln in rng.sample([0, 1, 2, ps - 1, ps, ps + 1, max(b - st, 1), 3 * ps + 7, rng.randint(1, 5 * ps)], 3):
                        if st + ln <= W:
                            cases.append(("read", as_, st, ln))
                cases.append(("str", as_, rng.randrange(a, b)))
        rng.shuffle(cases)
        lines.append("open %s 0" % L.path); want.append((li, None, "nops nodata"))
        for c in cases:
            lines.append(" ".join(str(x) for x in c))
            want.append((li, c, ("invalid 0 %d" % dumpgen.fnv(b"") if c[3] else "ok 0 %d" % dumpgen.fnv(b"")) if c[0] == "read" else "invalid - -"))
        # the page size becomes known: from here on the reads deliver data with the usual prefix semantics
        lines.append("setps %d" % ps); want.append((li, None, "setps ok"))
        lines.append("miss 1 nodata")
        lines += ["pg 1 %d %s" % (pa, v.hex()) for (a, pa), v in L.oracle.items() if not isinstance(v, str)]
        for c in cases:
            if c[1] != 1:
                continue
            st, data = L.expect_read(1, c[2], c[3]) if c[0] == "read" else L.expect_str(1, c[2])
            if st is None:
                continue
            lines.append(" ".join(str(x) for x in c))
            want.append((li, c, ("%s %d %d" % (st, len(data), dumpgen.fnv(data))) if c[0] == "read" else
                         ("ok %d %d" % (len(data), dumpgen.fnv(data)) if st == "ok" else "%s - -" % st)))
    text = "\n".join(lines) + "\n"
    rc, out, err = R.run_harness(exe, stdin_text=text)
    impl = kdf.obs(out)
    model = kdf.obs(R.run_driver("read", text))
    fail = None
    kinds = {}
    for i, ((li, c, w), o) in enumerate(zip(want, impl)):
        L = lays[li]
        if c is not None:
            k = "nops/%s/%s" % (c[0], w.split()[0]); kinds[k] = kinds.get(k, 0) + 1
        if o != w:
            known = any(ww[2] == "setps ok" and ww[0] == li for ww in want[:i])
            if c is None:
                msg = "ELF core with e_machine=%d and no PAGESIZE: expected '%s', the library answered '%s'" % (L.machine, w, o)
            else:
                msg = ("%s as=%d addr=%#x%s on an ELF core with e_machine=%d, %s: implementation reported '%s'; expected '%s' "
                       "(status, reported length, fnv of the bytes)" % (c[0], c[1], c[2], " len=%d" % c[3] if c[0] == "read" else "", L.machine,
                        "arch.page_size set to %d after the open" % L.ps if known else "page size not known (arch.page_size unset)", o, w))
            fail = (msg, dict(stream="read/unknown-page-size", layout=dict(ps=L.ps, segs=L.segs, nuls=L.nuls, e_machine=L.machine), case=c,
                              page_size_known=known, observed=o, expected=w, stderr=err[-1000:]))
            break
    if fail is None and (rc != 0 or len(impl) != len(want)):
        fail = ("harness stopped after %d of %d unknown-page-size cases (rc=%s): %s" % (len(impl), len(want), rc, err.strip()[:600]),
                dict(stream="read/unknown-page-size", lines=lines[:200]))
    return fail, len(want), kinds, impl, model


def run(R):
    facts, changed = R.extract()
    proof = R.prove(["Kdf.Props.C12"], THEOREMS)
    nlay = 10 if R.tier == "quick" else 120
    exe = R.build_harness("s_read", ["s_read.c"], ldflags=[kdf.ALLOC_WRAP])
    layouts, allcases = [], []
    # phase 1: write dumps, discover the page oracle by single-page reads of the implementation
    probe_lines = []
    for li in range(nlay):
        L = Layout(R.rng, R.path("c12-%d.dump" % li), kind="elf" if li % 3 else "diskdump")
        cases = gen_cases(R, L)
        L.write()
        L.uni = L.universe()
        layouts.append(L)
        allcases.append(cases)
        probe_lines.append("open %s %d" % (L.path, L.ps))
        probe_lines.append("kphys_off %d" % L.kphys_off)
        probe_lines += ["probe %d %d %d" % (a, p, L.ps) for a, p in L.uni]
    rc, out, err = R.run_harness(exe, stdin_text="\n".join(probe_lines) + "\n")
    po = kdf.obs(out)
    if rc != 0 or len(po) != sum(len(L.uni) for L in layouts):
        raise kdf.CheckBroken("oracle discovery failed rc=%s: %s" % (rc, (out[-300:] + err[-1500:])))
    k = 0
    misses = {}
    for L in layouts:
        L.oracle = {}
        for (a, p) in L.uni:
            t = po[k].split(); k += 1
            L.oracle[(a, p)] = bytes.fromhex(t[1]) if t[0] == "ok" else t[0]
            if t[0] != "ok":
                misses.setdefault(a, {}).setdefault(t[0], 0)
                misses[a][t[0]] += 1
    # phase 2: the cases, against the model (same oracle) and the property statement
    lines, meta = [], []
    for li, L in enumerate(layouts):
        lines.append("open %s %d" % (L.path, L.ps)); meta.append(None)
        lines.append("kphys_off %d" % L.kphys_off); meta.append(None)
        if L.cache:
            lines.append("cache %d" % L.cache); meta.append(None)
        miss_as = {}
        for (a, p), v in L.oracle.items():
            if isinstance(v, str):
                miss_as.setdefault(a, v)
        for a in (0, 1, 2):
            lines.append("miss %d %s" % (a, miss_as.get(a, "nodata"))); meta.append(None)
        for (a, p), v in L.oracle.items():
            if not isinstance(v, str):
                lines.append("pg %d %d %s" % (a, p, v.hex())); meta.append(None)
            elif v != miss_as[a]:
                raise kdf.CheckBroken("two different miss statuses in one address space: %s" % misses)
        for c in allcases[li]:
            st, _ = L.expect_read(c[1], c[2], c[3]) if c[0] == "read" else L.expect_str(c[1], c[2])
            if st is None:
                continue            # would leave the probed universe
            lines.append(" ".join(str(x) for x in c)); meta.append((li, c))
    text = "\n".join(lines) + "\n"
    rc, out, err = R.run_harness(exe, stdin_text=text)
    impl = kdf.obs(out)
    model = kdf.obs(R.run_driver("read", text))
    cases = [m for m in meta if m]
    kinds = {}
    fail = None
    if rc != 0 or len(impl) != len(cases):
        k = min(len(impl), len(cases) - 1)
        fail = (k, "harness stopped after %d of %d cases (rc=%s): %s" % (len(impl), len(cases), rc, err.strip()[:600]))
    for i, ((li, c), o) in enumerate(zip(cases, impl)):
        L = layouts[li]
        if c[0] == "read":
            st, data = L.expect_read(c[1], c[2], c[3])
            want = "%s %d %d" % (st, len(data), dumpgen.fnv(data))
            kind = "read/%s/%s" % (st, "zero" if c[3] == 0 else "partial" if st != "ok" and data else "crosspage" if c[3] > L.ps - c[2] % L.ps else "inpage")
        else:
            st, data = L.expect_str(c[1], c[2])
            want = "ok %d %d" % (len(data), dumpgen.fnv(data)) if st == "ok" else "%s - -" % st
            kind = "str/%s/%s" % (st, "multi" if data is not None and len(data) >= L.ps - c[2] % L.ps else "single")
        kinds[kind] = kinds.get(kind, 0) + 1
        if o != want and (fail is None or i < fail[0]):
            fail = (i, "%s as=%d addr=%#x%s: implementation reported '%s'; single-page reads of the same dump give '%s' "
                       "(status, length, fnv of bytes)" % (c[0], c[1], c[2], " len=%d" % c[3] if c[0] == "read" else "", o, want))
            break
    mism = kdf.diff_streams(impl, model)
    # phase 4: the state "page size not known" (and the same context after the page size was set)
    nfail, n_nops, nkinds, nimpl, nmodel = nops_phase(R, exe)
    kinds.update(nkinds)
    if nfail and not fail:
        rp = dict(nfail[1]); rp["broken_theorems"] = proof["broken"]
        R.violation(nfail[0], rp)
    if mism is None and not nfail:
        m4 = kdf.diff_streams([x for x in nimpl if not x.startswith("nops ")], nmodel)
        mism = None if m4 is None else len(impl) + m4
    # phase 3 (implementation only; an allocation failure is an environment fault the model does not have): string reads
    # whose k-th allocation fails must fail, leave no block behind and must not disturb later reads (cache of 4 pages)
    nfault = 0
    if not fail:
        l3, m3, L3s = [], [], []
        for li in range(2 if R.tier == "quick" else 12):
            # a diskdump of 24..40 stored frames (raw and zlib), NULs at a few places, a page cache of 4 entries
            L = Layout(R.rng, R.path("c12-fault-%d.dump" % li), kind="diskdump")
            n = R.rng.randint(24, 40)
            L.segs = [dict(pfn=2, npages=n, voff=0)]
            L.present = {2 + i: 0 for i in range(n)}
            L.nuls = [R.rng.randrange(2 * L.ps, (2 + n) * L.ps) for _ in range(6)]
            # six of the stored frames do not inflate: their reads fail in the fill function, below the page cache
            badpf = set(R.rng.sample(sorted(L.present), 6))
            pages = sorted(L.present)
            dumpgen.write_diskdump(L.path, pages, ps=L.ps, max_mapnr=max(pages) + 4, ram=range(max(pages) + 4), nuls=L.nuls,
                                   methods={p: ("zlib-bad" if p in badpf else "zlib" if p % 3 == 0 else "raw") for p in pages})
            L.oracle = {(1, pf * L.ps): ("corrupt" if pf in badpf else dumpgen.page_bytes(pf, L.ps, L.nuls)) for pf in L.present}
            L.oracle.update({(1, pf * L.ps): "nodata" for pf in (0, 1, 2 + n, 3 + n)})
            L3s.append(L)
            allpages = sorted(k for k, v in L.oracle.items() if not isinstance(v, str))
            pages = R.rng.sample(allpages, 12)
            l3 += ["open %s %d" % (L.path, L.ps), "cache 4"]; m3 += [None] * 2
            for pf in sorted(badpf):               # failing page reads must not take anything from later reads either
                l3.append("read 1 %d %d" % (pf * L.ps, L.ps)); m3.append((li, "badread", 1, pf * L.ps))
            for k, (a, p) in enumerate(pages):
                l3.append("strf %d %d %d" % (a, p + R.rng.choice([0, 5, L.ps - 3]), 1 + k % 3 // 2)); m3.append((li, "strf", a, p))
            for (a, p) in allpages[::-1]:
                l3.append("read %d %d %d" % (a, p, L.ps)); m3.append((li, "read", a, p))
        rc3, out3, err3 = R.run_harness(exe, stdin_text="\n".join(l3) + "\n")
        o3 = kdf.obs(out3)
        c3 = [(l, m) for l, m in zip(l3, m3) if m]
        if rc3 != 0 or len(o3) != len(c3):
            fail3 = "harness stopped after %d of %d fault-injection cases (rc=%s) at '%s': %s" % (len(o3), len(c3), rc3, c3[min(len(o3), len(c3) - 1)][0], err3.strip()[:500])
        else:
            fail3 = None
            for (l, (li, typ, a, p)), o in zip(c3, o3):
                L = L3s[li]
                if typ == "strf":
                    t = o.split()
                    nf = int(t[-1].split("=")[1])
                    nfault += nf > 0
                    if "LEAK" in o:
                        fail3 = "'%s' (allocation failure injected: %d): %s -- a block allocated by the call is still allocated" % (l, nf, o)
                    elif nf and t[0] == "ok":
                        fail3 = "'%s' reports success although an allocation of the call failed: %s" % (l, o)
                    elif not nf:
                        st, data = L.expect_str(a, int(l.split()[2]))
                        want = "ok %d %d" % (len(data), dumpgen.fnv(data)) if st == "ok" else "%s - -" % st
                        if st is not None and " ".join(t[:3]) != want:
                            fail3 = "'%s' answered '%s', single-page reads give '%s'" % (l, o, want)
                elif typ == "badread":
                    if o.split()[0] == "ok":
                        fail3 = "'%s' of a frame whose compressed data does not inflate answered '%s'" % (l, o)
                else:
                    want = "ok %d %d" % (L.ps, dumpgen.fnv(L.oracle[(a, p)]))
                    if o.split(" C16:")[0] != want:
                        fail3 = ("'%s' after string reads that failed for lack of memory answered '%s'; the page is present (single-page read of a "
                                 "fresh context: '%s')" % (l, o, want))
                if fail3:
                    break
        if fail3:
            R.violation(fail3, dict(stream="read/fault-injection", lines=l3[:400], stderr=err3[-1500:], broken_theorems=proof["broken"]))
    if fail:
        i, msg = fail
        i = min(i, len(cases) - 1)
        li, c = cases[i]
        L = layouts[li]
        R.violation(msg, dict(stream="read", layout=dict(ps=L.ps, segs=L.segs, nuls=L.nuls), case=c,
                             page_status={"%d:%#x" % k: (v if isinstance(v, str) else "ok") for k, v in L.oracle.items()},
                             stderr=err[-1500:], broken_theorems=proof["broken"]))
    elif proof["broken"] or mism is not None:
        R.violation("proof obligation or correspondence broken: theorems %s; first differing observation %s" % (proof["broken"], mism),
                    dict(stream="read", broken_theorems=proof["broken"], lean_log=proof["log"][-1500:],
                         first_diff=None if mism is None else dict(index=mism, case=cases[mism] if mism < len(cases) else "unknown-page-size stream #%d" % (mism - len(impl)),
                                                                   impl=impl[mism] if mism < len(impl) else None,
                                                                   model=model[mism] if mism < len(model) else None)),
                    found_input=False)
    cov = dict(obligations=proof["obligations"], discharged=proof["discharged"],
               checker_cmd="cd lean && lake build Kdf.Props.C12 && #print axioms on each theorem",
               trusted_base=["Lean 4 kernel", "axioms: " + ", ".join(sorted({a for v in proof["axioms"].values() for a in v}) or ["none"]),
                             "page oracle stands for get_page_maybe_xlat (everything below the loop); it is discovered by whole-page reads "
                             "of the implementation, so this check is independent of what the file format handlers return (C01)",
                             "tools/dumpgen.py ELF writer, harness/s_read.c, gcc + ASan/UBSan"],
               broken_theorems=proof["broken"], theorems=THEOREMS,
               evaluations=len(cases) + n_nops, unknown_page_size_cases=n_nops, distinct_nontrivial=len({(li, c) for li, c in cases if c[0] == "str" or c[3] > 0}),
               rule="ELF dumps with random page runs and holes; reads at starts/lengths enumerated relative to run and page boundaries "
                    "(-1,0,+1, zero length, several pages then a hole) in all three address spaces; strings of every small length at every "
                    "offset before a page end, strings running into a hole; ELF cores of machines without a default page size (EM_PPC, EM_IA_64, "
                    "unassigned numbers): reads and string reads in all address spaces while the page size is not known, then again after arch.page_size "
                    "was set (4K..16K); non-trivial = distinct non-zero-length cases",
               traces_validated_against_impl=len(impl), alloc_faults_fired=nfault, correspondence_first_diff=mism, case_kinds=kinds, miss_statuses=misses,
               samples=[dict(case=cases[i][1], observed=impl[i]) for i in (0, len(cases) // 2, len(cases) - 1) if i < len(impl)])
    return "proof", cov, ["page size 4096 (ELF x86_64) in the main stream, 4K..16K in the unknown-page-size stream; range does not wrap the address space",
                          "a page fetch returns a whole page or a non-OK status (OracleSound); what it returns is C01's subject"]
