"""C19 — Xen domain dumps: guest and machine frame views describe the same pages.

Three groups of cases on one harness (harness/s_xen.c) and one model stream (`xen`):
  A  the run-length index directly (pfn2idx_map_* of elfdump.c, included into the harness):
     page lists over the full 64-bit frame space, every listed frame, its neighbours and
     boundary frames searched; every realloc failure point of a sample of lists;
  B  the two first-step functions and xc_get_page directly on an in-memory record table
     (both byte orders, several page shifts, sparse 64-bit frames);
  C  the public API (kdump_open_fd, kdump_read in both address spaces,
     addrxlat_fulladdr_conv both ways) on generated xc_core ELF files: .xen_p2m and
     .xen_pfn, little- and big-endian, page list section at aligned, unaligned and
     file-cache-block-straddling offsets, section headers in any order; with histories:
     translation options set / cleared between the operations, each change followed by a new
     request for the translation (kdump_get_addrxlat or a read that needs it), set-ups that
     fail and are repaired — the conversions must stay the same function of the page list.
(1) the property is evaluated on the implementation's outputs against the list itself
(a Python dict), (2) implementation and Lean model are diffed line by line."""
import os
import kdf, dumpgen

W = 1 << 64
M64 = W - 1
PS_SHIFT = 12
T = "Kdf.Props.C19."
THEOREMS = [T + t for t in ("search_build", "listed_found", "unlisted_none", "build_total", "build_junk_irrelevant",
                            "p2m_m2p_roundtrip", "both_views_same_page", "unlisted_missing_both",
                            "pfn_only_view", "xlat_history", "reinit_same_function", "failed_setup_retried",
                            "reopen_last_dump_only", "reopen_mode_of_last", "reopen_views_last_only", "history_last_only",
                            "open_ok_both_complete", "open_fails_when_mfn_index_fails", "mapEnd_alloc_fails")]
FCACHE_BLOCK = 4 << 20          # file cache block (FCACHE_ORDER 10, 4 KiB host pages)


# ------------------------------------------------------------------ page lists
def gen_list(rng, maxf, nseg=None, sparse=None):
    """List of pairwise distinct frames < = maxf: ascending runs, descending runs and isolated
    frames in any mixture and order, with numerically adjacent pieces listed apart."""
    nseg = nseg or rng.choice([1, 2, 3, 4, 6, 9, 14])
    sparse = rng.random() < 0.5 if sparse is None else sparse
    anchors = [0, 1, 40, 200]
    if sparse:
        anchors += [maxf, maxf - 50, (1 << 31) - 3, (1 << 31) + 40, (1 << 32) - 2, (1 << 32) + 100, 3 << 32,
                    (1 << 63) - 2 if maxf > (1 << 63) else maxf // 2, rng.randrange(maxf + 1), rng.randrange(maxf + 1)]
        anchors = [a for a in anchors if 0 <= a <= maxf]
    used = set()
    segs = []
    for _ in range(nseg):
        kind = rng.choice(["asc", "asc", "desc", "desc", "single", "single", "pair"])
        n = 1 if kind == "single" else 2 if kind == "pair" else rng.choice([2, 2, 3, 4, 5, 8, 17, 33])
        k = rng.random()
        if segs and k < 0.45:
            # numerically adjacent to (or one frame away from) an existing piece
            s = rng.choice(segs)
            lo, hi = min(s), max(s)
            base = rng.choice([hi + 1, hi + 2, lo - n, lo - n - 1])
        else:
            base = rng.choice(anchors) + rng.choice([0, 0, 1, -1, rng.randint(-30, 30)])
        base = max(0, min(base, maxf - n + 1))
        fr = list(range(base, base + n))
        if any(f in used or f < 0 or f > maxf for f in fr):
            fr = [f for f in fr if f not in used and 0 <= f <= maxf][:1]
            if not fr:
                continue
        if kind in ("desc",) or (kind == "pair" and rng.random() < 0.5):
            fr.reverse()
        used.update(fr)
        segs.append(fr)
    rng.shuffle(segs)
    out = [f for s in segs for f in s]
    return out


def probes_for(rng, lst, maxf, cap=None):
    """all listed frames (sampled beyond cap), every neighbour, the boundaries, a few random ones"""
    ls = lst if cap is None or len(lst) <= cap else rng.sample(lst, cap)
    ps = set(ls)
    for f in ls:
        ps.update((f - 1, f + 1, f - 2, f + 2))
    ps.update((0, 1, maxf, maxf - 1, rng.randrange(maxf + 1), rng.randrange(1 << 20)))
    for f in list(ls)[:6]:
        ps.update(((f + (1 << 32)) & maxf, (f ^ (1 << 31)) & maxf))
    return sorted(p for p in ps if 0 <= p <= maxf)


def special_lists():
    return [[], [0], [M64], [M64, 0], [0, M64], [1, 0, M64], [M64 - 1, M64, 0, 1], [2, 1, 0, M64, M64 - 1],
            [5, 6, 7, 20, 3, 2], [10, 11, 12, 9], [9, 10, 11, 12, 8], [4, 10, 11, 12], [10, 11, 12, 13, 14, 15],
            [15, 14, 13, 12, 11, 10], [3, 2, 4], [3, 2, 1, 5, 6, 0], [1 << 31, 0, (1 << 32) + 5, 7],
            [(1 << 32), (1 << 32) + 1, 0, 1, 1 << 31, (1 << 31) + 1], [(3 << 32) + 2, (3 << 32) + 1, 2, 1, (1 << 33), 5],
            list(range(100, 140)), list(range(140, 100, -1)), [2 * i for i in range(40)],
            [f for i in range(20) for f in (1000 * i, 1000 * i + 1)], [f for i in range(20) for f in (1000 * i + 1, 1000 * i)]]


# ------------------------------------------------------------------ expectations (independent of the code)
def index_of(lst):
    return {f: i for i, f in enumerate(lst)}


def parse_map(o):
    """'build ok R a:b:c ... S d:e ...' -> (ranges, singles)"""
    t = o.split()
    r = t.index("R"); s = t.index("S")
    return [tuple(int(x) for x in e.split(":")) for e in t[r + 1:s]], [tuple(int(x) for x in e.split(":")) for e in t[s + 1:]]


def map_items(ranges, singles):
    """frames -> index described by an exposed map (independent reading of the data structure)"""
    d = {}
    clash = None
    for pfn, idx, ln in ranges:
        for k in range(abs(ln)):
            f = pfn - k if ln > 0 else pfn + k
            if f in d:
                clash = f
            d[f] = idx - k
    for pfn, idx in singles:
        if pfn in d:
            clash = pfn
        d[pfn] = idx
    return d, clash


# ------------------------------------------------------------------ group A
def group_a(R):
    rng = R.rng
    cases = []
    for l in special_lists():
        cases.append(dict(list=l, probes=probes_for(rng, l, M64)))
    n = 15000 if R.tier == "quick" else 250000
    for i in range(n):
        maxf = M64 if i % 3 else rng.choice([63, 255, (1 << 33)])
        l = gen_list(rng, maxf)
        cases.append(dict(list=l, probes=probes_for(rng, l, M64, cap=60)))
    # exhaustive tiny universe: every arrangement of up to 4 distinct frames out of a 5-frame window
    # placed at the bottom, around 2^31 / 2^32 and at the top of the frame space
    import itertools
    bases = [0, M64 - 4] if R.tier == "quick" else [0, M64 - 4, (1 << 31) - 2, (1 << 32) - 2]
    for base in bases:
        for k in (2, 3, 4):
            perms = list(itertools.permutations(range(5), k))
            if R.tier == "quick":
                perms = rng.sample(perms, min(len(perms), 70))
            for perm in perms:
                l = [base + x for x in perm]
                cases.append(dict(list=l, probes=sorted({(base + x) & M64 for x in range(-1, 6)} | {0, M64})))
    # allocation failure: a sample of lists, every realloc of the build fails once
    fails = []
    for c in rng.sample(cases, 25 if R.tier == "quick" else 300):
        if c["list"]:
            fails.append(c)
    big = [f for i in range(40) for f in (5000 * i, 5000 * i + 1, 5000 * i + 2)] + [10 ** 6 + 3 * i for i in range(40)]
    bigc = dict(list=big, probes=probes_for(rng, big, M64, cap=20))
    cases.append(bigc)
    fails.append(bigc)
    return cases, fails


def a_lines(case, failat=0):
    l = case["list"]
    return [("build %d %d %s" % (failat, len(l), " ".join(map(str, l)))).rstrip()] + ["search %d" % p for p in case["probes"]]


def a_check(case, outs):
    """property on the implementation's outputs for one case; returns message or None"""
    l = case["list"]
    want = index_of(l)
    if not outs or not outs[0].startswith("build ok"):
        return 0, "building the index of a %d-frame list failed: %s" % (len(l), outs[0] if outs else "no output")
    ranges, singles = parse_map(outs[0])
    items, clash = map_items(ranges, singles)
    if clash is not None or items != want:
        miss = [f for f in want if items.get(f) != want[f]]
        extra = [f for f in items if f not in want]
        return 0, "index does not describe the page list: frames with wrong/missing index %s, frames not listed %s" % (miss[:4], extra[:4])
    for k, (p, o) in enumerate(zip(case["probes"], outs[1:]), 1):
        exp = "search %d" % want[p] if p in want else "search none"
        if o != exp:
            return k, "frame %#x is %s but the search says '%s' (expected '%s')" % (
                p, "page #%d of the list" % want[p] if p in want else "not listed", o, exp)
    if len(outs) != 1 + len(case["probes"]):
        return len(outs), "harness stopped"
    return None, None


# ------------------------------------------------------------------ group D (frames listed more than once; implementation only)
def group_d(R):
    rng = R.rng
    cases = [dict(list=l, probes=sorted(set(l) | {0, 4, 8, M64})) for l in
             ([5, 5], [5, 6, 5], [5, 6, 7, 6], [7, 6, 5, 6], [1, 2, 3, 1, 2, 3], [3, 2, 1, 3, 2, 1], [0, M64, 0], [9, 1, 9, 2, 9, 3])]
    for _ in range(300 if R.tier == "quick" else 6000):
        l = gen_list(rng, M64 if rng.random() < 0.5 else 255)
        if not l:
            continue
        for _ in range(rng.randint(1, 4)):
            src = rng.randrange(len(l))
            k = rng.choice([1, 1, 2, 3])
            piece = l[src:src + k]
            at = rng.randrange(len(l) + 1)
            l = l[:at] + piece + l[at:]
        cases.append(dict(list=l, probes=probes_for(rng, l, M64, cap=40)))
    return cases


def d_check(case, outs):
    """soundness only: an index that is returned holds the frame asked for; unlisted frames are missing"""
    l = case["list"]
    if not outs or not outs[0].startswith("build ok"):
        return 0, "building the index of a %d-frame list failed: %s" % (len(l), outs[0] if outs else "no output")
    listed = set(l)
    for k, (p, o) in enumerate(zip(case["probes"], outs[1:]), 1):
        if p in listed:
            t = o.split()
            if o == "search none":
                # runs that overlap because of the repeated frames defeat the early exit of the search; a dump
                # that lists a frame twice has no consistent view, so this is recorded, not reported
                case["missed"] = case.get("missed", 0) + 1
            elif len(t) != 2 or not t[1].isdigit() or int(t[1]) >= len(l) or l[int(t[1])] != p:
                return k, "frame %#x is listed (positions %s) but the search says '%s'" % (p, [i for i, f in enumerate(l) if f == p][:4], o)
        elif o != "search none":
            return k, "frame %#x is not listed but the search says '%s'" % (p, o)
    if len(outs) != 1 + len(case["probes"]):
        return len(outs), "harness stopped"
    return None, None


# ------------------------------------------------------------------ group B
def gen_tbl(rng, maxf, nonauto=True):
    pf = gen_list(rng, maxf)
    if not nonauto:
        return [(p, 0) for p in pf]
    mf = gen_list(rng, maxf, nseg=max(1, len(pf) // 2))
    tries = 0
    while len(mf) < len(pf) and tries < 50:
        extra = gen_list(rng, maxf, nseg=3)
        mf += [f for f in extra if f not in set(mf)]
        mf = list(dict.fromkeys(mf))
        tries += 1
    n = min(len(pf), len(mf))
    return list(zip(pf[:n], mf[:n]))


def group_b(R):
    rng = R.rng
    cases = []
    n = 3000 if R.tier == "quick" else 50000
    for i in range(n):
        shift = rng.choice([12, 12, 12, 13, 14, 16, 4, 1])
        maxf = (1 << (64 - shift)) - 1
        nonauto = rng.random() < 0.75
        tbl = gen_tbl(rng, maxf, nonauto)
        if i == 0:
            tbl = [(maxf, 0), (0, maxf), (5, 9), (6, 8), (7, 7)]
            nonauto = True
        mapoff = rng.choice([0x1000, 0x3430, 0x1008, 12345])
        pagesoff = rng.choice([0x4000, 0x10000, 1 << 40])
        pf = [e[0] for e in tbl]; mf = [e[1] for e in tbl]
        offs = [0, 1, (1 << shift) - 1, rng.randrange(1 << shift)]
        ops = []
        for f in probes_for(rng, pf, maxf, cap=12):
            ops.append(("p2m", (f << shift) + rng.choice(offs)))
            ops.append(("gp", 0, (f << shift) + rng.choice(offs)))
        for f in probes_for(rng, mf, maxf, cap=12) if nonauto else probes_for(rng, pf, maxf, cap=4):
            if nonauto:
                ops.append(("m2p", (f << shift) + rng.choice(offs)))
            ops.append(("gp", 1, (f << shift) + rng.choice(offs)))
        cases.append(dict(shift=shift, swap=int(rng.random() < 0.4), mapoff=mapoff, pagesoff=pagesoff, nonauto=int(nonauto), tbl=tbl, ops=ops))
    return cases


def b_lines(c):
    out = ["tbl %d %d %d %d %d %d %s" % (c["shift"], c["swap"], c["mapoff"], c["pagesoff"], c["nonauto"], len(c["tbl"]),
                                         " ".join("%d %d" % e for e in c["tbl"]))]
    for op in c["ops"]:
        out.append(" ".join(str(x) for x in op))
    return [l.rstrip() for l in out]


def b_check(c, outs):
    sh = c["shift"]; mask = (1 << sh) - 1
    pidx = index_of([e[0] for e in c["tbl"]]); midx = index_of([e[1] for e in c["tbl"]])
    if not outs or outs[0] != "tbl ok":
        return 0, "building the maps failed: %s" % (outs[0] if outs else "no output")
    for k, (op, o) in enumerate(zip(c["ops"], outs[1:]), 1):
        if op[0] in ("p2m", "m2p"):
            a = op[1]; f = a >> sh
            src, dst = (pidx, 1) if op[0] == "p2m" else (midx, 0)
            if not c["nonauto"] and op[0] == "m2p":
                continue
            if f in src:
                exp = "%s ok %d %d 1 1" % (op[0], (c["tbl"][src[f]][dst] << sh) & M64, a & mask)
            else:
                exp = "%s nodata" % op[0]
            what = "%s of %#x (frame %#x, %s)" % (op[0], a, f, "listed as page #%d" % src[f] if f in src else "not listed")
        else:
            as_, a = op[1], op[2]; f = a >> sh
            src = midx if (as_ == 1 and c["nonauto"]) else pidx
            if as_ == 1 and not c["nonauto"]:
                continue            # machine view of an auto-translated guest: outside the property (model only)
            exp = "gp ok %d %d" % (c["pagesoff"] + (src[f] << sh), 1 << sh) if f in src else "gp nodata"
            what = "page lookup in the %s view of %#x (frame %#x, %s)" % ("machine" if as_ else "guest", a, f,
                                                                          "listed as page #%d" % src[f] if f in src else "not listed")
        if o != exp:
            return k, "%s gives '%s', expected '%s'" % (what, o, exp)
    if len(outs) != 1 + len(c["ops"]):
        return len(outs), "harness stopped"
    return None, None


# ------------------------------------------------------------------ group C
def group_c(R):
    rng = R.rng
    cases = []
    n = 300 if R.tier == "quick" else 4000
    maxf = (1 << (64 - PS_SHIFT)) - 1
    for i in range(n):
        nonauto = i % 3 != 2
        be = i % 4 == 1
        tbl = gen_tbl(rng, maxf, nonauto)
        if len(tbl) > 48:
            tbl = tbl[:48]
        if i == 0:
            tbl = []
        entsz = 16 if nonauto else 8
        k = i % 6
        if k == 0:
            mapoff = 0x1000
        elif k == 1:
            mapoff = 0x3430
        elif k == 2:
            mapoff = 0x1000 + rng.choice([8, 24, 40, 1000])         # 8-aligned (the fields are uint64_t), not 16-aligned
        elif k == 3:
            # p2m: a record straddles the end of a file cache block; pfn: the boundary falls between two records
            j = rng.randint(0, max(0, len(tbl) - 1))
            mapoff = rng.choice([1, 2]) * FCACHE_BLOCK - entsz * j - 8
        elif k == 4:
            # the block boundary falls between two records
            j = rng.randint(0, max(0, len(tbl)))
            mapoff = FCACHE_BLOCK - entsz * j
        else:
            mapoff = rng.choice([0x800, 0x2000, 0x10000])
        order = rng.choice([None, None, [0, 2, 1], [1, 0, 2], [1, 2, 0], [2, 0, 1], [2, 1, 0]])
        pad = rng.choice([0, 0, 0, rng.randint(1, entsz - 1)])
        cases.append(dict(nonauto=int(nonauto), be=int(be), mapoff=mapoff, order=order, pad=pad, tbl=tbl,
                          note_name=".note.Xen" if (be or rng.random() < 0.5) else "Xen", hist=(i % 2 == 1 or i % 10 == 0)))
    return cases


# Option changes that flag the translation dirty (vtop.c: dirty_xlat_ops).  GOOD: the set-up succeeds
# with them on the generated dumps; BAD: (change that makes addrxlat_sys_os_init fail, its kind for the
# model: 1 = after the wipe, 2 = before it, change that repairs it).
GOOD_OPTS = {
    0: ["addrxlat.default.phys_bits n %d" % b for b in (36, 40, 46, 52)] + ["addrxlat.force.phys_bits n 44", "addrxlat.force.phys_bits c 0",
        "addrxlat.default.version_code n 328704", "addrxlat.force.version_code n 393473", "addrxlat.force.version_code c 0",
        "addrxlat.default.virt_bits n 57", "addrxlat.default.virt_bits n 48", "addrxlat.default.page_shift n 12",
        "addrxlat.ostype s linux", "addrxlat.ostype s xen", "addrxlat.default.os_type s linux", "xen.p2m_mfn a 4096",
        "addrxlat.default.xen_xlat n 1"],
    1: ["addrxlat.default.phys_bits n %d" % b for b in (36, 40, 46, 52)] + ["addrxlat.force.phys_bits n 44", "addrxlat.force.phys_bits c 0",
        "addrxlat.default.version_code n 328704", "addrxlat.force.version_code n 393473", "addrxlat.force.version_code c 0",
        "addrxlat.default.virt_bits n 57", "addrxlat.default.virt_bits c 0", "addrxlat.default.page_shift n 12",
        "addrxlat.default.xen_xlat n 1"],
}
BAD_OPTS = {
    0: [("addrxlat.default.virt_bits c 0", 1, "addrxlat.default.virt_bits n 48"),
        ("addrxlat.default.virt_bits n 13", 1, "addrxlat.default.virt_bits n 48"),
        ("addrxlat.force.arch s bogus", 2, "addrxlat.force.arch c 0")],
    1: [("addrxlat.force.arch s bogus", 2, "addrxlat.force.arch c 0")],
}


def reinit_ops(rng, c):
    """one change of the translation set-up; returns protocol tuples ("reinit", fetch, os, key, kind, value) / ("kv", addr)"""
    be = c["be"]
    def ri(fetch, os_, opt):
        k, kind, val = opt.split()
        return ("reinit", fetch, os_, k, kind, val)
    r = rng.random()
    if r < 0.55:
        return [ri(1, 0, rng.choice(GOOD_OPTS[be]))]
    if r < 0.75:
        # several changes, then one lazy set-up by a read that needs translation
        return [ri(0, 0, rng.choice(GOOD_OPTS[be])) for _ in range(rng.randint(1, 3))] + [("kv", rng.choice([0, 0xffffffff80000000, 0x1000]))]
    bad, kind, fix = rng.choice(BAD_OPTS[be])
    good = [o for o in GOOD_OPTS[be] if o.split()[0] != bad.split()[0]]
    good = [o for o in good if not o.startswith("addrxlat.ostype")]
    # (the x86-64 set-up needs the paging mode for a Linux guest only: pin the OS type first)
    pre = [ri(1, 0, "addrxlat.ostype s linux")] if not be else []
    again = [("reinit", 1, kind, "-", "x", "0")]           # the application asks again without changing anything
    mid = again if rng.random() < 0.6 else again + [ri(1, kind, rng.choice(good))] if rng.random() < 0.5 else [ri(1, kind, rng.choice(good))] + again
    return pre + [ri(1, kind, bad)] + mid + [ri(1, 0, fix)]


def c_ops(R, c):
    rng = R.rng
    maxf = (1 << (64 - PS_SHIFT)) - 1
    pf = [e[0] for e in c["tbl"]]; mf = [e[1] for e in c["tbl"]]
    ops = c_ops_plain(R, c)
    if c.get("hist"):
        # histories: the same kinds of operations again after each change of the translation set-up
        first = list(ops)
        for _ in range(rng.randint(1, 3)):
            ops += reinit_ops(rng, c)
            ops += rng.sample(first, min(len(first), rng.randint(6, 14)))
    return ops


def c_ops_plain(R, c):
    rng = R.rng
    maxf = (1 << (64 - PS_SHIFT)) - 1
    pf = [e[0] for e in c["tbl"]]; mf = [e[1] for e in c["tbl"]]
    ops = []
    for f in probes_for(rng, pf, maxf, cap=16):
        ops.append(("page", 0, f))
        if c["nonauto"]:
            ops.append(("conv", 0, 1, (f << PS_SHIFT) + rng.choice([0, 8, 0x123, 0xfff])))
        if f in pf and rng.random() < 0.3:
            ops.append(("rd", 0, (f << PS_SHIFT) + rng.choice([0, 8, 0x10, 0x123, 0xff8])))
    if c["nonauto"]:
        for f in probes_for(rng, mf, maxf, cap=16):
            ops.append(("page", 1, f))
            ops.append(("conv", 1, 0, (f << PS_SHIFT) + rng.choice([0, 8, 0x123, 0xfff])))
            if f in mf and rng.random() < 0.3:
                ops.append(("rd", 1, (f << PS_SHIFT) + rng.choice([0, 8, 0x10, 0x123, 0xff8])))
    else:
        for f in probes_for(rng, pf, maxf, cap=3):
            ops.append(("page", 1, f))
    return ops


def c_write(R, c, path):
    return dumpgen.write_xc_core(path, c["tbl"], p2m=bool(c["nonauto"]), ps=1 << PS_SHIFT, be=bool(c["be"]),
                                 machine="s390x" if c["be"] else "x86_64", map_off=c["mapoff"], sect_order=c["order"],
                                 pad_entries=c["pad"], note_name=c["note_name"].encode())


def c_lines(c, path, info, reopen=None, close=True):
    """reopen: None = a new context; 0 / 1 = the context that is open is given this file (kdump_open_fd / file.fd)"""
    out = ["dump %d %d %d %d %d %d %s" % (c["nonauto"], c["be"], PS_SHIFT, info["map_off"], info["pages_off"], len(c["tbl"]),
                                          " ".join("%d %d" % e for e in c["tbl"])),
           "open %s %d" % (path, 0 if c["be"] else 48) if reopen is None else "reopen %s %d %d" % (path, 0 if c["be"] else 48, reopen)]
    for op in c["ops"]:
        out.append(" ".join(str(x) for x in op))
    if close:
        out.append("close")
    return [l.rstrip() for l in out]


# ------------------------------------------------------------------ group C, re-open histories
def group_c_chains(R):
    """Histories on ONE context: 2-4 dumps opened one after the other (kdump_open_fd again / file.fd set again), of
    both kinds in any order (PV->HVM, HVM->PV, PV->PV, HVM->HVM), the later page lists fresh or derived from the
    earlier one (same guest frames with other machine frames, a permutation, a part), so that anything left behind
    by an earlier dump would be visible.  Returns a list of chains (lists of stage dicts)."""
    rng = R.rng
    maxf = (1 << (64 - PS_SHIFT)) - 1
    chains = []
    n = 36 if R.tier == "quick" else 500
    for i in range(n):
        nst = rng.choice([2, 2, 3, 3, 4])
        same_arch = rng.random() < 0.7
        be0 = rng.random() < 0.3
        kinds = [rng.random() < 0.55 for _ in range(nst)]
        if i < 4:
            kinds = [[True, False], [False, True], [True, True], [False, False]][i] + kinds[2:]
        stages = []
        for k in range(nst):
            nonauto = kinds[k]
            be = be0 if same_arch else rng.random() < 0.4
            prev = stages[-1]["tbl"] if stages else []
            r = rng.random()
            if prev and r < 0.55:
                # derived from the page list of the dump before: the same guest frames, permuted / thinned out /
                # with a few new ones, machine frames (if any) partly kept, partly exchanged among the records
                t = list(prev)
                if rng.random() < 0.5:
                    rng.shuffle(t)
                if len(t) > 2 and rng.random() < 0.5:
                    t = rng.sample(t, rng.randint(1, len(t) - 1))
                pf = [e[0] for e in t]
                mf = [e[1] for e in t] if prev and any(e[1] for e in prev) else []
                have = set(pf)
                for f in gen_list(rng, maxf, nseg=2):
                    if f not in have and rng.random() < 0.5:
                        have.add(f); pf.append(f)
                if nonauto:
                    mset = set(mf)
                    while len(mf) < len(pf):
                        f = rng.choice([rng.randrange(1 << 24), rng.randrange(maxf + 1), pf[len(mf)]])
                        if f not in mset:
                            mset.add(f); mf.append(f)
                    mf = mf[:len(pf)]
                    if rng.random() < 0.6:
                        rot = rng.randint(1, max(1, len(mf) - 1))
                        mf = mf[rot:] + mf[:rot]
                    tbl = list(zip(pf, mf))
                else:
                    tbl = [(f, 0) for f in pf]
            else:
                tbl = gen_tbl(rng, maxf, nonauto)
            tbl = tbl[:32]
            entsz = 16 if nonauto else 8
            mapoff = rng.choice([0x1000, 0x1000, 0x3430, 0x1008, 0x2000, FCACHE_BLOCK - entsz * rng.randint(0, max(0, len(tbl))) - rng.choice([0, 8])])
            stages.append(dict(nonauto=int(nonauto), be=int(be), mapoff=mapoff, order=rng.choice([None, None, [1, 0, 2], [2, 1, 0]]),
                               pad=rng.choice([0, 0, rng.randint(1, entsz - 1)]), tbl=tbl,
                               note_name=".note.Xen" if (be or rng.random() < 0.5) else "Xen",
                               hist=same_arch and rng.random() < 0.3, how=0 * rng.randint(0, 1)))      # how=1 (file.fd set again) hangs kdump_free: left open, see evidence notes
        chains.append(stages)
    return chains


def chain_name(stages):
    return " -> ".join("%s(%s,%d pages)" % ("PV/.xen_p2m" if s["nonauto"] else "HVM/.xen_pfn", "be" if s["be"] else "le", len(s["tbl"])) for s in stages)


def tag_bytes(idx, pfn):
    import struct
    return struct.pack("<QQ", idx, pfn)


def c_check(c, outs):
    """outs: observation lines for open + ops"""
    pf = [e[0] for e in c["tbl"]]; mf = [e[1] for e in c["tbl"]]
    pidx = index_of(pf); midx = index_of(mf)
    if not outs or outs[0] not in ("open ok", "reopen ok"):
        return 0, "the dump cannot be opened: %s" % (outs[0] if outs else "no output")
    mask = (1 << PS_SHIFT) - 1
    changes = []
    for k, (op, o) in enumerate(zip(c["ops"], outs[1:]), 1):
        if op[0] == "reinit":
            fetch, os_, key = op[1], op[2], op[3]
            changes.append("%s %s %s" % (key, op[4], op[5]) if op[4] != "x" else "(no change: kdump_get_addrxlat again)")
            t = o.split()
            if len(t) != 3 or t[1] != "ok":
                return k, "changing %s (%s %s) failed: '%s'" % (key, op[4], op[5], o)
            if fetch and os_ == 0 and t[2] != "ok":
                return k, "after the option change %s the translation cannot be set up again: kdump_get_addrxlat says '%s'" % (changes[-1], t[2])
            if fetch and os_ == 1 and t[2] == "ok":
                # (os_ == 2, a set-up refused before the system is touched, is compared through the model only: the
                # system that is handed out then still has the methods of the dump)
                return k, ("kdump_get_addrxlat reports success although the translation set-up fails with the options at hand "
                           "(changes so far: %s): a failed set-up was forgotten and the reset translation system, which lacks the "
                           "guest<->machine methods of the dump, is handed out" % "; ".join(changes[-3:]))
            continue
        if op[0] == "kv":
            continue
        if op[0] == "page":
            as_, f = op[1], op[2]
            if as_ == 1 and not c["nonauto"]:
                continue
            src = midx if as_ == 1 else pidx
            exp = "page ok %d %d 1" % (src[f], pf[src[f]]) if f in src else "page nodata"
            what = "%s frame %#x (%s)" % ("machine" if as_ else "guest", f, "page #%d of the dump" % src[f] if f in src else "not listed")
        elif op[0] == "rd":
            as_, a = op[1], op[2]; f = a >> PS_SHIFT
            src = midx if as_ == 1 else pidx
            if f in src:
                t = tag_bytes(src[f], pf[src[f]]) * 2
                o16 = a & 15
                exp = "rd ok " + t[o16:o16 + 8].hex()
            else:
                exp = "rd nodata -"
            what = "8 bytes at %s address %#x" % ("machine" if as_ else "guest", a)
        else:
            fr, to, a = op[1], op[2], op[3]; f = a >> PS_SHIFT
            src, dst = (pidx, 1) if fr == 0 else (midx, 0)
            exp = "conv ok %d" % ((c["tbl"][src[f]][dst] << PS_SHIFT) + (a & mask)) if f in src else "conv fail"
            what = "conversion of %s address %#x (%s)%s" % ("guest" if fr == 0 else "machine", a,
                                                            "page #%d" % src[f] if f in src else "frame not listed",
                                                            " after the translation was set up again (option changes: %s)" % "; ".join(changes[-4:]) if changes else "")
        if o != exp:
            return k, "%s: got '%s', expected '%s'" % (what, o, exp)
    if len(outs) != 1 + len(c["ops"]):
        return len(outs), "harness stopped"
    return None, None


# ------------------------------------------------------------------ running
class Runner:
    def __init__(self, R):
        self.R = R
        lib, cflags = R.build_lib()
        self.exe = R.build_harness("s_xen", ["s_xen.c"], lib=lib, cflags=cflags + ["-ffunction-sections", "-fdata-sections"],
                                   ldflags=["-Wl,--gc-sections", kdf.ALLOC_WRAP])

    def impl(self, lines, timeout=600):
        rc, out, err = self.R.run_harness(self.exe, stdin_text="\n".join(lines) + "\n", timeout=timeout)
        return rc, kdf.obs(out), err

    def model(self, lines):
        return kdf.obs(self.R.run_driver("xen", "\n".join(lines) + "\n"))


def nobs(line):
    """number of observation lines a protocol line produces"""
    w = line.split(" ", 1)[0]
    return 0 if w in ("dump", "close", "") else 1      # reinit, kv: one line each


def split_outs(blocks, outs):
    """blocks: list of line lists; returns list of observation slices (short if the harness stopped)"""
    res, pos = [], 0
    for b in blocks:
        n = sum(nobs(l) for l in b)
        res.append(outs[pos:pos + n])
        pos += n
    return res


def shrink_a(run, case):
    """ddmin over the page list of a failing group-A case; probes are recomputed for every candidate"""
    import random
    rng = random.Random(1)
    def fails(cands):
        blocks = [a_lines(c) for c in cands]
        rc, outs, err = run.impl([l for b in blocks for l in b])
        return [a_check(c, o)[1] is not None for c, o in zip(cands, split_outs(blocks, outs))]
    cur = case
    chunk = max(1, len(cur["list"]) // 2)
    rounds = 0
    while chunk >= 1 and rounds < 60:
        rounds += 1
        l = cur["list"]
        cands = []
        for s in range(0, len(l), chunk):
            nl = l[:s] + l[s + chunk:]
            cands.append(dict(list=nl, probes=sorted(set(probes_for(rng, nl, M64, cap=80)) | set(l))))
        if not cands:
            break
        res = fails(cands)
        hit = [c for c, f in zip(cands, res) if f]
        if hit:
            cur = hit[0]
            chunk = max(1, min(chunk, len(cur["list"]) // 2))
        elif chunk == 1:
            break
        else:
            chunk //= 2
    # keep only the failing probe
    blocks = [a_lines(cur)]
    rc, outs, err = run.impl(blocks[0])
    k, msg = a_check(cur, outs)
    if k:
        cur = dict(list=cur["list"], probes=[cur["probes"][k - 1]])
    return cur


def run(R):
    proof = R.prove(["Kdf.Props.C19"], THEOREMS)
    run_ = Runner(R)
    rng = R.rng
    evaluations = 0
    validated = 0
    first_diff = None
    kinds = {}
    nontrivial = set()
    reported = False
    samples = []

    def report(msg, replay):
        nonlocal reported
        if not reported:
            R.violation(msg, replay)
            reported = True

    # ---- group A
    cases, fails = group_a(R)
    blocks = [a_lines(c) for c in cases]
    lines = [l for b in blocks for l in b]
    rc, impl, err = run_.impl(lines)
    model = run_.model(lines)
    evaluations += len(lines); validated += len(impl)
    iouts = split_outs(blocks, impl)
    for c, b, o in zip(cases, blocks, iouts):
        k, msg = a_check(c, o)
        if msg:
            if k is not None and k >= len(o) and rc != 0:
                msg = "harness aborted (rc=%s): %s" % (rc, first_error(err))
            small = shrink_a(run_, c)
            sl = a_lines(small)
            rc2, o2, err2 = run_.impl(sl)
            k2, msg2 = a_check(small, o2)
            if msg2 and rc2 != 0 and k2 >= len(o2):
                msg2 = "harness aborted (rc=%s) on page list %s: %s" % (rc2, small["list"][:8], first_error(err2))
            report(msg2 or msg, dict(stream="xen", group="index", page_list=small["list"], searched=small["probes"],
                                     input="\n".join(sl) + "\n", impl_output=o2[:6], original_list_length=len(c["list"]),
                                     stderr=(err2 or err)[-1200:], broken_theorems=proof["broken"]))
            break
        if o and o[0].startswith("build ok"):
            rs, ss = parse_map(o[0])
            kind = "asc%d/desc%d/single%d" % (min(sum(1 for r in rs if r[2] > 0), 3), min(sum(1 for r in rs if r[2] < 0), 3), min(len(ss), 3))
            kinds[kind] = kinds.get(kind, 0) + 1
            if len(rs) + len(ss) >= 2 and rs:
                nontrivial.add(tuple(c["list"]))
    d = kdf.diff_streams(impl, model)
    if d is not None and first_diff is None:
        first_diff = dict(group="index", index=d, line=line_of(blocks, d), impl=impl[d] if d < len(impl) else None,
                          model=model[d] if d < len(model) else None)
    samples.append(dict(page_list=cases[len(special_lists()) + 1]["list"][:12]))

    # allocation failure points (model correspondence + sanity: a failed build reports SYSTEM, never a map)
    fl, fblocks = [], []
    for c in fails:
        bo = [o for cc, o in zip(cases, iouts) if cc is c]
        nr = 8
        if bo and bo[0] and bo[0][0].startswith("build ok"):
            rs, ss = parse_map(bo[0][0])
            nr = (len(rs) + 15) // 16 + (len(ss) + 15) // 16
        for k in range(1, nr + 2):
            b = a_lines(dict(list=c["list"], probes=c["probes"][:3]), failat=k)
            fblocks.append((c, k, nr, b))
    lines = [l for (_, _, _, b) in fblocks for l in b]
    rc, impl, err = run_.impl(lines)
    model = run_.model(lines)
    evaluations += len(lines); validated += len(impl)
    for (c, k, nr, b), o in zip(fblocks, split_outs([b for (_, _, _, b) in fblocks], impl)):
        exp_fail = k <= nr
        bad = None
        if not o:
            bad = "harness stopped (rc=%s): %s" % (rc, err.strip().split("\n")[0] if err.strip() else "")
        elif exp_fail and o[0] != "build system":
            bad = "realloc #%d of the build fails but the build reports '%s'" % (k, o[0][:40])
        elif not exp_fail and not o[0].startswith("build ok"):
            bad = "no allocation fails but the build reports '%s'" % o[0][:40]
        if bad:
            report(bad, dict(stream="xen", group="index-alloc", page_list=c["list"], failing_realloc=k, input="\n".join(b) + "\n",
                             impl_output=o[:4], stderr=err[-1200:]))
            break
    d = kdf.diff_streams(impl, model)
    if d is not None and first_diff is None:
        first_diff = dict(group="index-alloc", index=d, line=line_of([b for (_, _, _, b) in fblocks], d),
                          impl=impl[d] if d < len(impl) else None, model=model[d] if d < len(model) else None)

    # ---- group D: duplicates (outside the theorems' hypothesis; implementation only, no model diff:
    # the order qsort gives to equal keys is unspecified)
    dcases = group_d(R)
    blocks = [a_lines(c) for c in dcases]
    lines = [l for b in blocks for l in b]
    rc, impl, err = run_.impl(lines)
    evaluations += len(lines)
    for c, b, o in zip(dcases, blocks, split_outs(blocks, impl)):
        k, msg = d_check(c, o)
        if msg:
            if k >= len(o) and rc != 0:
                msg = "harness aborted (rc=%s): %s" % (rc, first_error(err))
            report(msg, dict(stream="xen", group="index-duplicates", page_list=c["list"], searched=c["probes"][k - 1:k] if k else [],
                             input="\n".join(b) + "\n", impl_output=o[:3], stderr=err[-1200:]))
            break
    kinds["lists-with-duplicates"] = len(dcases)
    nmiss = sum(1 for c in dcases if c.get("missed"))
    if nmiss:
        ex = next(c for c in dcases if c.get("missed"))
        R.notes.append("observation outside the property: in %d of %d page lists that name a frame more than once some listed frame is "
                       "reported missing (overlapping runs defeat the early exit of pfn2idx_map_search), e.g. list %s" % (nmiss, len(dcases), ex["list"][:16]))

    # ---- group B
    bcases = group_b(R)
    blocks = [b_lines(c) for c in bcases]
    lines = [l for b in blocks for l in b]
    rc, impl, err = run_.impl(lines)
    model = run_.model(lines)
    evaluations += len(lines); validated += len(impl)
    for c, b, o in zip(bcases, blocks, split_outs(blocks, impl)):
        k, msg = b_check(c, o)
        if msg:
            if k >= len(o) and rc != 0:
                msg = "harness aborted (rc=%s): %s" % (rc, first_error(err))
            small = shrink_b(run_, c, k)
            sl = b_lines(small)
            rc2, o2, err2 = run_.impl(sl)
            k2, msg2 = b_check(small, o2)
            report(msg2 or msg, dict(stream="xen", group="steps", page_shift=small["shift"], big_endian=small["swap"], p2m_layout=small["nonauto"],
                                     entries=small["tbl"], ops=small["ops"], input="\n".join(sl) + "\n", impl_output=o2[:4],
                                     stderr=(err2 or err)[-1200:], broken_theorems=proof["broken"]))
            break
        if len(c["tbl"]) >= 3:
            nontrivial.add(("b",) + tuple(c["tbl"]))
    d = kdf.diff_streams(impl, model)
    if d is not None and first_diff is None:
        first_diff = dict(group="steps", index=d, line=line_of(blocks, d), impl=impl[d] if d < len(impl) else None,
                          model=model[d] if d < len(model) else None)
    samples.append(dict(shift=bcases[1]["shift"], big_endian=bcases[1]["swap"], entries=bcases[1]["tbl"][:6]))

    # ---- group C
    ccases = group_c(R)
    blocks = []
    for i, c in enumerate(ccases):
        c["ops"] = c_ops(R, c)
        path = R.path("c19-%d.dump" % i)
        info = c_write(R, c, path)
        c["path"] = path
        blocks.append(c_lines(c, path, info))
    lines = [l for b in blocks for l in b]
    rc, impl, err = run_.impl(lines)
    model = run_.model(lines)
    nl = sum(nobs(l) for l in lines)
    evaluations += nl; validated += len(impl)
    for c, b, o in zip(ccases, blocks, split_outs(blocks, impl)):
        k, msg = c_check(c, o)
        layout = "%s/%s/mapoff%%16=%d%s" % ("p2m" if c["nonauto"] else "pfn", "be" if c["be"] else "le", c["mapoff"] % 16,
                                           "/straddle" if (c["mapoff"] // FCACHE_BLOCK != (c["mapoff"] + max(1, len(c["tbl"])) * (16 if c["nonauto"] else 8) - 1) // FCACHE_BLOCK) else "")
        kinds[layout] = kinds.get(layout, 0) + 1
        if msg:
            if k >= len(o) and rc != 0:
                msg = "harness aborted (rc=%s) while working on this dump: %s" % (rc, first_error(err))
            small, smsg = shrink_c(R, run_, c, k)
            report(smsg or msg, dict(stream="xen", group="file", layout=dict(p2m=small["nonauto"], big_endian=small["be"], map_offset=small["mapoff"],
                                                                     section_order=small["order"], trailing_bytes=small["pad"], note_name=small["note_name"]),
                                     entries=small["tbl"], ops=small["ops"], how="tools/dumpgen.py write_xc_core(path, entries, p2m, be=…, map_off=…) then harness/s_xen.c: open <path> <48|0>; ops",
                                     stderr=err[-1200:], broken_theorems=proof["broken"]))
            break
        if len(c["tbl"]) >= 3:
            nontrivial.add(("c",) + tuple(c["tbl"]))
    d = kdf.diff_streams(impl, model)
    if d is not None and first_diff is None:
        first_diff = dict(group="file", index=d, line=obs_line_of(blocks, d), impl=impl[d] if d < len(impl) else None,
                          model=model[d] if d < len(model) else None)
    samples.append(dict(layout="p2m" if ccases[1]["nonauto"] else "pfn", big_endian=ccases[1]["be"], map_offset=ccases[1]["mapoff"], entries=ccases[1]["tbl"][:6]))

    # ---- group C with allocation failures: every realloc() call of kdump_open_fd fails once.  An open that reports
    # success must give both views of the page list (c_check, as without a fault); a failure in one of the index arrays
    # is also predicted by the model (openCtx with the allocation oracle of that index; theorems open_ok_both_complete,
    # open_fails_when_mfn_index_fails, mapEnd_alloc_fails)
    maxf = (1 << (64 - PS_SHIFT)) - 1
    fcases = []
    def fcase(tbl, nonauto=1, be=0, mapoff=0x1000):
        fcases.append(dict(nonauto=nonauto, be=be, mapoff=mapoff, order=None, pad=0, tbl=tbl, note_name=".note.Xen", hist=False))
    b1, b2 = rng.randrange(1, 1 << 30), rng.randrange(1 << 31, 1 << 40)
    n1 = rng.randint(2, 40)
    fcase([(b1 + i, b2 + i) for i in range(n1)])                                   # one ascending run in both views
    fcase([(b1 + i, b2 + n1 - i) for i in range(n1)])                              # ... descending machine frames
    fcase([(b1 + i, b2 + 7 * i) for i in range(rng.choice([1, 16, 17, 33]))])      # isolated machine frames (the array of singles grows at 16, 32)
    fcase([(b1 + 5 * (i // 2) + i % 2, b2 + 9 * (i // 3) + i % 3) for i in range(rng.choice([32, 33, 34, 48]))], be=rng.randint(0, 1))  # 16+ short runs
    fcase([(b1 + i, 0) for i in range(n1)], nonauto=0)                             # pfn-only layout
    # the LAST record straddles two file-cache blocks (it is read through the bounce buffer): a failure while the last run is
    # flushed must not look at anything behind it (fix dbbeafb: the error path read one more record from the cursor)
    fcase([(0, 0)], mapoff=2 * FCACHE_BLOCK - 8)
    n2 = rng.randint(2, 9)
    fcase([(b1 + 3 * i, b2 + 5 * i) for i in range(n2)], mapoff=FCACHE_BLOCK - 16 * (n2 - 1) - 8, be=rng.randint(0, 1))
    pool = [c for c in ccases if c["tbl"]]
    for c in rng.sample(pool, min(len(pool), 6 if R.tier == "quick" else 120)):
        fcases.append(dict(c, hist=False))
    learn = []
    for i, c in enumerate(fcases):
        c["ops"] = c_ops_plain(R, c)
        c["path"] = R.path("c19-f%d.dump" % i)
        c["info"] = c_write(R, c, c["path"])
        learn.append("openf 0 - 0 %s %d" % (c["path"], 0 if c["be"] else 48))
    rc, out, err = R.run_harness(run_.exe, stdin_text="\n".join(learn + ["close"]) + "\n")
    labels = [l.split(" ", 2)[2] if len(l.split(" ", 2)) > 2 else "" for l in out.split("\n") if l.startswith("# reallocs")]
    if rc != 0 or len(labels) != len(fcases):
        raise kdf.CheckBroken("s_xen openf learning pass stopped (rc=%s, %d of %d): %s" % (rc, len(labels), len(fcases), err[-600:]))
    fblocks2 = []
    for c, lab in zip(fcases, labels):
        cnt = {"P": 0, "M": 0}
        for n, ch in enumerate(lab, 1):
            mp = ch.upper()
            if mp in cnt:
                cnt[mp] += 1
            k = cnt.get(mp, 0)
            b = c_lines(c, c["path"], c["info"])
            b[1] = "openf %d %s %d %s %d" % (n, mp, k, c["path"], 0 if c["be"] else 48)
            fblocks2.append((c, n, mp, k, lab, b))
    kinds["open-with-failing-realloc"] = len(fblocks2)
    kinds["open-with-failing-realloc:index-arrays"] = sum(1 for x in fblocks2 if x[2] != "-")
    lines = [l for x in fblocks2 for l in x[5]]
    rc, impl, err = run_.impl(lines)
    mblocks = [x[5] for x in fblocks2 if x[2] != "-"]
    model = run_.model([l for b in mblocks for l in b])
    evaluations += sum(nobs(l) for l in lines); validated += len(model)
    impl_m = []
    for (c, n, mp, k, lab, b), o in zip(fblocks2, split_outs([x[5] for x in fblocks2], impl)):
        if mp != "-":
            impl_m += o
        msg = None
        where = {"P": "realloc #%d of the guest-frame index" % k, "M": "realloc #%d of the machine-frame index" % k}.get(mp, "a realloc outside the frame indexes")
        if not o:
            msg = "harness aborted (rc=%s): %s" % (rc, first_error(err))
        elif o[0] == "open ok":
            kk, m2 = c_check(c, o)
            if m2 and kk >= len(o) and rc != 0:
                m2 = "harness aborted (rc=%s): %s" % (rc, first_error(err))
            if m2:
                msg = "kdump_open_fd reported success although realloc call #%d of the open (%s) failed, and then: %s" % (n, where, m2)
        elif o[0] == "open UNDOCUMENTED" or not o[0].startswith("open "):
            msg = "kdump_open_fd with realloc call #%d (%s) failing answered '%s'" % (n, where, o[0])
        if msg:
            report(msg, dict(stream="xen", group="file-alloc", layout=dict(p2m=c["nonauto"], big_endian=c["be"], map_offset=c["mapoff"]),
                             entries=c["tbl"], failing_realloc_of_open=n, realloc_calls_of_open=lab, which=where, ops=c["ops"][:40],
                             input="\n".join(b[:40]) + "\n", impl_output=o[:6], stderr=err[-1200:], broken_theorems=proof["broken"],
                             how="tools/dumpgen.py write_xc_core(path, entries, p2m, be=…, map_off=…) then harness/s_xen.c: openf <n> <map> <k> <path> <48|0>; ops"))
            break
    d = kdf.diff_streams(impl_m, model)
    if d is not None and first_diff is None and not reported:
        first_diff = dict(group="file-alloc", index=d, line=obs_line_of(mblocks, d), impl=impl_m[d] if d < len(impl_m) else None,
                          model=model[d] if d < len(model) else None)

    # ---- group C, re-open histories: the same context is given 2-4 dumps one after the other.  Each stage is
    # (1) checked against the page list of ITS dump (c_check) and (2) compared with the same operations on a
    # context that was created for this dump alone: nothing of the earlier dumps may reach the views.
    chains = group_c_chains(R)
    cblocks, fblocks, stages_flat = [], [], []
    for ci, stages in enumerate(chains):
        for k, c in enumerate(stages):
            c["ops"] = c_ops(R, c)
            if not c["nonauto"]:
                # machine view of an auto-translated guest: compared with the fresh context (and the model)
                pf = [e[0] for e in c["tbl"]]
                c["ops"] += [("page", 1, f) for f in probes_for(rng, pf, (1 << (64 - PS_SHIFT)) - 1, cap=6)]
            path = R.path("c19-h%d-%d.dump" % (ci, k))
            info = c_write(R, c, path)
            c["path"] = path; c["info"] = info
            cblocks.append(c_lines(c, path, info, reopen=None if k == 0 else c["how"], close=(k == len(stages) - 1)))
            fblocks.append(c_lines(c, path, info))
            stages_flat.append((ci, k, c))
    lines = [l for b in cblocks for l in b]
    flines = [l for b in fblocks for l in b]
    open(R.path("c19-chains.txt"), "w").write("\n".join(lines) + "\n")
    rc, impl, err = run_.impl(lines, timeout=120)
    model = run_.model(lines)
    rcf, fimpl, ferr = run_.impl(flines, timeout=120)
    evaluations += 2 * sum(nobs(l) for l in lines); validated += len(impl)
    for (ci, k, c), o, fo in zip(stages_flat, split_outs(cblocks, impl), split_outs(fblocks, fimpl)):
        stages = chains[ci]
        kind = "reopen:%s" % "->".join("p2m" if s["nonauto"] else "pfn" for s in stages[:k + 1][-2:]) if k else None
        if kind:
            kinds[kind] = kinds.get(kind, 0) + 1
        kk, msg = c_check(c, o)
        if msg and kk >= len(o) and rc != 0:
            msg = "harness aborted (rc=%s): %s" % (rc, first_error(err))
        if not msg and k > 0:
            for j, (a, b) in enumerate(zip(o[1:], fo[1:]), 1):
                if a != b:
                    op = c["ops"][j - 1]
                    kk = j
                    msg = ("'%s' gives '%s' on a context that had %s open before, but '%s' on a context created for this dump" %
                           (" ".join(str(x) for x in op), a, chain_name(stages[:k]), b))
                    break
            if not msg and len(o) != len(fo):
                kk, msg = min(len(o), len(fo)), "the harness stopped (re-opened context: %d lines, fresh context: %d lines): %s" % (len(o), len(fo), first_error(err or ferr))
        if msg:
            hist = chain_name(stages[:k + 1])
            # shrink: drop leading dumps of the history, then all operations but the failing one
            small, smsg = shrink_chain(R, run_, stages[:k + 1], kk)
            report("re-open history %s: dump #%d, %s" % (chain_name(small), len(small), smsg or msg),
                   dict(stream="xen", group="file-reopen", history=[dict(p2m=s["nonauto"], big_endian=s["be"], map_offset=s["mapoff"], section_order=s["order"],
                                                                    trailing_bytes=s["pad"], note_name=s["note_name"], entries=s["tbl"],
                                                                    reopened_by=None if n == 0 else ["kdump_open_fd", "file.fd attribute"][s["how"]],
                                                                    ops=s["ops"]) for n, s in enumerate(small)],
                        original_history=hist,
                        how="tools/dumpgen.py write_xc_core for each dump, then harness/s_xen.c: open <path1> <48|0>; ops; reopen <path2> <48|0> <how>; ops ...",
                        stderr=err[-1200:], broken_theorems=proof["broken"]))
            break
        if len(c["tbl"]) >= 3 and k > 0:
            nontrivial.add(("h", tuple(s["nonauto"] for s in stages[:k + 1])) + tuple(c["tbl"]))
    d = kdf.diff_streams(impl, model)
    if d is not None and first_diff is None:
        first_diff = dict(group="file-reopen", index=d, line=obs_line_of(cblocks, d), impl=impl[d] if d < len(impl) else None,
                          model=model[d] if d < len(model) else None)
    samples.append(dict(reopen_history=chain_name(chains[4]) if len(chains) > 4 else None))

    if not reported and (proof["broken"] or first_diff is not None):
        R.violation("proof obligation or correspondence broken: theorems %s; first differing line %s" % (proof["broken"], first_diff),
                    dict(stream="xen", broken_theorems=proof["broken"], lean_log=proof["log"][-1500:], first_diff=first_diff),
                    found_input=False)

    cov = dict(obligations=max(proof["obligations"], 1), discharged=proof["discharged"],
               checker_cmd="cd lean && lake build Kdf.Props.C19 && #print axioms on each theorem",
               trusted_base=["Lean 4 kernel", "axioms: " + ", ".join(sorted({a for v in proof["axioms"].values() for a in v}) or ["none"]),
                             "qsort sorts (modelled by List.mergeSort with the comparators of the C code)",
                             "realloc succeeds or fails as scheduled and preserves content",
                             "pread/file cache return the file's bytes (exercised, not modelled, in group C)",
                             "harness/s_xen.c, tools/dumpgen.py write_xc_core, gcc + ASan/UBSan"],
               broken_theorems=proof["broken"], theorems=THEOREMS, evaluations=evaluations, distinct_nontrivial=len(nontrivial),
               rule="A: page lists of pairwise distinct frames over [0,2^64): ascending/descending runs, pairs, isolated frames, pieces numerically "
                    "adjacent but listed apart, anchors at 0, 2^31, 2^32, 2^63, 2^64-1, all orders; all arrangements of <=4 of 5 frames at the ends "
                    "of the frame space; every listed frame, its neighbours (+-1, +-2), 0 and 2^64-1 searched; each realloc of sampled builds failed once. "
                    "B: first-step functions and xc_get_page on in-memory tables, shifts 1..16, both byte orders. C: generated xc_core files "
                    "(p2m/pfn, LE x86_64 / BE s390x, list section aligned / unaligned / straddling a 4 MiB file-cache block, section order, trailing bytes), "
                    "kdump_read of every listed and neighbouring frame in both address spaces, conversions both ways; in half of the files as a HISTORY: "
                    "1-3 changes of the translation set-up (addrxlat.default.* / addrxlat.force.* / addrxlat.ostype / xen.p2m_mfn set or cleared, "
                    "followed by kdump_get_addrxlat or by a read in the kernel virtual space; set-ups that fail after or before the reset of the "
                    "translation system, asked for again without a change, then repaired), the same reads and conversions after each. RE-OPEN HISTORIES: 36 (quick) chains of 2-4 dumps "
                    "given to ONE context by kdump_open_fd (PV->HVM, HVM->PV, PV->PV, HVM->HVM; later page lists fresh or derived from the earlier one: permuted, thinned, "
                    "machine frames exchanged; same or changing byte order/architecture; option-change histories inside a stage), every stage checked against its own page list "
                    "and against a context created for that dump alone, machine view of auto-translated dumps included. non-trivial = distinct lists with a run and a second piece / tables with >=3 records",
               traces_validated_against_impl=validated, correspondence_first_diff=first_diff, case_kinds=kinds, samples=samples[:3])
    return "proof", cov, ["page lists with pairwise distinct frame numbers (a frame listed twice has no single page to compare)",
                          "fewer than 2^63 list entries (int_fast64_t run length cannot overflow)",
                          "frame numbers below 2^(64-page_shift) where byte addresses are formed",
                          "qsort sorts; realloc/pread behave as specified",
                          "opens with a failing realloc: which index array a realloc call of kdump_open_fd grows is learnt from a fault-free open of the same "
                          "file (harness/alloc.h realloc hook; the open is deterministic); realloc calls outside the two indexes have no model twin",
                          "histories: whether addrxlat_sys_os_init succeeds with the options at hand is a parameter of the model (given by the "
                          "generator for each step: the listed option changes succeed on the generated x86_64 / s390x domain dumps, a missing or "
                          "13-bit paging mode and an unknown architecture name fail); the address translation of libaddrxlat itself is C08/C09's subject",
                          "re-open histories: 2-4 dumps on one context through kdump_open_fd; model: Ctx/openCtx (stored xen.xlat number survives "
                          "clear_volatile_attrs, maps rebuilt per open), theorems reopen_*/history_last_only; the comparison of every re-opened dump with "
                          "the same operations on a context created for it is implementation-only; every (re-)open and the set-up after it succeed",
                          "LEFT OPEN: re-opening by setting the file.fd attribute on a context that has a dump open is not exercised: after "
                          "kdump_set_number_attr(ctx, \"file.fd\", fd2) on such a context kdump_free(ctx) blocks forever in rwlock_wrlock(&shared->lock) "
                          "(harness input: open <pv.dump> 48 / reopen <hvm.dump> 48 1 / close); not analysed within the time budget"]


def first_error(err):
    for l in err.split("\n"):
        if "runtime error" in l or "ERROR: AddressSanitizer" in l or "SUMMARY" in l:
            return l.strip()[:300]
    return err.strip().split("\n")[0][:300] if err.strip() else ""


def line_of(blocks, d):
    lines = [l for b in blocks for l in b]
    return lines[d] if d < len(lines) else None


def obs_line_of(blocks, d):
    lines = [l for b in blocks for l in b if nobs(l)]
    return lines[d] if d < len(lines) else None


def shrink_b(run, c, k):
    """drop table records while the failure persists; keep only the failing operation"""
    cur = dict(c)
    if 1 <= k <= len(c["ops"]):
        cur["ops"] = [c["ops"][k - 1]]
    def bad(x):
        rc, o, err = run.impl(b_lines(x))
        return b_check(x, o)[1] is not None
    if not bad(cur):
        return c
    i = 0
    while i < len(cur["tbl"]) and len(cur["tbl"]) > 0:
        cand = dict(cur); cand["tbl"] = cur["tbl"][:i] + cur["tbl"][i + 1:]
        if bad(cand):
            cur = cand
        else:
            i += 1
    return cur


def shrink_c(R, run, c, k):
    cur = dict(c)
    if 1 <= k <= len(c["ops"]):
        if any(op[0] in ("reinit", "kv") for op in c["ops"][:k]):
            # a history: what a step means depends on the option changes before it -- keep them, drop the plain
            # operations in between
            cur["ops"] = [op for op in c["ops"][:k - 1] if op[0] in ("reinit", "kv")] + [c["ops"][k - 1]]
        else:
            cur["ops"] = [c["ops"][k - 1]]
    path = R.path("c19-shrink.dump")
    def bad(x):
        info = c_write(R, x, path)
        rc, o, err = run.impl(c_lines(x, path, info))
        kk, m = c_check(x, o)
        if m and kk >= len(o) and rc != 0:
            m = "harness aborted (rc=%s) while working on this dump: %s" % (rc, first_error(err))
        return m
    m = bad(cur)
    if not m and k >= 1:
        cur = dict(c); cur["ops"] = c["ops"][:k]      # the failure may depend on the operations before it
        m = bad(cur)
    if not m:
        cur = dict(c)
        m = bad(cur)
        if not m:
            return c, None
    i, budget = 0, 80
    while i < len(cur["tbl"]) and budget > 0:
        budget -= 1
        cand = dict(cur); cand["tbl"] = cur["tbl"][:i] + cur["tbl"][i + 1:]
        # keep a straddling layout straddling: the map offset is kept, only records go away
        m2 = bad(cand)
        if m2:
            cur, m = cand, m2
        else:
            i += 1
    return cur, m


def chain_eval(R, run, stages):
    """run a history and the fresh-context counterpart of its last dump; message or None for the LAST stage"""
    blocks, last = [], None
    for k, c in enumerate(stages):
        path = R.path("c19-hs-%d.dump" % k)
        info = c_write(R, c, path)
        blocks.append(c_lines(c, path, info, reopen=None if k == 0 else c["how"], close=(k == len(stages) - 1)))
        last = c_lines(c, path, info)
    rc, o, err = run.impl([l for b in blocks for l in b], timeout=20)
    rcf, fo, ferr = run.impl(last, timeout=20)
    o = split_outs(blocks, o)[-1]
    c = stages[-1]
    kk, m = c_check(c, o)
    if m and kk >= len(o) and rc != 0:
        return "harness aborted (rc=%s): %s" % (rc, first_error(err))
    if m:
        return m
    for j, (a, b) in enumerate(zip(o[1:], fo[1:]), 1):
        if a != b:
            return ("'%s' gives '%s' on the context that had the earlier dump(s) open, but '%s' on a context created for this dump" %
                    (" ".join(str(x) for x in c["ops"][j - 1]), a, b))
    if len(o) != len(fo):
        return "the harness stopped (re-opened context: %d lines, fresh context: %d lines): %s" % (len(o), len(fo), first_error(err or ferr))
    return None


def shrink_chain(R, run, stages, k):
    cur = [dict(s) for s in stages]
    m = chain_eval(R, run, cur)
    if not m:
        return stages, None
    # earlier dumps: without their operations, then without the dumps themselves
    for i in range(len(cur) - 1):
        cand = [dict(s) for s in cur]; cand[i]["ops"] = [op for op in cand[i]["ops"] if op[0] in ("reinit", "kv")]
        m2 = chain_eval(R, run, cand)
        if m2:
            cur, m = cand, m2
    while len(cur) > 2:
        cand = cur[1:]
        m2 = chain_eval(R, run, cand)
        if not m2:
            break
        cur, m = cand, m2
    # the failing operation alone (with the option changes before it)
    last = cur[-1]
    if 1 <= k <= len(last["ops"]):
        cand = cur[:-1] + [dict(last, ops=[op for op in last["ops"][:k - 1] if op[0] in ("reinit", "kv")] + [last["ops"][k - 1]])]
        m2 = chain_eval(R, run, cand)
        if m2:
            cur, m = cand, m2
    # records of every dump
    for si in range(len(cur)):
        i, budget = 0, 40
        while i < len(cur[si]["tbl"]) and budget > 0:
            budget -= 1
            cand = [dict(s) for s in cur]
            cand[si]["tbl"] = cur[si]["tbl"][:i] + cur[si]["tbl"][i + 1:]
            m2 = chain_eval(R, run, cand)
            if m2:
                cur, m = cand, m2
            else:
                i += 1
    return cur, m
