"""C13 — the attribute tree behaves like a typed hierarchical dictionary.

(1) property: random histories of the public attribute API on real contexts
    are evaluated against an independent dictionary oracle written here
    (nested dicts, no hash table, no sibling lists, no flags beyond
    "set by the application");
(2) correspondence: the same lines run through the Lean model of attr.c
    (lean/Kdf/Model/Attr.lean, stream `attr`), every observation diffed.
"""
import os, re, struct, json
import kdf, dumpgen

THEOREMS = ["Kdf.Props.C13." + t for t in (
    "get_after_set", "set_frame", "set_wrong_type_noop", "clear_subtree_unset", "clear_frame",
    "iter_each_set_child_once", "newAttr_wf", "lookup_sound", "clone_falls_back", "clone_private_first",
    "persist_across_reopen", "volatile_dropped", "ancestors_kept", "failed_open_drops_volatile",
    "numFiles_rollback_sub", "numFiles_rollback_no_stale", "numFiles_fail_no_stale", "version_code_follows_release",
    "numFilesAlias_one", "fileFd_unset_unless_one", "clearHooked_clears_alias", "clearHooked_frame", "setFileFd_alias_set")]

M64 = (1 << 64) - 1
TYMAP = dict(number="num", address="addr", string="str", bitmap="bmp", blob="blob", directory="dir", nil="nil")
HOOKMAP = dict(vmcoreinfo_raw_ops="vmciRaw", num_files_ops="numFiles", ostype_ops="ostype", linux_ver_ops="utsRelease")
BENIGN = {None, "dirty_xlat_ops", "linux_dirty_xlat_ops", "xen_dirty_xlat_ops"}
NOSET = {"file.fd", "xen.version.extra_addr", "arch.byte_order", "file.mmap_policy", "cache.hits", "cache.misses", "file.mmap_cache.hits",
         "file.mmap_cache.misses", "file.read_cache.hits", "file.read_cache.misses"}


def py_hash(s):
    b = s.encode()
    val, i = 0, 0
    while len(b) - i >= 8:
        val = ((val + int.from_bytes(b[i:i + 8], "little")) & M64) * 9 & M64
        i += 8
    if i < len(b):
        val = (val + int.from_bytes(b[i:], "big")) & M64
    return ((val * 11400714819323198549) & M64) >> 54


def hexs(s):
    return s.encode().hex()


# ------------------------------------------------------------------ facts from the working tree
def key_table(tree):
    rows = []
    for fn in ("global-attr.def", "static-attr.def"):
        src = re.sub(r"/\*.*?\*/", "", open(os.path.join(tree, "src/kdumpfile", fn)).read(), flags=re.S)
        for m in re.finditer(r'ATTR\(\s*(\w+)\s*,\s*"([^"]*)"\s*,\s*(\w+)\s*,\s*(\w+)\s*,([^)]*?)'
                             r'(?:,\s*\.ops\s*=\s*&\s*(\w+)\s*)?\)', src, re.S):
            rows.append(dict(dir=m.group(1), key=m.group(2), field=m.group(3), ty=TYMAP[m.group(4)], ops=m.group(6)))
    idx = {r["field"]: i for i, r in enumerate(rows)}
    for r in rows:
        r["parent"] = idx["dir_" + r["dir"]]
    for i, r in enumerate(rows):
        c, j = [], i
        while rows[j]["field"] != "dir_root":
            c.append(rows[j]["key"]); j = rows[j]["parent"]
        r["path"] = ".".join(reversed(c))
    vt = open(os.path.join(tree, "src/kdumpfile/vtop.c")).read()
    opts = [(m.group(1), TYMAP[m.group(2).lower()]) for m in re.finditer(r"^\s*DEFOPT\((\w+),\s*KDUMP_(\w+)\)", vt, re.M)]
    cx = open(os.path.join(tree, "src/kdumpfile/context.c")).read()
    blk = cx[cx.index("numeric_attrs[]"):]
    blk = blk[:blk.index("};")]
    hdr = open(os.path.join(tree, "src/kdumpfile/kdumpfile-priv.h")).read()
    pub = open(os.path.join(tree, "include/libkdumpfile/kdumpfile.h.in")).read()
    sym = {"DEFAULT_CACHE_SIZE": int(re.search(r"#define\s+DEFAULT_CACHE_SIZE\s+(\d+)", hdr).group(1))}
    for i, n in enumerate(re.findall(r"^\s*(KDUMP_MMAP_\w+),", pub, re.M)):
        sym[n] = i
    inits = []
    for m in re.finditer(r"\{\s*GKI_(\w+)\s*,\s*(\w+)\s*\}", blk):
        v = m.group(2)
        inits.append((rows[idx[m.group(1)]]["path"], int(v) if v.isdigit() else sym[v]))
    return rows, opts, inits


def template_lines(rows, opts, inits):
    L = []
    for i, r in enumerate(rows):
        L.append("G %d %d %s %s %s" % (i, r["parent"], r["key"] or "@", r["ty"], HOOKMAP.get(r["ops"], "none")))
    for d in ("default", "force"):
        L.append("M addrxlat.%s" % d)
        for k, (n, t) in enumerate(opts):
            L.append("O addrxlat.%s %s %s %d" % (d, n, t, 10000 + k))
            if t == "dir":
                L.append("O addrxlat.%s.%s as num 10100" % (d, n))
                L.append("O addrxlat.%s.%s addr addr 10101" % (d, n))
    for p, v in inits:
        L.append("I %s num:%d" % (p, v))
    return L


# ------------------------------------------------------------------ the dictionary oracle
class PN:
    __slots__ = ("name", "ty", "parent", "hook", "val", "isset", "persist", "kids", "alive", "privroot", "settable")

    def __init__(s, name, ty, parent, hook=None, settable=True):
        s.name, s.ty, s.parent, s.hook, s.settable = name, ty, parent, hook, settable
        s.val, s.isset, s.persist, s.kids, s.alive, s.privroot = None, False, False, {}, True, False

    def path(s):
        c, n = [], s
        while n.parent is not None:
            c.append(n.name); n = n.parent
        return ".".join(reversed(c))

    def add(s, name, ty, hook=None, settable=True):
        k = PN(name, ty, s, hook, settable)
        s.kids[name] = k
        return k

    def walk(s):
        yield s
        for k in list(s.kids.values()):
            yield from k.walk()

    def show(s):
        if s.ty == "dir":
            return "dir"
        if s.ty == "num" and s.name in ("hits", "misses"):
            return "num:STAT"
        return s.val


def kill(n):
    for x in n.walk():
        x.alive = False


def parse_num(base, s):
    """strtoull + `if (*p) reject` for the forms the generator emits"""
    if s == "":
        return 0
    try:
        if s[:2] in ("0x", "0X"):
            if len(s) == 2 or not re.fullmatch(r"[0-9a-fA-F]+", s[2:]):
                return None
            v = int(s[2:], 16)
        elif base == 16:
            if not re.fullmatch(r"[0-9a-fA-F]+", s):
                return None
            v = int(s, 16)
        elif s[0] == "0" and len(s) > 1:
            if not re.fullmatch(r"[0-7]+", s):
                return None
            v = int(s, 8)
        else:
            if not re.fullmatch(r"[0-9]+", s):
                return None
            v = int(s, 10)
    except ValueError:
        return None
    return min(v, M64)


def kernel_version(rel):
    """linux_ver_revalidate: a[.b[.c[anything]]] -> (a << 16) + (b << 8) + c, None = invalid"""
    m = re.match(r"(\d+)(?:$|\.(\d+)(?:$|\.(\d+)))", rel)
    if not m:
        return None
    return (int(m.group(1)) << 16) + (int(m.group(2) or 0) << 8) + min(int(m.group(3) or 0), 255)     # KERNEL_VERSION caps c at 255


def release_text(rng):
    r = rng.random()
    a, b, c = rng.randint(2, 6), rng.randint(0, 19), rng.randint(0, 300)
    if r < 0.1:
        return "%d" % a
    if r < 0.2:
        return "%d.%d" % (a, b)
    return "%d.%d.%d%s" % (a, b, c, rng.choice(["", "", "-rc%d" % rng.randint(1, 8), "-%d.el9.x86_64" % rng.randint(1, 500), ".%d" % rng.randint(1, 99)]))


class World:
    def __init__(s, T):
        rows, opts, inits = T
        s.root = PN("", "dir", None)
        nodes = []
        for r in rows:
            if r["field"] == "dir_root":
                nodes.append(s.root); continue
            settable = (r["ops"] in BENIGN or r["ops"] in HOOKMAP) and r["path"] not in NOSET
            nodes.append(nodes[r["parent"]].add(r["key"], r["ty"], HOOKMAP.get(r["ops"]), settable))
        ax = s.root.kids["addrxlat"]
        for d in ("default", "force"):
            dn = ax.kids[d]
            a = dn
            while a is not None and not a.isset:          # create_addrxlat_dir instantiates the directory and its ancestors
                a.isset = True; a = a.parent
            for n, t in opts:
                o = dn.add(n, t)
                if t == "dir":
                    o.add("as", "num"); o.add("addr", "addr")
        for p, v in inits:
            s.plain(s.find(s.root, p), "num:%d" % v, True)
        s.mod = 0
        s.opened = False
        s.tainted = None

    @staticmethod
    def find(root, path):
        n = root
        for c in path.split("."):
            n = n.kids.get(c)
            if n is None:
                return None
        return n

    def plain(s, n, tok, persist):
        a = n.parent
        while a is not None and not a.isset:      # instantiate_path stops at the first set ancestor
            a.isset = True; a = a.parent
        if n.ty != "dir":
            n.val = tok
        n.isset, n.persist = True, persist

    # ---- dynamic creation
    def create(s, base, comps, ty, hook=None, settable=True):
        """returns node or None (refused: a leaf on the way); an existing target is returned whatever its
        type, the callers check it"""
        n = base
        if len(comps) > 1 and comps[0] == "":
            return None     # a path that starts with a dot is refused
        for i, c in enumerate(comps):
            last = i == len(comps) - 1
            k = n.kids.get(c)
            if k is None:
                if n.ty != "dir":
                    return None
                k = n.add(c, ty if last else "dir", hook if last else None, settable if last else True)
            n = k
        return n

    def dealloc_vmci(s, vdir):
        for c in vdir.kids.values():
            if c.ty == "dir":
                for k in list(c.kids.values()):
                    kill(k)
                c.kids.clear()

    def clear(s, n):
        raws = [x for x in n.walk() if x.hook == "vmciRaw"]
        slot0 = s.find(s.root, "file.set.0.fd")
        for x in n.walk():
            x.isset = False
            if x is slot0:
                s.find(s.root, "file.fd").isset = False     # file.fd is the legacy name of file.set.0.fd: cleared with it
        for r in raws:
            s.dealloc_vmci(r.parent)

    def line_hook(s, ln, lines):
        comps, n = [], ln
        while n is not lines:
            comps.append(n.name); n = n.parent
        key = ".".join(reversed(comps))
        vdir = lines.parent
        m = key.find("(")
        if m < 0:
            return "ok"
        rest = key[m + 1:]
        q = rest.find(")")
        if q < 0 or q != len(rest) - 1:
            return "ok"
        t, sym = key[:m], rest[:q]
        val = bytes.fromhex(ln.val[4:]).decode()
        if t == "SYMBOL":
            v, ty = parse_num(16, val), "addr"
        elif t in ("LENGTH", "NUMBER", "OFFSET", "SIZE"):
            v, ty = parse_num(0, val), "num"
        else:
            return "ok"
        if v is None:
            # not a number: the row is ignored, but a typed value that an earlier row with the same key left behind is
            # stale and cleared (parsed_line_hook since fix 13f1add)
            comps = [t] + sym.split(".")
            n = vdir
            for c in comps:
                n = n.kids.get(c) if n is not None else None
            if n is not None and n.ty == ty:
                s.clear(n)
            return "ok"
        a = s.create(vdir, [t] + sym.split("."), ty)
        if a is None:
            return "system"
        if a.ty != ty:
            return "invalid"
        s.plain(a, "%s:%d" % (ty, v), False)
        return "ok"

    def vmci_set(s, raw, text):
        vdir = raw.parent
        s.dealloc_vmci(vdir)
        rows = text.split("\n")
        if rows[-1] == "":
            rows.pop()
        lines = vdir.kids["lines"]
        for r in rows:
            k, _, v = r.partition("=")
            a = s.create(lines, k.split("."), "str", "vmciLine")
            if a is None:
                return "system"
            if a.ty != "str":
                return "invalid"
            tok = "str:" + hexs(v)
            skip = a.isset and a.val == tok
            s.plain(a, tok, False)
            if not skip:
                st = s.line_hook(a, lines)
                if st != "ok":
                    return st
        return "ok"

    def set(s, n, tok, blobtext=None):
        """check_set_attr; returns the status name"""
        s.mod += 1
        ty = tok.split(":")[0]
        if ty == "nil":
            s.clear(n); return "ok"
        if ty != n.ty:
            return "invalid"
        skip = n.isset and (n.ty == "dir" or n.val == tok)
        if not skip:
            if n.hook == "ostype" and tok not in ("str:" + hexs("linux"), "str:" + hexs("xen")):
                return "notimpl"
            if n.hook == "numFiles":
                new, cur = int(tok[4:]), int(n.val[4:])
                fs = n.parent
                for i in range(cur, new):
                    d = s.create(fs, [str(i)], "dir")
                    d.add("fd", "num", None, False); d.add("name", "str")
                for k in [k for k in fs.kids.values() if k.ty == "dir" and int(k.name) >= new]:
                    kill(k); del fs.kids[k.name]
        s.plain(n, tok, True)
        if not skip and n.hook == "numFiles" and int(tok[4:]) != 1:
            s.find(s.root, "file.fd").isset = False         # a set that is not one file has no legacy descriptor
        if not skip:
            if n.hook == "utsRelease":
                # linux.version_code is derived from the release string: every getter answers KERNEL_VERSION(a, b, c)
                s.plain(s.find(s.root, "linux.version_code"), "num:%d" % (kernel_version(bytes.fromhex(tok[4:]).decode()) or 0), False)
            if n.hook == "vmciRaw":
                return s.vmci_set(n, blobtext)
            if n.hook == "vmciLine":
                lines = n
                while not (lines.name == "lines" and lines.hook is None and lines.parent.name == "vmcoreinfo"):
                    lines = lines.parent
                return s.line_hook(n, lines)
        return "ok"

    def clear_volatile(s):
        raws = []

        def rec(n):
            keep = n.persist
            for k in n.kids.values():
                keep = rec(k) or keep
            if not keep:
                n.isset = False
                if n.hook == "vmciRaw":
                    raws.append(n)
            return keep
        rec(s.root)
        for r in raws:
            s.dealloc_vmci(r.parent)

    def open(s, slot, prov, failed=False):
        s.mod += 1
        fs = s.root.kids["file"].kids["set"]
        for d in list(fs.kids.values()):
            if d.ty == "dir":
                s.clear(d.kids["fd"])
        s.set(fs.kids["number"], "num:1")
        s.plain(fs.kids["0"].kids["fd"], "num:%d" % (100 + slot), True)
        # open_dump: the file cache counters and the mmap policy are (re)attached to the new file cache
        for p in ("file.mmap_policy", "file.mmap_cache.hits", "file.mmap_cache.misses",
                  "file.read_cache.hits", "file.read_cache.misses"):
            n = s.find(s.root, p)
            s.plain(n, n.val, True)
        s.clear_volatile()
        for path, tok, fl in prov:
            ty = tok.split(":")[0]
            n = s.find(s.root, path)
            if n is None:
                n = s.create(s.root, path.split("."), ty, None, False)
                if n is None or n.ty != ty:
                    continue
            if n.hook == "vmciRaw":
                s.dealloc_vmci(n.parent)
            if ty == "dir":
                a = n
                while a is not None and not a.isset:
                    a.isset = True; a = a.parent
            else:
                s.plain(n, tok, fl == "P")
        if failed:
            s.clear_volatile()       # open_dump tears a failed probe down: volatile attributes are cleared once more
        s.opened = True

    def fdopen(s, slot, prov):
        """kdump_set_attr(file.fd = descriptor), the legacy way to open: the value is stored (persistent), its hook opens a
        one-file set; afterwards file.fd and file.set.0.fd are two names of one value"""
        ffd = s.find(s.root, "file.fd")
        s.plain(ffd, "num:%d" % (100 + slot), True)
        s.open(slot, prov)
        ffd.isset = True


class View:
    """A context: chain of private overlay roots (newest first) above the shared tree."""
    def __init__(s, world, chain=()):
        s.world, s.chain = world, list(chain)

    def resolve(s, path, base=None):
        """lookup_attr / lookup_dir_attr: path None = root; base = PN for sub-lookups"""
        if path is None:
            return s.chain[0] if s.chain else s.world.root
        nofb = path.startswith(".")
        if nofb:
            path = path[1:]
        pre = base.path() if base is not None else ""
        full = (pre + "." + path) if pre else path
        for r in s.chain:
            n = World.find(r, full)
            if n is not None:
                return n
            if nofb:
                return None
        if nofb and s.chain:
            return None
        return World.find(s.world.root, full)


def clone_view(v, flags):
    if flags == 0:
        return View(v.world, v.chain)
    pr = PN("", "dir", None)
    pr.privroot = True
    nv = View(v.world, [pr] + v.chain)
    if flags & 1:
        def copy(dst_parent, o):
            c = dst_parent.add(o.name, o.ty, o.hook, o.settable)
            if o.isset:
                if o.ty in ("blob", "bmp", "nil"):
                    raise ValueError("clone fails")
                c.isset, c.persist = True, o.persist
                if o.ty != "dir":
                    c.val = o.val
            return c

        def subtree(dst, o):
            for k in o.kids.values():
                c = copy(dst, k)
                if k.ty == "dir":
                    subtree(c, k)
        for p in ("addrxlat.default", "addrxlat.force", "addrxlat.ostype"):
            comps = p.split(".")
            cur = pr
            for i, c in enumerate(comps):
                if c in cur.kids:
                    cur = cur.kids[c]; continue
                o = v.resolve(".".join(comps[:i + 1]))
                cur = copy(cur, o)
            o = v.resolve(p)
            if o.ty == "dir" and not cur.kids:
                subtree(cur, o)
    return nv


# ------------------------------------------------------------------ dump files
def note(name, typ, desc):
    n = name + b"\0"
    pad = lambda b: b + b"\0" * (-len(b) % 4)
    return struct.pack("<III", len(n), len(desc), typ) + pad(n) + pad(desc)


def prstatus(pid, regs):
    b = bytearray(336)
    struct.pack_into("<I", b, 32, pid)
    for i, r in enumerate(regs[:27]):
        struct.pack_into("<Q", b, 112 + 8 * i, r)
    return bytes(b)


WORDS = ["A", "B", "AB", "list_head", "next", "prev", "page", "flags", "x", "y", "mem_map", "init_uts", "zone", "free_area"]


def vmci_text(rng, collide=None):
    rows = []
    for _ in range(rng.randint(0, 7)):
        r = rng.random()
        sym = ".".join(rng.choice(WORDS) for _ in range(rng.randint(1, 3)))
        if r < 0.45:
            t = rng.choice(["OFFSET", "SIZE", "LENGTH", "NUMBER", "SYMBOL", "SYMBOL", "BOGUS"])
            if t == "SYMBOL":
                v = rng.choice(["ffffffff81000000", "0x1000", "%x" % rng.getrandbits(64), "zz", ""])
            else:
                v = rng.choice([str(rng.randint(0, 4096)), "0x%x" % rng.getrandbits(20), "017", "12z", "", "0x",
                                str(rng.getrandbits(64))])
            rows.append("%s(%s)=%s" % (t, sym, v))
        elif r < 0.85:
            rows.append("%s=%s" % (sym, rng.choice(["1", "", "v=w", "hello"])))
        elif r < 0.92:
            rows.append(sym)
        elif r < 0.94:
            rows.append("")
        elif r < 0.96:
            rows.append(".%s=1" % sym)        # leading dot: a directory with an empty name
        else:
            rows.append("SIZE(%s" % sym)
    if rng.random() < 0.5:
        # several keys below one two-level prefix (OFFSET(list_head.next) / OFFSET(list_head.prev) …)
        base = "%s.%s" % (rng.choice(WORDS), rng.choice(WORDS))
        t = rng.choice(["OFFSET", "SIZE", None, None])
        for last in rng.sample(WORDS, rng.randint(2, 3)):
            rows.insert(rng.randint(0, len(rows)), ("%s(%s.%s)=%d" % (t, base, last, rng.randint(0, 64))) if t
                        else "%s.%s=%d" % (base, last, rng.randint(0, 9)))
    if rng.random() < 0.3:
        # the same typed key twice: the later row decides (also when its value is not a number: the typed value goes away)
        t = rng.choice(["OFFSET", "SIZE", "LENGTH", "NUMBER", "SYMBOL"])
        sym = ".".join(rng.choice(WORDS) for _ in range(rng.randint(1, 2)))
        vals = ["ffff8000", "1f", "zz", "", "0x"] if t == "SYMBOL" else ["17", "0x20", "12z", "0x", "", "017"]
        i = rng.randint(0, len(rows))
        rows.insert(i, "%s(%s)=%s" % (t, sym, rng.choice(vals)))
        rows.insert(rng.randint(i + 1, len(rows)), "%s(%s)=%s" % (t, sym, rng.choice(vals)))
    if collide:
        for c in collide:
            rows.insert(rng.randint(0, len(rows)), c)
    text = "\n".join(rows)
    if rows and rng.random() < 0.7:
        text += "\n"
    return text


def colliding_pair(rng, prefix):
    """two keys k, k+suffix below `prefix` whose full paths share a hash bucket"""
    k = rng.choice(WORDS)
    h = py_hash(prefix + k)
    for i in range(200000):
        suf = "%s%x" % (rng.choice("qrstuvw"), i)
        if py_hash(prefix + k + suf) == h:
            return k, k + suf
    return None


CAL = None     # (allocations of a file.set.number call before the first slot, allocations per new slot), measured on the implementation


def make_files(R, n):
    files = []
    for i in range(n):
        kind = R.rng.choice(["elf", "elf", "elfnotes", "elfnotes", "dd", "garbage"])
        p = R.path("c13-%d.%s" % (i, kind))
        if kind == "elf":
            dumpgen.write_elf(p, [dict(pfn=1, npages=R.rng.randint(1, 2), voff=0)])
        elif kind == "elfnotes":
            notes = b""
            for c in range(R.rng.randint(0, 2)):
                notes += note(b"CORE", 1, prstatus(R.rng.randint(1, 99), [R.rng.getrandbits(32) for _ in range(27)]))
            txt = vmci_text(R.rng).replace("\n\n", "\n")
            notes += note(b"VMCOREINFO", 0, txt.encode())
            dumpgen.write_elf(p, [dict(pfn=1, npages=1, voff=0)], notes=notes)
        elif kind == "dd":
            dumpgen.write_diskdump(p, [0, 1, R.rng.randint(2, 5)])
        else:
            open(p, "wb").write(bytes(R.rng.getrandbits(8) for _ in range(5000)))
        files.append(p)
    return files


def parse_dump(line):
    """'dump a=v/P;b=...' -> list of (path, tok, flag) in printed order, or None"""
    body = line[5:].strip() if line.startswith("dump") else None
    if body is None or body.startswith("!"):
        return None
    out = []
    for e in body.split(";") if body else []:
        p, _, rest = e.partition("=")
        tok, _, fl = rest.rpartition("/")
        out.append((p, tok, fl))
    return out


def provided_from_dump(ents):
    """volatile sets of a fresh open, oldest sibling first (creation order)"""
    tree = {}
    for p, tok, fl in ents:
        comps = p.split(".")
        d = tree
        for c in comps[:-1]:
            d = d[c][2]
        d[comps[-1]] = [tok, fl, {}]
    out = []

    def rec(d, pre):
        for k in reversed(list(d.keys())):
            tok, fl, sub = d[k]
            path = pre + k
            if path.startswith("file.set"):
                continue
            if fl == "V" or path in ("cache.hits", "cache.misses"):
                out.append((path, tok, fl))
            rec(sub, path + ".")
    rec(tree, "")
    # the probe sets the raw VMCOREINFO blob first; its hook then creates the parsed rows
    out.sort(key=lambda e: 0 if e[0].endswith(".vmcoreinfo.raw") else 1)
    return out


# ------------------------------------------------------------------ history generator
class Hist:
    def __init__(s, R, T, files, fileinfo, hid, blobctr, io):
        s.R, s.rng, s.T, s.files, s.fileinfo, s.hid, s.io = R, R.rng, T, files, fileinfo, hid, io
        s.fail, s.known, s.obs, s.stop = None, [], [], False
        s.cal = CAL
        s.world = World(T)
        s.views = {0: View(s.world)}
        s.refs, s.iters = {}, {}
        s.ops = []            # (line, expect, mode, note)
        s.blobctr = blobctr
        s.kinds = {}
        s.nq = 0              # operations that are answered (the `prov` lines for the model are not counted)
        s.emit("new 0", "new ok", "exact")

    def emit(s, line, expect, mode, note=None):
        if s.stop:
            return
        s.ops.append((line, expect, mode, note))
        s.nq += mode != "quiet"
        k = line.split()[0]
        s.kinds[k] = s.kinds.get(k, 0) + 1
        if mode == "quiet":
            s.io.send(line)
            return
        o = s.io.ask(line)
        if o is None:
            s.fail = (len(s.ops) - 1, "the harness died in '%s': %s" % (line, s.io.stderr()[:700]), "crash")
            s.stop = True
            return
        s.obs.append(o)
        f = s.check(line, expect, mode, note, o)
        if f:
            msg, key = f
            if key is not None:
                s.known.append((len(s.ops) - 1, msg, key))
            else:
                s.fail = (len(s.ops) - 1, msg, None)
                s.stop = True

    def check(s, line, exp, mode, note, o):
        if mode == "exact":
            if o != exp:
                return "'%s': implementation answered '%s', the dictionary semantics give '%s'" % (line, o, exp), None
        elif mode == "rootdev":
            if o != exp and sorted_ls(o) != exp:
                return ("'%s' through a clone with a private dictionary: implementation answered '%s', the "
                        "original context gives '%s'" % (line, o, exp)), "overlay-clone-root"
        elif mode == "ls":
            if sorted_ls(o) != exp:
                return "'%s': iteration yielded '%s', the set children are '%s'" % (line, o, exp), None
        elif mode == "dump":
            ents = parse_dump(o)
            got = None if ents is None else {p: (t, f) for p, t, f in ents}
            if ents is not None and len(got) != len(ents):
                ps = [q for q, _, _ in ents]
                return "'%s': the tree walk by iterators visits an attribute twice: %s" % (line, sorted({q for q in ps if ps.count(q) > 1})[:3]), None
            if got != exp:
                if got is None or exp is None:
                    return "'%s': implementation '%s', expected %s" % (line, o[:80], "an unset root" if exp is None else "a set root"), None
                d = sorted(set(got.items()) ^ set(exp.items()))[0][0]
                return "'%s': tree walk differs from the dictionary semantics at %s (implementation %s, expected %s)" % (
                    line, d, got.get(d), exp.get(d)), None
        elif mode in ("iter-start", "iter-next"):
            i = note
            it = s.iters[i]
            w = o.split(" ")
            d = it["dir"]
            setkids = sorted(k.name for k in d.kids.values() if k.isset)
            if mode == "iter-next" and it["pos"] is None:
                return (None if o == "next invalid" else ("'%s' at the end of an iteration: '%s', documented is 'invalid'" % (line, o), None))
            if len(w) != 3 or w[1] != "ok":
                return "'%s' on a set directory failed: '%s'" % (line, o), None
            key = "" if w[2] == '""' else w[2]
            if w[2] == "-":
                it["pos"] = None
                if it["mod"] == s.world.mod and sorted(it["seen"]) != setkids:
                    return "'%s': iteration of %s ended after %s, the set children are %s" % (line, d.path() or "the root", it["seen"], setkids), None
                return None
            k = d.kids.get(key)
            if k is None:
                return "'%s': iteration of %s yielded '%s', which is not a child" % (line, d.path(), key), None
            if key in it["seen"]:
                return "'%s': iteration of %s yielded '%s' twice" % (line, d.path(), key), None
            if not k.isset:
                return "'%s': iteration of %s stopped at '%s', which has no value" % (line, d.path(), key), None
            it["seen"].append(key)
            it["pos"] = k
        elif mode == "iter-get":
            it = s.iters[note]
            e = "iget end" if it["pos"] is None else "iget " + s.exp_get(it["pos"])
            if o != e:
                return "'%s' (iterator of %s at '%s'): implementation '%s', the dictionary semantics give '%s'" % (
                    line, it["dir"].path(), it["pos"].name if it["pos"] else None, o, e), None
        elif mode == "iter-ref":
            i, k = note
            it = s.iters[i]
            e = "iref end" if it["pos"] is None else "iref ok"
            if o != e:
                return "'%s': '%s' expected '%s'" % (line, o, e), None
            if it["pos"] is not None:
                s.refs[k] = it["pos"]
        return None

    # ---- choices
    def nodes(s, v):
        out = []
        for r in v.chain:
            out += [n for n in r.walk() if n.parent is not None]
        out += [n for n in s.world.root.walk() if n.parent is not None]
        return out

    def pick_path(s, v, want_set=None):
        rng = s.rng
        r = rng.random()
        if r < 0.08:
            return rng.choice(["nonexistent", "arch.", "arch..machine", ".arch.machine", "arch.machine.x", "cpu.7",
                               "file.set.9.name", "linux.vmcoreinfo.lines.nope", ".addrxlat.ostype", "..arch",
                               "addrxlat.default.rootpgt.as", ".file.set.number", "@"])
        ns = s.nodes(v)
        if want_set is not None:
            f = [n for n in ns if n.isset == want_set]
            ns = f or ns
        if rng.random() < 0.5:
            dyn = [n for n in ns if n.hook == "vmciLine" or not n.settable or n.path().startswith(("file.set.", "linux.vmcoreinfo.", "xen.vmcoreinfo.", "addrxlat."))]
            ns = dyn or ns
        return rng.choice(ns).path()

    def value_for(s, n, wrong=False):
        rng = s.rng
        ty = n.ty
        if wrong:
            ty = rng.choice([t for t in ("num", "addr", "str", "dir", "blob") if t != n.ty])
        pre = []
        text = None
        if ty == "num":
            if n.hook == "numFiles" and not wrong:
                tok = "num:%d" % rng.randint(0, 5)
            else:
                tok = "num:%d" % rng.choice([0, 1, rng.randint(0, 99), rng.getrandbits(64)])
        elif ty == "addr":
            tok = "addr:%d" % rng.choice([0, rng.getrandbits(64), 0xffffffff80000000])
        elif ty == "str":
            if n.hook == "ostype" and not wrong:
                tok = "str:" + hexs(rng.choice(["linux", "xen", "xen", "linux", "bsd"]))
            elif n.hook == "utsRelease" and not wrong:
                tok = "str:" + hexs(release_text(rng))
            elif n.hook == "vmciLine":
                tok = "str:" + hexs(rng.choice(["5", "0x10", "zz", "", "ffffffff81000000", "12"]))
            else:
                tok = "str:" + hexs(rng.choice(["", "a", "hello", "x86_64", "v%d" % rng.randint(0, 9)]))
        elif ty == "blob":
            k = s.blobctr[0]; s.blobctr[0] += 1
            if n.hook == "vmciRaw" and not wrong:
                col = None
                if rng.random() < 0.5:
                    pr = colliding_pair(rng, n.parent.path() + ".lines.")
                    if pr:
                        col = ["%s=%d" % (pr[0], rng.randint(0, 9)), "%s=%d" % (pr[1], rng.randint(0, 9))]
                        s.lastcol = (n.parent.path() + ".lines.", pr)
                text = vmci_text(rng, col)
            else:
                text = rng.choice(["", "blob", "x=1\n"])
            pre.append("mkblob %d %s" % (k, text.encode().hex() or "-"))
            tok = "blob:%d" % k
        elif ty == "dir":
            tok = "dir"
        else:
            tok = "num:1"
        return pre, tok, text

    def settable(s, n):
        if n is None or not n.settable or n.name == "fd":
            return False
        p = n.path()
        if p.startswith("cpu.") and p != "cpu.number":
            return False
        if n.hook == "numFiles" and s.world.opened:
            return False
        if n.hook == "vmciLine" and (n.name in ("PAGESIZE", "OSRELEASE") or "phys_base" in p):
            return False
        return True

    def clearable(s, n):
        """clearing runs the clear hooks of the whole subtree"""
        return n is not None

    # ---- expectation helpers
    def exp_get(s, n):
        if n is None:
            return "nokey"
        if not n.isset:
            return "nodata"
        return "ok " + n.show()

    def rootdev(s, v, n):
        return n is not None and n.privroot

    # ---- one random operation
    def step(s):
        rng = s.rng
        if s.stop:
            return
        c = rng.choice(list(s.views.keys()))
        v = s.views[c]
        overlay = bool(v.chain)
        r0 = rng.random()
        if not overlay and r0 < 0.034:
            if r0 < 0.013:
                s.step_nfoom(c, v)
            elif r0 < 0.024:
                s.step_derived(c, v)
            elif r0 < 0.029 and s.step_filefd(c, v):
                pass
            else:
                s.step_appcpu(c, v)
            return
        r = rng.random()
        if r < 0.16:
            p = s.pick_path(v)
            n = v.resolve(None if p == "@" else p)
            if s.rootdev(v, n):
                s.emit("get %d %s" % (c, p), "get " + s.exp_get(s.world.root), "rootdev")
            else:
                s.emit("get %d %s" % (c, p), "get " + s.exp_get(n), "exact")
        elif r < 0.20:
            p = s.pick_path(v, True)
            n = v.resolve(None if p == "@" else p)
            if s.rootdev(v, n):
                return
            t = rng.choice(["num", "str", "addr", "dir", "blob", "bmp"]) if rng.random() < 0.4 or n is None else n.ty
            e = s.exp_get(n)
            if n is not None and n.isset and n.ty != t:
                e = "invalid"
            s.emit("gett %d %s %s" % (c, p, t), "gett " + e, "exact")
        elif r < 0.40:
            p = s.pick_path(v)
            n = v.resolve(None if p == "@" else p)
            if n is None:
                s.emit("set %d %s num:1" % (c, p), "set nodata", "exact", "unknown key: kdump_set_attr reports NODATA")
                return
            if s.rootdev(v, n):
                return
            mode = rng.random()
            if mode < 0.15:
                s.do_clear("set %d %s nil" % (c, p), "set", v, n)
                return
            if not s.settable(n):
                if n.ty != "bmp" and mode > 0.5:
                    return
                pre, tok, text = s.value_for(n, wrong=True)
            else:
                pre, tok, text = s.value_for(n, wrong=mode < 0.3)
            s.do_set(pre, "set %d %s %s" % (c, p, tok), "set", v, n, tok, text)
        elif r < 0.47:
            p = s.pick_path(v)
            n = v.resolve(None if p == "@" else p)
            if s.rootdev(v, n):
                return
            k = rng.randint(0, 15)
            s.emit("ref %d %d %s" % (c, k, p), "ref " + ("ok" if n is not None else "nokey"), "exact")
            if n is not None:
                s.refs[k] = n
            else:
                s.refs.pop(k, None)
        elif r < 0.72 and s.live_refs():
            k = rng.choice(s.live_refs())
            n = s.refs[k]
            q = rng.random()
            if q < 0.3:
                s.emit("rget %d %d" % (c, k), "rget " + s.exp_get(n), "exact")
            elif q < 0.4:
                s.emit("rinfo %d" % k, "rinfo %s %d" % (n.ty, 1 if n.isset else 0), "exact")
            elif q < 0.6:
                kids = list(n.kids.keys())
                sk = rng.choice(kids) if kids and rng.random() < 0.8 else rng.choice(["nope", "a.b", "", ".x"])
                if sk in n.kids and rng.random() < 0.3 and n.kids[sk].kids:
                    sk = sk + "." + rng.choice(list(n.kids[sk].kids.keys()))
                if n.privroot or (n.parent is None and overlay):
                    return
                t = v.resolve(sk, base=n) if n.parent is not None else v.resolve(sk)
                k2 = rng.randint(0, 15)
                if sk == "":
                    return
                s.emit("sub %d %d %d %s" % (c, k, k2, sk), "sub " + ("ok" if t is not None else "nokey"), "exact")
                if t is not None:
                    s.refs[k2] = t
            elif q < 0.8:
                if rng.random() < 0.2:
                    s.do_clear("rset %d %d nil" % (c, k), "rset", v, n)
                elif s.settable(n):
                    pre, tok, text = s.value_for(n, wrong=rng.random() < 0.25)
                    s.do_set(pre, "rset %d %d %s" % (c, k, tok), "rset", v, n, tok, text)
            elif q < 0.9:
                kids = [x for x in n.kids.values()]
                if not kids or n.privroot or (n.parent is None and overlay):
                    return
                t0 = rng.choice(kids)
                if t0.name == "" or any(ch.isspace() for ch in t0.name):
                    return          # (a child with an empty name, made by a VMCOREINFO key like "a..b": the line protocol cannot name it)
                t = v.resolve(t0.name, base=n) if n.parent is not None else v.resolve(t0.name)
                if t is None or not s.settable(t):
                    return
                pre, tok, text = s.value_for(t, wrong=rng.random() < 0.25)
                s.do_set(pre, "setsub %d %d %s %s" % (c, k, t0.name, tok), "setsub", v, t, tok, text)
            else:
                i = rng.randint(0, 7)
                s.start_iter("riter %d %d %d" % (c, i, k), "riter", i, n)
        elif r < 0.78:
            p = s.pick_path(v, True)
            n = v.resolve(None if p == "@" else p)
            if s.rootdev(v, n):
                return
            i = rng.randint(0, 7)
            if n is None:
                s.emit("iter %d %d %s" % (c, i, p), "iter nokey", "exact")
            else:
                s.start_iter("iter %d %d %s" % (c, i, p), "iter", i, n)
        elif r < 0.86 and s.live_iters():
            i = rng.choice(s.live_iters())
            it = s.iters[i]
            q = rng.random()
            if q < 0.6:
                s.emit("next %d %d" % (c, i), None, "iter-next", i)
            elif q < 0.85:
                s.emit("iget %d %d" % (c, i), None, "iter-get", i)
            else:
                k = rng.randint(0, 15)
                s.emit("iref %d %d" % (i, k), None, "iter-ref", (i, k))
        elif r < 0.905:
            p = s.pick_path(v, True)
            n = v.resolve(None if p == "@" else p)
            if n is None:
                s.emit("ls %d %s" % (c, p), "ls nokey", "exact")
            elif s.rootdev(v, n):
                e = sorted(k.name or '""' for k in s.world.root.kids.values() if k.isset)
                s.emit("ls %d %s" % (c, p), "ls ok " + (",".join(e) or "-") if s.world.root.isset else "ls nodata", "rootdev")
            elif not n.isset:
                s.emit("ls %d %s" % (c, p), "ls nodata", "exact")
            elif n.ty != "dir":
                s.emit("ls %d %s" % (c, p), "ls invalid", "exact")
            else:
                e = sorted(k.name or '""' for k in n.kids.values() if k.isset)
                s.emit("ls %d %s" % (c, p), "ls ok " + (",".join(e) or "-"), "ls")
        elif r < 0.917 and not overlay:
            # a value the key's pre-set hook refuses: the call fails and nothing changes (not even the directories above the key)
            p, tok, st = rng.choice([("arch.page_size", "num:3", "corrupt"), ("arch.page_size", "num:0", "corrupt"), ("arch.page_size", "num:4097", "corrupt"),
                                     ("arch.page_shift", "num:200", "corrupt"), ("arch.page_shift", "num:64", "corrupt"), ("cache.size", "num:0", "invalid")])
            s.emit("badset %d %s %s %s" % (c, p, tok, st), "set " + st, "exact")
            par = World.find(s.world.root, p.rsplit(".", 1)[0])
            s.emit("get %d %s" % (c, p.rsplit(".", 1)[0]), "get " + s.exp_get(par), "exact")
            s.emit("dump %d" % c, s.exp_dump(), "dump")
        elif r < 0.929 and not overlay:
            # kdump_set_filename: grows the file set to one file if needed (never shrinks it), sets or forgets file.set.0.name
            nm = rng.choice(["-", hexs("/var/crash/dump.%d" % rng.randrange(100))])
            num = World.find(s.world.root, "file.set.number")
            if rng.random() < 0.5:
                k = rng.randint(2, 4)              # a set of several files first: naming one file must not shrink it
                s.emit("nfiles %d %d" % (c, k), "nfiles " + s.world.set(num, "num:%d" % k), "exact")
            st = "ok"
            if (int(num.val[4:]) if num.val else 0) < 1:       # get_num_files reads the stored number, set or not
                st = s.world.set(num, "num:1")
            name = World.find(s.world.root, "file.set.0.name")
            if st == "ok" and name is not None:
                st = s.world.set(name, "nil" if nm == "-" else "str:" + nm)
            s.emit("setfn %d %s" % (c, nm), "setfn " + st, "exact")
            s.emit("dump %d" % c, s.exp_dump(), "dump")
        elif r < 0.94 and not overlay:
            s.emit("dump %d" % c, s.exp_dump(), "dump")
        elif r < 0.965 and len(s.views) < 5:
            d = min(set(range(1, 8)) - set(s.views.keys()))
            fl = rng.choice([0, 0, 1, 1, 1, 2, 3])
            s.views[d] = clone_view(v, fl)
            s.emit("clone %d %d %d" % (c, d, fl), "clone ok", "exact")
            # what the clone sees below addrxlat (privately copied when flag 1 is given): values and persistence marks
            s.emit("dumpat %d addrxlat" % d, s.exp_dumpat(s.views[d], "addrxlat"), "dump")
        elif r < 0.975 and c != 0 and len(s.views) > 1:
            # free a clone whose private nodes nobody else can reach
            if v.chain and any(o is not v and o.chain and v.chain[0] in o.chain for o in s.views.values()):
                return
            if v.chain:
                kill(v.chain[0])
            del s.views[c]
            s.emit("free %d" % c, "free", "exact")
        elif r < 1.0 and not overlay:
            s.do_open(c)

    def openable(s):
        """files that can be opened now: with a cpu.number set by the application the CPUs of a file would be numbered from
        that value on (what a fresh open provides is then not what this open provides): only files without CPU notes"""
        if not s.files or getattr(s.world, "noopen", False):
            return []
        cn = World.find(s.world.root, "cpu.number")
        own = cn.isset and cn.persist
        return [f for f in range(len(s.files)) if not (own and any(p.startswith("cpu") for p, _, _ in s.fileinfo[f][1]))]

    def do_open(s, c, only=None):
        fs = [f for f in s.openable() if only is None or f in only]
        if not fs:
            return False
        f = s.rng.choice(fs)
        st, prov = s.fileinfo[f]
        for p, tok, fl in prov:
            s.emit("prov %s %s %s" % (p, tok, fl), None, "quiet")
        s.emit("openst %s" % st, None, "quiet")
        s.world.open(c, prov, failed=(st != "ok"))
        s.emit("open %d %s" % (c, s.files[f]), "open " + st, "exact", "open#%d" % f)
        s.emit("dump %d" % c, s.exp_dump(), "dump")
        return True

    # ---- scenario steps (each is a short scripted sequence inside the random history)
    def step_nfoom(s, c, v):
        """the file set is grown while the K-th allocation of the call fails: the call is refused (SYSTEM), the tree is as
        before (the keys of the new slots do not exist), and the set can be grown afterwards"""
        rng, W = s.rng, s.world
        num = World.find(W.root, "file.set.number")
        if W.opened or s.cal is None:
            return
        cur = int(num.val[4:]) if num.val else 0
        if cur > 5:
            return
        N = cur + rng.choice([1, 2, 2, 3, 3, 4])
        base, per = s.cal
        total = base + per * (N - cur)
        K = rng.randint(base + 1, total + 1)
        if K <= total:
            slot, r = divmod(K - 1 - base, per)
            stage = 0 if r < per - 2 else (1 if r == per - 2 else 2)
            W.mod += 1
            s.emit("nfilesoom %d %d %d %d %d" % (c, N, K, slot, stage), "nfilesoom system", "exact")
        else:
            s.emit("nfilesoom %d %d %d - -" % (c, N, K), "nfilesoom " + W.set(num, "num:%d" % N), "exact")
        s.emit("get %d file.set.number" % c, "get " + s.exp_get(num), "exact")
        for i in range(cur, N):
            q = "file.set.%d" % i
            s.emit("get %d %s" % (c, q), "get " + s.exp_get(v.resolve(q)), "exact")
        q = "file.set.%d.%s" % (rng.randrange(cur, N), rng.choice(["fd", "name"]))
        k = rng.randint(0, 15)
        n = v.resolve(q)
        s.emit("ref %d %d %s" % (c, k, q), "ref " + ("ok" if n is not None else "nokey"), "exact")
        if n is not None:
            s.refs[k] = n
        else:
            s.refs.pop(k, None)
        s.emit("dump %d" % c, s.exp_dump(), "dump")
        if rng.random() < 0.6:
            N2 = rng.randint(cur, cur + 4)
            s.emit("nfiles %d %d" % (c, N2), "nfiles " + W.set(num, "num:%d" % N2), "exact")
            if N2:
                q = "file.set.%d.name" % rng.randrange(N2)
                n = v.resolve(q)
                if n is not None:
                    pre, tok, text = s.value_for(n)
                    s.do_set(pre, "set %d %s %s" % (c, q, tok), "set", v, n, tok, text)
                    s.emit("ls %d %s" % (c, q.rsplit(".", 1)[0]), "ls ok " + ",".join(sorted(k.name for k in n.parent.kids.values() if k.isset)), "ls")
            s.emit("dump %d" % c, s.exp_dump(), "dump")

    def step_derived(s, c, v):
        """linux.uts.release is set; the FIRST read of the derived linux.version_code goes through a reference, a
        sub-reference, an iterator position or the path: every one answers KERNEL_VERSION of the new release"""
        rng, W = s.rng, s.world
        rel, vc, lx = (World.find(W.root, q) for q in ("linux.uts.release", "linux.version_code", "linux"))
        tok = "str:" + hexs(release_text(rng))
        way = rng.choice(["ref", "ref", "sub", "iter", "iter", "path"])
        k, k2, i = rng.randint(0, 15), rng.randint(0, 15), rng.randint(0, 7)
        if way == "ref":        # the reference exists before the source changes
            s.emit("ref %d %d linux.version_code" % (c, k), "ref ok", "exact")
            s.refs[k] = vc
        setway = rng.random()
        if setway < 0.5:
            s.do_set([], "set %d linux.uts.release %s" % (c, tok), "set", v, rel, tok, None)
        else:
            kr = rng.choice([x for x in range(16) if x not in (k, k2)])
            base = rng.choice(["linux.uts", "linux"])
            s.emit("ref %d %d %s" % (c, kr, base), "ref ok", "exact")
            s.refs[kr] = World.find(W.root, base)
            s.do_set([], "setsub %d %d %s %s" % (c, kr, "release" if base == "linux.uts" else "uts.release", tok), "setsub", v, rel, tok, None)
        if rng.random() < 0.4 and vc.isset:
            # the derived value is cleared BEFORE anybody has read it (its recomputation is still pending inside the library):
            # cleared means no value, by every way of getting, until somebody sets it or its source again
            if rng.random() < 0.5:
                s.do_clear("set %d linux.version_code nil" % c, "set", v, vc)
            else:
                kc = rng.choice([x for x in range(16) if x not in (k, k2)])
                s.emit("ref %d %d linux.version_code" % (c, kc), "ref ok", "exact")
                s.refs[kc] = vc
                s.do_clear("rset %d %d nil" % (c, kc), "rset", v, vc)
            s.kinds["derived-cleared-unread"] = s.kinds.get("derived-cleared-unread", 0) + 1
            if rng.random() < 0.5:
                s.emit("get %d linux.version_code" % c, "get " + s.exp_get(vc), "exact")
                s.emit("rinfo %d" % k, "rinfo %s %d" % (vc.ty, 1 if vc.isset else 0), "exact") if way == "ref" else None
        if way == "ref":
            s.emit("rget %d %d" % (c, k), "rget " + s.exp_get(vc), "exact")
        elif way == "sub":
            s.emit("ref %d %d linux" % (c, k), "ref ok", "exact")
            s.refs[k] = lx
            s.emit("sub %d %d %d version_code" % (c, k, k2), "sub ok", "exact")
            s.refs[k2] = vc
            s.emit("rget %d %d" % (c, k2), "rget " + s.exp_get(vc), "exact")
        elif way == "iter":
            s.start_iter("iter %d %d linux" % (c, i), "iter", i, lx)
            it, g = s.iters.get(i), 0
            while it is not None and not s.stop and it["pos"] is not None and it["pos"] is not vc and it["pos"] is not lx and g < 40:
                s.emit("next %d %d" % (c, i), None, "iter-next", i); g += 1
            if it is not None and it["pos"] is vc:
                s.emit("iget %d %d" % (c, i), None, "iter-get", i)
            elif not s.stop and vc.isset:
                s.fail = (len(s.ops) - 1, "iteration of 'linux' did not stop at version_code although it has a value", None)
                s.stop = True
        s.emit("get %d linux.version_code" % c, "get " + s.exp_get(vc), "exact")

    def step_filefd(s, c, v):
        """the dump is opened the legacy way (file.fd set by the application; possibly with slots of a file set already there),
        the two names of the descriptor are read by path and by reference, then the set is emptied / grown / closed slot by slot:
        whenever file.set.0.fd is gone or the set is not one file, file.fd reports no value either"""
        rng, W = s.rng, s.world
        fs = [f for f in s.openable() if s.fileinfo[f][0] == "ok"]
        if W.opened or not fs:
            return False
        f = rng.choice(fs)
        num, ffd = World.find(W.root, "file.set.number"), World.find(W.root, "file.fd")
        pre = rng.choice([None, None, 1, 2, 3])
        if pre is not None:
            s.emit("nfiles %d %d" % (c, pre), "nfiles " + W.set(num, "num:%d" % pre), "exact")
        k = rng.randint(0, 15)
        if rng.random() < 0.5:
            s.emit("ref %d %d file.fd" % (c, k), "ref ok", "exact"); s.refs[k] = ffd
        st, prov = s.fileinfo[f]
        for p, tok, fl in prov:
            s.emit("prov %s %s %s" % (p, tok, fl), None, "quiet")
        s.emit("openst %s" % st, None, "quiet")
        W.fdopen(c, prov)
        s.emit("fdopen %d %s" % (c, s.files[f]), "fdopen ok", "exact", "open#%d" % f)
        def look():
            for q in rng.sample(["file.fd", "file.set.0.fd", "file.set.number", "file.set.0"], 3):
                s.emit("get %d %s" % (c, q), "get " + s.exp_get(World.find(W.root, q)), "exact")
            if s.refs.get(k) is ffd:
                s.emit("rget %d %d" % (c, k), "rget " + s.exp_get(ffd), "exact")
        look()
        s.emit("dump %d" % c, s.exp_dump(), "dump")
        how = rng.choice(["empty", "empty", "grow", "clearslot", "none"])
        if how == "empty":
            s.emit("nfiles %d 0" % c, "nfiles " + W.set(num, "num:0"), "exact")       # the documented way to close the dump
        elif how == "grow":
            N = rng.choice([2, 3])
            s.emit("nfiles %d %d" % (c, N), "nfiles " + W.set(num, "num:%d" % N), "exact")
        elif how == "clearslot":
            q = rng.choice(["file.set.0.fd", "file.set.0"])
            W.set(World.find(W.root, q), "nil")
            s.emit("set %d %s nil" % (c, q), "set ok", "exact")
        look()
        s.emit("dump %d" % c, s.exp_dump(), "dump")
        s.kinds["filefd-" + how] = s.kinds.get("filefd-" + how, 0) + 1
        return True

    def step_appcpu(s, c, v):
        """cpu.number is set by the application; a file without CPU notes is opened in the same context: the value persists
        and every getter returns it"""
        rng, W = s.rng, s.world
        cn = World.find(W.root, "cpu.number")
        tok = "num:%d" % rng.choice([rng.randint(1, 64), rng.randint(1, 4096), rng.getrandbits(32)])
        k = rng.randint(0, 15)
        if rng.random() < 0.5:
            s.do_set([], "set %d cpu.number %s" % (c, tok), "set", v, cn, tok, None)
        else:
            s.emit("ref %d %d cpu.number" % (c, k), "ref ok", "exact")
            s.refs[k] = cn
            s.do_set([], "rset %d %d %s" % (c, k, tok), "rset", v, cn, tok, None)
        if not s.do_open(c):
            return
        way = rng.choice(["path", "ref", "gett"])
        if way == "ref":
            s.emit("ref %d %d cpu.number" % (c, k), "ref ok", "exact")
            s.refs[k] = cn
            s.emit("rget %d %d" % (c, k), "rget " + s.exp_get(cn), "exact")
        elif way == "gett":
            s.emit("gett %d cpu.number num" % c, "gett " + s.exp_get(cn), "exact")
        s.emit("get %d cpu.number" % c, "get " + s.exp_get(cn), "exact")

    def live_refs(s):
        return [k for k, n in s.refs.items() if n.alive]

    def live_iters(s):
        return [i for i, it in s.iters.items() if it["dir"].alive and (it["pos"] is None or it["pos"].alive)]

    def do_set(s, pre, line, op, v, n, tok, text):
        if v.chain and (n.hook in ("vmciRaw", "numFiles", "vmciLine", "utsRelease")) and tok.split(":")[0] == n.ty:
            return          # dynamic creation through a private dictionary: see REPORT (not generated)
        for l in pre:
            s.emit(l, "mkblob ok", "exact")
        st = s.world.set(n, tok, text)
        s.emit(line, "%s %s" % (op, st), "exact")
        if n.hook == "vmciRaw" and tok.startswith("blob:") and not v.chain:
            # look at what the parser made of it: both keys of a bucket collision, the whole tree
            c = line.split()[1]
            col = getattr(s, "lastcol", None)
            s.lastcol = None
            if col:
                for k in col[1]:
                    s.emit("get %s %s%s" % (c, col[0], k), "get " + s.exp_get(v.resolve(col[0] + k)), "exact")
            s.emit("dump %s" % c, s.exp_dump(), "dump")

    def do_clear(s, line, op, v, n):
        vc = World.find(s.world.root, "linux.version_code")
        if vc.isset and n.path() in ("linux.uts", "linux.uts.release"):
            return          # linux.version_code is a view of linux.uts.release (C14): it would be set but unreadable
        if n.name in ("PRSTATUS", "XEN_PRSTATUS"):
            return          # the registers are views of this blob (C14): without it they are set but unreadable
        if any(x.ty == "bmp" and x.isset for x in n.walk()):
            return          # known finding pagemap-clear-deadlock: the library would corrupt its own lock
        if any(x.isset and not x.settable and x.ty != "dir" for x in n.walk()):
            # clearing attributes with unmodelled hooks (cache.size, arch.page_size, …) changes what a later
            # probe does (C14): no further open in this history
            s.world.noopen = True
        s.world.set(n, "nil")
        s.emit(line, op + " ok", "exact")

    def start_iter(s, line, op, i, n):
        if not n.isset:
            s.emit(line, op + " nodata", "exact"); return
        if n.ty != "dir":
            s.emit(line, op + " invalid", "exact"); return
        s.iters[i] = dict(dir=n, pos=n, seen=[], mod=s.world.mod)
        s.emit(line, None, "iter-start", i)

    def exp_dump(s):
        out = {}

        def rec(n, pre):
            for k in n.kids.values():
                if k.isset:
                    p = pre + k.name
                    out[p] = (k.show(), "P" if k.persist else "V")
                    if k.ty == "dir":
                        rec(k, p + ".")
        if not s.world.root.isset:
            return None
        rec(s.world.root, "")
        return out

    def exp_dumpat(s, v, path):
        n = v.resolve(path)
        if n is None or not n.isset:
            return None
        out = {}

        def rec(n, pre):
            for k in n.kids.values():
                if k.isset:
                    p = pre + k.name
                    out[p] = (k.show(), "P" if k.persist else "V")
                    if k.ty == "dir":
                        rec(k, p + ".")
        rec(n, path + ".")
        return out

    def finish(s):
        s.stop = False
        if s.fail and s.fail[2] == "crash":
            return
        for c in sorted(s.views.keys(), reverse=True):
            s.emit("free %d" % c, "free", "exact")


# ------------------------------------------------------------------ running
def sorted_ls(o):
    w = o.split(" ")
    if len(w) == 3 and w[0] == "ls" and w[1] == "ok":
        return "ls ok " + (",".join(sorted(w[2].split(","))) if w[2] != "-" else "-")
    return o


class IO:
    """the harness as an interactive process (one observation line per operation)"""
    def __init__(s, R, exe, tl):
        import subprocess
        e = dict(os.environ)
        e["ASAN_OPTIONS"] = "detect_leaks=0:abort_on_error=0:allocator_may_return_null=1:handle_segv=1"
        e["UBSAN_OPTIONS"] = "print_stacktrace=1:halt_on_error=1"
        s.errf = open(R.path("attr.stderr"), "w+")
        s.p = subprocess.Popen([exe], stdin=subprocess.PIPE, stdout=subprocess.PIPE, stderr=s.errf, text=True,
                               env=e, bufsize=1, errors="replace")
        s.lines = []
        global LAST_IO
        LAST_IO = s
        for l in tl:
            s.send(l)

    def send(s, line):
        s.lines.append(line)
        try:
            s.p.stdin.write(line + "\n"); s.p.stdin.flush()
        except (BrokenPipeError, OSError):
            pass

    def ask(s, line):
        import select
        s.send(line)
        while True:
            r, _, _ = select.select([s.p.stdout], [], [], 15)
            if not r:
                s.p.kill()
                raise kdf.CheckBroken("harness s_attr gives no answer to '%s'; before: %s" % (line, s.lines[-4:]))
            o = s.p.stdout.readline()
            if o == "":
                return None
            if o.startswith(">"):
                return o[1:].strip()

    def stderr(s):
        try:
            s.p.wait(timeout=20)
        except Exception:
            s.p.kill()
        s.errf.seek(0)
        return s.errf.read().strip()

    def close(s):
        try:
            s.p.stdin.close(); s.p.wait(timeout=60)
        except Exception:
            s.p.kill()


def crash_shrink(R, exe, tl, lines):
    """drop operations one at a time while the harness still dies"""
    def sig(err):
        m = re.search(r"SUMMARY: \w+: (\S+) \S*?([\w.]+:\d+)", err) or re.search(r"([\w.]+:\d+):\d+: runtime error", err)
        return m.groups() if m else None
    rc, out, err = R.run_harness(exe, stdin_text="\n".join(tl + lines) + "\n", timeout=60)
    want = sig(err)
    if rc == 0 or want is None:
        return lines

    def dies(cand):
        rc, out, err = R.run_harness(exe, stdin_text="\n".join(tl + cand) + "\n", timeout=60)
        return rc != 0 and sig(err) == want and "> bad-op" not in out
    i, budget = 1, 120
    while i < len(lines) - 1 and budget > 0:
        budget -= 1
        cand = lines[:i] + lines[i + 1:]
        if dies(cand):
            lines = cand
        else:
            i += 1
    return lines


def run(R):
    lib, cflags = R.build_lib()
    T = key_table(R.tree())
    proof = R.prove(["Kdf.Props.C13"], THEOREMS)
    exe = R.build_harness("s_attr", ["s_attr.c"], ldflags=["-Wl,--wrap=_kdumpfile_priv_clear_volatile_attrs", kdf.ALLOC_WRAP])
    quick = R.tier == "quick"
    nhist = 100 if quick else 12000
    nops = 90 if quick else 130
    files = make_files(R, 6 if quick else 24)
    tl = template_lines(*T)
    # what each file's probe sets: discovered on a fresh context of the implementation
    probe = "\n".join(tl + sum((["new 15", "set 15 cache.hits nil", "set 15 cache.misses nil", "popen 15 %s" % f,
                                   "dump 15", "free 15"] for f in files), [])) + "\n"
    rc, out, err = R.run_harness(exe, stdin_text=probe)
    po = kdf.obs(out)
    fileinfo = []
    if rc != 0 or len(po) != 7 * len(files):
        R.violation("opening a generated dump file on a fresh context and walking its attributes by iterators fails: " + err.strip()[:600],
                    dict(stream="attr", stage="fresh-open", files=[os.path.basename(f) for f in files], stderr=err[-1500:]))
        files = []
    for i in range(len(files)):
        st = po[7 * i + 3].split()[1]
        # a probe that fails is torn down again (volatile attributes cleared): what it had set until then is what the
        # harness wrote down in front of that second clear_volatile_attrs()
        pre = po[7 * i + 4]
        src = ("dump " + pre[len("predump "):]) if (st != "ok" and pre != "predump -") else po[7 * i + 5]
        fileinfo.append((st, provided_from_dump(parse_dump(src) or [])))
    # every way of getting answers the same on the FIRST read: what the walk by iterator positions (kdump_attr_ref_get) printed
    # for a freshly opened file is compared with kdump_get_attr by path on another fresh context (attributes that are computed
    # when they are read - CPU registers from PRSTATUS, version codes, page maps - must not show a placeholder to either)
    fr, frmap = [], []
    for i, f in enumerate(files):
        ents = parse_dump(po[7 * i + 5]) if fileinfo[i][0] == "ok" else None
        if not ents:
            continue
        fr += ["new 15", "open 15 %s" % f]
        for q, tok, fl in ents:
            fr.append("get 15 %s" % q); frmap.append((len(fr) - 1, i, q, tok))
        fr.append("free 15")
    if fr:
        rcf, outf, errf = R.run_harness(exe, stdin_text="\n".join(tl + fr) + "\n", timeout=120)
        of = kdf.obs(outf)
        if rcf != 0 or len(of) != len(fr):
            R.violation("reading the attributes of a freshly opened file by path fails: " + errf.strip()[:600],
                        dict(stream="attr", stage="first-read", stderr=errf[-1500:]))
        else:
            for li, i, q, tok in frmap:
                if of[li] != "get ok " + tok:
                    R.violation("first read after opening %s: \"%s\" through an iterator position (kdump_attr_ref_get) is '%s', by path "
                                "(kdump_get_attr) on another fresh context '%s': the getters disagree" % (os.path.basename(files[i]), q, tok, of[li][4:]),
                                dict(stream="attr", stage="first-read", file=os.path.basename(files[i]), key=q, by_iterator=tok, by_path=of[li],
                                     history=["new 15", "open 15 <file>", "dump 15", "new 15", "open 15 <file>", "get 15 " + q],
                                     note="file written by make_files with the same seed (ELF with PRSTATUS notes built by c13.prstatus)"))
                    break
    # how many allocations a call that grows the file set makes (per new slot): the failing allocation of `nfilesoom` is
    # placed with it, and the model is told which slot and which of its three attributes it hits
    global CAL
    CAL = None
    rcc, outc, errc = R.run_harness(exe, stdin_text="\n".join(tl + ["new 12", "nfilescnt 12 1", "nfilescnt 12 3", "nfilescnt 12 4", "free 12"]) + "\n")
    oc = kdf.obs(outc)
    try:
        c1, c3, c4 = (int(oc[j].split()[2]) for j in (1, 2, 3))
        per = c4
        base = c1 - per
        if rcc == 0 and per >= 3 and base >= 0 and c3 == base + 2 * per:
            CAL = (base, per)
    except (IndexError, ValueError):
        pass
    if CAL is None:
        R.notes.append("allocations per file.set slot could not be measured (%s): no allocation-failure steps" % oc[:5])
    # tree shape, stated directly on the implementation: an attribute that reports a value has a parent that reports one
    # (otherwise no walk from the root can reach it) -- on a fresh context, after setting an option below each of the
    # initial directories, and after opening each file
    allpaths = [r["path"] for r in T[0] if r.get("path")] + ["addrxlat.%s.%s" % (d, n) for d in ("default", "force") for n, t in T[1]]
    anc = ["new 14"] + ["get 14 %s" % q for q in allpaths]
    anc += ["set 14 addrxlat.default.virt_bits num:48", "set 14 addrxlat.force.phys_bits num:40"] + ["get 14 %s" % q for q in allpaths]
    for f in files:
        anc += ["open 14 %s" % f] + ["get 14 %s" % q for q in allpaths]
    rca, outa, erra = R.run_harness(exe, stdin_text="\n".join(tl + anc) + "\n", timeout=120)
    oa = kdf.obs(outa)
    if rca == 0 and len(oa) == len(anc):
        isset, stage = {}, "on a fresh context"
        def ancestors_ok():
            for q, ok in isset.items():
                par = q.rsplit(".", 1)[0] if "." in q else None
                if ok and par is not None and par in isset and not isset[par]:
                    return q, par
            return None
        for l, o in zip(anc, oa):
            w = l.split()
            if w[0] == "get":
                isset[w[2]] = o.startswith("get ok")
                continue
            bad = ancestors_ok() if isset else None
            if bad:
                break
            isset = {}
            stage = "after '%s'" % " ".join(w[:1] + [os.path.basename(x) if "/" in x else x for x in w[1:]])
        else:
            bad = ancestors_ok()
        if bad:
            R.violation("%s: kdump_get_attr(\"%s\") reports a value but its parent directory \"%s\" reports none: the attribute cannot be "
                        "reached by iterating from the root" % (stage, bad[0], bad[1]),
                        dict(stream="attr", stage="ancestors", history=[x for x in anc if not x.startswith("get ")][:8] + ["get 14 " + bad[0], "get 14 " + bad[1]]))
    # scripted probe of a known finding that the random histories must avoid (it blocks the process)
    pf = R.path("c13-probe.elf")
    dumpgen.write_elf(pf, [dict(pfn=1, npages=1, voff=0)])
    script = ["new 0", "open 0 " + pf, "set 0 memory.pagemap nil", "set 0 arch.machine num:1", "get 0 arch.machine", "free 0"]
    rc2, out2, err2 = R.run_harness(exe, stdin_text="\n".join(tl + script) + "\n", timeout=20)
    if rc2 != 0 or kdf.obs(out2)[-2:] != ["get ok num:1", "free"]:
        R.violation("clearing memory.pagemap (or a directory above it) through kdump_set_attr after a dump was opened: the bitmap's "
                    "cleanup calls shared_decref(), which locks shared->lock again while kdump_set_attr holds it and then unlocks it; "
                    "the next writer blocks forever (rc=%s, answers %s)" % (rc2, kdf.obs(out2)[2:]),
                    dict(stream="attr", history=script, stderr=err2[-800:]), key="pagemap-clear-deadlock")
    blobctr = [0]
    hists, first, known = [], None, {}
    io = IO(R, exe, tl)
    for hid in range(nhist):
        h = Hist(R, T, files, fileinfo, hid, blobctr, io)
        n = R.rng.randint(nops // 2, nops)
        guard = 0
        if hid % 8 == 5:
            # every eighth history starts by opening its dump the legacy way (file.fd), after a few random steps on the fresh context
            for _ in range(R.rng.randint(0, 6)):
                h.step()
            h.step_filefd(0, h.views[0])
        while h.nq < n and not h.stop and guard < 20 * n:
            h.step(); guard += 1
        h.finish()
        hists.append(h)
        for idx, msg, key in h.known:
            known.setdefault(key, (h, idx, msg))
        if h.fail:
            first = h
            break
    io.close()
    # (2) correspondence: the same lines through the model
    impl = [o for h in hists for o in h.obs]
    model = kdf.obs(R.run_driver("attr", "\n".join(io.lines) + "\n"))
    qops = [(h, i) for h in hists for i, x in enumerate(h.ops) if x[2] != "quiet"]
    mism = kdf.diff_streams(impl, model[:len(impl)] if first else model)
    for key, (h, idx, msg) in known.items():
        R.violation(msg, dict(stream="attr", history=[l for l, _, _, _ in h.ops[:idx + 1] if not l.startswith("prov ")],
                              expected=h.ops[idx][1]), key=key)
    if first is not None:
        h = first
        idx, msg, kind = h.fail
        lines = [l for l, _, _, _ in h.ops[:idx + 1]]
        if kind == "crash":
            lines = crash_shrink(R, exe, tl, lines)
        e = h.ops[idx][1]
        R.violation(msg, dict(stream="attr", history=[l for l in lines if not l.startswith("prov ")],
                              expected=e if isinstance(e, (str, type(None))) else "tree walk, see message",
                              note="lines are the input of harness/s_attr.c (after the G/O/M/I template lines written by "
                                   "tools/props/c13.py template_lines); dump files come from make_files with the same seed",
                              files={os.path.basename(f): fileinfo[i][0] for i, f in enumerate(files)},
                              stderr=io.stderr()[-1500:] if kind == "crash" else "", broken_theorems=proof["broken"]))
    elif proof["broken"] or mism is not None:
        fd = None
        if mism is not None:
            hh, oi = qops[mism] if mism < len(qops) else (None, None)
            fd = dict(op=hh.ops[oi][0] if hh else None, impl=impl[mism] if mism < len(impl) else None,
                      model=model[mism] if mism < len(model) else None,
                      history=None if hh is None else [l for l, _, _, _ in hh.ops[:oi + 1] if not l.startswith("prov ")])
        R.violation("proof obligation or correspondence broken: theorems %s; first differing observation: %s"
                    % (proof["broken"], None if fd is None else (fd["op"], fd["impl"], fd["model"])),
                    dict(stream="attr", broken_theorems=proof["broken"], lean_log=proof["log"][-1500:], first_diff=fd),
                    found_input=False)
    opk, kinds, nontrivial = {}, {}, set()
    for h in hists:
        for k, v in h.kinds.items():
            opk[k] = opk.get(k, 0) + v
        for (line, _, _, _), o in zip([x for x in h.ops if x[2] != "quiet"], h.obs):
            w = line.split(" ", 2)
            kk = w[0] + "/" + (o.split() + ["", ""])[1]
            kinds[kk] = kinds.get(kk, 0) + 1
            if w[0] not in ("new", "free", "mkblob", "clone"):
                nontrivial.add((w[0], w[-1], o))
    cov = dict(obligations=proof["obligations"], discharged=proof["discharged"],
               checker_cmd="cd lean && lake build Kdf.Props.C13 && #print axioms on each theorem",
               trusted_base=["Lean 4 kernel", "axioms: " + ", ".join(sorted({a for v in proof["axioms"].values() for a in v}) or ["none"]),
                             "the dictionary oracle in tools/props/c13.py (independent of the Lean model)",
                             "what a format probe sets is discovered by opening each generated file on a fresh context (C01/C14 decide whether it is right)",
                             "harness/s_attr.c reads the persist flag from struct attr_data; tools/dumpgen.py; gcc + ASan/UBSan",
                             "hooks not modelled: keys with other attr_ops than vmcoreinfo_raw/num_files/ostype/dirty_xlat are not set by the generator"],
               broken_theorems=proof["broken"], theorems=THEOREMS, evaluations=len(impl),
               distinct_nontrivial=len(nontrivial),
               rule="random histories (%d of up to %d operations) of get/typed get/set/clear by path, reference, sub-reference and "
                    "iterator position, iterator start/next, ls, full tree walks, clone (flags 0..3)/free and re-open on generated ELF "
                    "(with PRSTATUS + VMCOREINFO notes), diskdump and garbage files; keys: all global keys, addrxlat options, "
                    "file.set.N, VMCOREINFO lines and derived keys incl. hash-bucket collisions of prefix-related keys, cpu.N from files; "
                    "scripted steps inside the histories: file.set.number grown with the K-th allocation failing (every slot, every attribute of "
                    "a slot) then probed and grown again; linux.uts.release set and linux.version_code read FIRST through a reference / "
                    "sub-reference / iterator position / path; cpu.number set by the application, a file opened, the value read back; "
                    "before the histories: first read of every attribute of each freshly opened file by iterator position vs by path; "
                    "non-trivial = distinct (operation, observation) pairs" % (len(hists), nops),
               traces_validated_against_impl=len(model), correspondence_first_diff=mism,
               op_kinds=opk, observation_kinds=dict(sorted(kinds.items(), key=lambda kv: -kv[1])[:40]),
               files=[os.path.basename(f) + ":" + fileinfo[i][0] for i, f in enumerate(files)],
               samples=[dict(op=hists[0].ops[i][0][:80], observed=hists[0].obs[i][:80]) for i in (1, 5, 9) if i < len(hists[0].obs)
                        and hists[0].ops[i][2] != "quiet"][:3])
    return "proof", cov, ["keys with unmodelled hooks (arch.name, arch.page_size/shift, cache.size, linux.uts.machine, "
                          "xen.version.*, file.fd, file.set.N.fd) are read but never set by the generator (C14); linux.uts.release is set "
                          "with release strings that parse (a[.b[.c[suffix]]]); the model stores the derived linux.version_code at once, the "
                          "implementation computes it when a getter asks",
                          "allocation failure is modelled for file.set.number only (nfilesoom: the K-th allocation of the call fails; the "
                          "slot and the attribute it hits are derived from the measured number of allocations per slot, the last two "
                          "of a slot being `fd` and `name`)",
                          "implementation-only (no model): the first-read comparison of iterator position and path on freshly opened files "
                          "(CPU registers derived from PRSTATUS, page maps, version codes set by a probe)",
                          "with cpu.number set by the application only files without CPU notes are opened (the notes would be numbered "
                          "from that value on)",
                          "contexts with a private dictionary do not open files or create dynamic keys (see REPORT_C13.txt)",
                          "references and iterator positions are not used after the attribute they point to was deallocated",
                          "one thread"]
