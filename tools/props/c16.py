"""C16 — failures carry a documented status and a message that tells the story."""
import os, re
import kdf, dumpgen

THEOREMS = ["Kdf.Props.C16." + t for t in ("init_inv", "clear_inv", "vadd_chain", "vadd_fits_no_alloc", "vadd_trunc", "vadd_inbounds", "history_inv", "history_chain", "codes_documented", "status_roundtrip", "addrxlat2kdump_documented", "probe_never_noprobe",
    "directReadOk_tolerates", "directReadOk_empty", "pgtroot_story", "pgtroot_disciplined", "mapLinuxPgtroot_disciplined",
    "mapLinuxArm_disciplined", "mapLinuxArm_story", "xenver_disciplined", "xenver_tolerates", "derived_disciplined",
    "derived_names_cause", "ctxMalloc_disciplined", "ctxMalloc_fail_message", "ctxMalloc_ok_silent", "s390OsInfoAlloc_story", "s390OsInfoAlloc_disciplined",
    "vmcoreinfoLookup_disciplined", "vmcoreinfoLookup_dot_is_miss", "vmcoreinfoLookup_fail_one_link", "tryAltM_fst", "tryAltM_inv", "doOpM_fst", "doOpM_call_clean", "doOpM_fail_msg", "opTopM_fst", "op_success_clean", "op_failure_msg")]
BUFSZ = [64, 80, 160]          # ERRBUF of addrxlat ctx, bitmap objects, kdump ctx


def gen_err(R):
    rng = R.rng
    seqs = []
    for bs in BUFSZ:
        # every message length relative to the inline buffer, as first and as second message
        for n in list(range(0, 2 * bs + 4)):
            seqs.append((bs, [("add", n, 1)]))
            seqs.append((bs, [("add", n, 0)]))
        for n in range(0, bs + 4, 3):
            for m in (0, 1, 5, bs - n - 3 if bs - n - 3 > 0 else 2, bs - n - 2 if bs - n - 2 > 0 else 2, bs - n, bs):
                for ok in (1, 0):
                    seqs.append((bs, [("add", n, 1), ("add", m, ok)]))
    nr = 400 if R.tier == "quick" else 10000
    for _ in range(nr):
        bs = rng.choice(BUFSZ)
        seq = []
        for _ in range(rng.randint(2, 12)):
            k = rng.random()
            if k < 0.08:
                seq.append(("clear",))
            else:
                n = rng.choice([0, 1, 2, 7, 20, bs // 2, bs - 3, bs - 2, bs - 1, bs, bs + 1, rng.randint(0, 2 * bs)])
                seq.append(("add", n, 1 if rng.random() < 0.7 else 0))
        seqs.append((bs, seq))
    return seqs


def msg_bytes(rng, n):
    return bytes(rng.choice(b"abcdefghijklmnopqrstuvwxyzABCDEFGHIJKLMNOPQRSTUVWXYZ0123456789_/.-") for _ in range(n))


def api_scenarios(R):
    """Failing and succeeding public calls on good, truncated and corrupted dumps; every observation line of
    harness/s_fmt.c carries the monitor verdict (` C16:undocumented-status`, ` C16:empty-message`, ` C16:stale-message`)."""
    import os
    rng = R.rng
    paths = []
    p = R.path("c16-a.dump"); dumpgen.write_diskdump(p, [0, 1, 2, 5, 6], max_mapnr=16, ram=range(10), methods={1: "zlib", 2: "lzo", 5: "zstd"}); paths.append(p)
    p = R.path("c16-b.elf"); dumpgen.write_elf(p, [dict(pfn=1, npages=2, voff=0xffff880000000000), dict(pfn=6, npages=3, filepages=1, voff=0xffff880000000000)]); paths.append(p)
    good = [open(x, "rb").read() for x in paths]
    # truncations (corrupted fields are the hostile-input stream of C03, not this one)
    variants = []
    for gi, g in enumerate(good):
        for cut in (0, 7, 64, 300):
            q = R.path("c16-t%d-%d" % (gi, cut)); open(q, "wb").write(g[:cut]); variants.append(q)
    lines = []
    for q in paths + variants:
        lines.append("open 1 %s" % q)
        for a in ("file.format", "arch.name", "no.such.key", "linux.uts.release", "max_pfn", "cache.size"):
            lines.append("attr %s" % a)
        lines += ["setnum cache.size 4", "setnum arch.name 3", "setnum no.such.key 1"]
        for as_ in (0, 1, 2):
            for addr in (0, 0x1000, 0x2000, 0x3000, 0x5000, 0x7000, 0xffff880000001000, (1 << 64) - 4096):
                lines.append("probe %d %d 4096" % (as_, addr))
        lines += (["bits file 0 40", "fset mem 3", "fclr file 0"] if q in paths else []) + ["read 1 4090 20", "attr file.format"]
    # a successful call that resolves symbols through a fallback: OS type set on an ELF dump whose VMCOREINFO
    # has init_uts_ns but no system_utsname (the failed first lookup must leave no stale message behind)
    import struct
    vmci = b"OSRELEASE=4.4.156-test\nPAGESIZE=4096\nSYMBOL(init_uts_ns)=ffffffff81e152e0\n"
    note = struct.pack("<III", 11, len(vmci), 0) + b"VMCOREINFO\0\0" + vmci + b"\0" * (-len(vmci) % 4)
    uts = b"\0" * 0x2e0 + struct.pack("<I", 6) + b"".join(x.ljust(65, b"\0") for x in
          (b"Linux", b"demo-node", b"4.4.156-test", b"#1 SMP Wed Oct 10 06:29:13 UTC 2018", b"x86_64", b"(none)"))
    p = R.path("c16-uts.elf")
    dumpgen.write_elf(p, [dict(paddr=0x1e15000, filesz=4096, memsz=4096, voff=0xffffffff81e15000 - 0x1e15000, data=uts)], notes=note)
    lines += ["open 1 %s" % p, "setstr addrxlat.ostype linux", "attr linux.uts.nodename", "attr linux.uts.release"]
    # the same fallback when the memory at init_uts_ns does not hold a utsname: a failure that must carry its message
    p2 = R.path("c16-uts-bad.elf")
    bad = b"\0" * 0x2e0 + struct.pack("<I", 6) + b"".join(x.ljust(65, b"\0") for x in (b"Minix", b"n", b"r", b"v", b"m", b"d"))
    dumpgen.write_elf(p2, [dict(paddr=0x1e15000, filesz=4096, memsz=4096, voff=0xffffffff81e15000 - 0x1e15000, data=bad)], notes=note)
    lines += ["open 1 %s" % p2, "setstr addrxlat.ostype linux", "attr linux.uts.nodename"]
    # VMCOREINFO look-ups by name (kdump_vmcoreinfo_symbol / _line): every shape of a name that misses -- unknown, empty,
    # a leading / trailing / lone dot (the dictionary's own path separator and its "no fallback" mark), the name of a
    # directory node, a key of the other table -- must fail with a message; the names that exist must succeed silently.
    # The expectation is computed here from the VMCOREINFO text, independently of the library.
    vrows = [("OSRELEASE", "4.4.156-test"), ("PAGESIZE", "4096"), ("SYMBOL(init_uts_ns)", "ffffffff81e152e0"),
             ("SYMBOL(swapper_pg_dir)", "ffffffff81c0a000"), ("SYMBOL(_stext)", "ffffffff81000000"), ("NUMBER(phys_base)", "16777216"),
             ("LENGTH(mem_section)", "2048"), ("CRASHTIME", "1538000000")]
    vsyms = {k[7:-1]: int(v, 16) for k, v in vrows if k.startswith("SYMBOL(")}
    vtxt = "".join("%s=%s\n" % kv for kv in vrows).encode()
    pv = R.path("c16-vmci.elf")
    dumpgen.write_elf(pv, [dict(paddr=0x1e15000, filesz=4096, memsz=4096, voff=0xffffffff81e15000 - 0x1e15000, data=uts)],
                      notes=dumpgen.elf_note(b"VMCOREINFO", 0, vtxt))
    def vnames():
        known = list(vsyms) + [k for k, _ in vrows]
        ident = lambda: "".join(rng.choice("abcdefghijklmnopqrstuvwxyz_") for _ in range(rng.randint(1, 12)))
        out = ["", ".", "..", "SYMBOL", "NUMBER", "lines", "raw", "LENGTH", "no_such_symbol"]
        for k in known:
            out += [k, "." + k, k + ".", k[:-1], k + "x"]
        for _ in range(12 if R.tier == "quick" else 200):
            w = rng.choice([ident(), rng.choice(known)])
            out.append(rng.choice(["", ".", "..", "x."]) + w + rng.choice(["", "", ".", "." + ident()]))
        return out
    vexp = {}
    for ost in (None, "linux", "xen"):
        lines.append("open 1 %s" % pv)
        if ost:
            lines.append("setstr addrxlat.ostype " + ost)
        for nm in vnames():
            hx = nm.encode().hex() or "-"
            for op in ("vsym", "vline"):
                want = None
                if ost == "linux" and op == "vsym" and nm in vsyms:      # (the Xen table comes from the VMCOREINFO_XEN note, which this dump lacks)
                    want = "vsym ok %d" % vsyms[nm]
                elif ost == "linux" and op == "vline" and nm in dict(vrows):
                    want = "vline ok %s." % dict(vrows)[nm].encode().hex()
                # the class of the name for the model (lean/Kdf/Model/ErrFlow.lean vmcoreinfoLookup, driver stream `flow`)
                look = ("noos" if ost is None else "notable" if ost != "linux" else "dot" if nm.startswith(".") else
                        "found" if want is not None else "miss")
                vexp[len(lines)] = (op, nm, ost, want, "vmci %s %s %s" % ("sym" if op == "vsym" else "line", look, ost or "-"))
                lines.append("%s %s" % (op, hx))
    # a file name that was set and removed again must not be used by the message of a later failing open
    lines += ["open 1 %s" % paths[0], "setfn /var/crash/2026-09-30/an-earlier-dump-file-name-long-enough-to-live-on-the-heap.dump", "setfn -",
              "reopen %s" % variants[2], "attr file.format", "setfn /x/second-name-of-this-context.dump", "reopen %s" % variants[3], "setfn -",
              "reopen %s" % variants[1], "reopen %s" % paths[0], "attr file.format"]
    # pages whose compressed data does not decompress (LKCD run-length and gzip streams, diskdump zlib): the read fails
    # with the documented status "corrupt" and a message, whether it is reached directly (MACHPHYSADDR) or through the
    # translation library (KPHYSADDR); a stream that fills the page exactly is fine
    from props import c03 as _c03
    expect = {}
    ee = bytes([0, 255, 0xee]) * 16                      # 4080 bytes
    def bad_rle():
        k = rng.randrange(6)
        pre = b"".join(bytes([0, rng.randint(1, 255), rng.randint(1, 255)]) for _ in range(rng.randint(0, 12)))
        if k == 0: return ee + bytes([0, rng.randint(17, 255), 0xdd])                 # run longer than the room left
        if k == 1: return bytes([rng.randint(1, 255)]) * rng.randint(4097, 4200)      # too many literals
        if k == 2: return ee + bytes([0, 16])                                         # ends inside the escape
        if k == 3: return pre + b"\0"                                                 # ends right after the escape byte
        if k == 4: return pre + bytes([0, 200, 7]) * 30                               # expands far beyond the page
        return ee + bytes([0, 16, 0xdd])                                              # fills the page exactly: fine
    for comp, nm in ((1, "rle"), (2, "gzip")):
        pfns = list(range(8))
        if comp == 1:
            streams = {1: ee + bytes([0, 17, 0xdd]), 2: ee + bytes([0, 16, 0xdd]), 3: ee + bytes([0, 16])}
            for f in (4, 5, 6, 7):
                streams[f] = bad_rle()
            verdict = {f: _c03.rle_ref(s, 4096) for f, s in streams.items()}
            bad = {f for f, v in verdict.items() if v[0] == "err" or len(v[1]) != 4096}
        else:
            import zlib
            z = zlib.compress(dumpgen.page_bytes(1, 4096))
            streams = {1: b"\x78\x9c" + bytes(rng.randrange(256) for _ in range(40)), 3: z[:len(z) // 2], 4: zlib.compress(b"A" * 5000),
                       5: zlib.compress(b"B" * 100), 6: bytes(rng.randrange(256) for _ in range(rng.randint(1, 64)))}
            bad = set(streams)
        q = R.path("c16-lkcd-%s" % nm)
        dumpgen.c03_write_lkcd(q, pfns, compress=comp, streams=streams)
        lines.append("open 1 %s" % q)
        for as_ in (1, 0):
            for f in pfns:
                if as_: expect[len(lines)] = ("corrupt -" if f in bad else "ok ",
                                      "LKCD dump (dh_dump_compress=%d), page %d with the compressed stream %s read as %s" % (
                                          comp, f, streams[f].hex()[:80] if f in streams else "(well-formed)", ("KPHYSADDR", "MACHPHYSADDR")[as_]))
                lines.append("probe %d %d 4096" % (as_, f * 4096))
        lines.append("attr file.format")
    q = R.path("c16-ddbad.dump")
    dumpgen.write_diskdump_custom(q, [0, 1, 2, 3], {}, max_mapnr=8, methods={1: "zlib-bad", 3: "zlib-bad"})
    lines.append("open 1 %s" % q)
    for as_ in (1, 0):
        for f in range(4):
            if as_: expect[len(lines)] = ("corrupt -" if f in (1, 3) else "ok ", "diskdump page %d (%s) read as %s" % (
                f, "flagged zlib, data does not inflate" if f in (1, 3) else "well-formed", ("KPHYSADDR", "MACHPHYSADDR")[as_]))
            lines.append("probe %d %d 4096" % (as_, f * 4096))
    exe = R.build_harness("s_fmt", ["s_fmt.c"])
    rc, out, err = R.run_harness(exe, stdin_text="\n".join(lines) + "\n")
    obs = kdf.obs(out)
    for i, (want, what) in sorted(expect.items()):
        if i < len(obs) and not obs[i].startswith(want) and " C16:" not in obs[i] and "UNDOCUMENTED" not in obs[i]:
            return lines, ("%s answered '%s', expected status '%s'" % (what, obs[i][:100], want.split()[0]),
                           "\n".join(lines[max(j for j in range(i + 1) if lines[j].startswith("open ")):i + 1])), len(obs)
    # a failure that crosses from libkdumpfile into libaddrxlat and back: KVADDR read through page tables whose
    # root page is flagged zlib-compressed but does not inflate (every message of the chain exactly once)
    if rc == 0:
        mapping = {0x100 + i: i for i in range(4)}
        root, tables = dumpgen.x86_64_pgt_pages(mapping, [8, 9, 10, 11])
        q = R.path("c16-pgt.dump")
        dumpgen.write_diskdump_custom(q, list(range(4)) + sorted(tables), tables, max_mapnr=16, methods={root: "zlib-bad"})
        l2 = ["open 1 %s" % q, "pgt %d" % (root * 4096), "read 2 %d 4096" % (0x100 * 4096), "read 1 0 4096", "read 2 %d 64" % (0x101 * 4096 + 5)]
        exe2 = R.build_harness("s_hist", ["s_hist.c"])
        rc2, out2, err2 = R.run_harness(exe2, stdin_text="\n".join(l2) + "\n")
        lines += l2; obs += kdf.obs(out2); rc = rc or rc2; err += err2
    fail = None
    vm_m, vm_want = [], []
    for i, (op, nm, ost, want, ml) in sorted(vexp.items()):
        if i >= len(obs):
            break
        o, _, emsg = obs[i].partition(" | ")
        vm_m.append(ml)
        vm_want.append(("kdump_vmcoreinfo_%s(ctx, %r) with addrxlat.ostype %s" % ("symbol" if op == "vsym" else "line", nm, ost or "unset"),
                        "%s | %s" % (o.split()[1], emsg)))
        call = "kdump_vmcoreinfo_%s(ctx, %r) with addrxlat.ostype %s on an ELF dump whose VMCOREINFO is %r" % (
            "symbol" if op == "vsym" else "line", nm, ost or "unset", vtxt.decode())
        k0 = max(k for k in range(i + 1) if lines[k].startswith("open "))
        rep = "\n".join(lines[k0:k0 + (2 if ost else 1)] + [lines[i]])
        if " C16:" in o or "UNDOCUMENTED" in o:
            fail = ("%s answered '%s' (%s)" % (call, o[:160], "the call failed and kdump_get_err() has no message" if "empty-message" in o else "monitor verdict"), rep)
        elif want is not None and o != want:
            fail = ("%s answered '%s', expected '%s'" % (call, o[:160], want), rep)
        elif want is None and (" ok " in o or not o.startswith("%s nodata -" % op)):
            fail = ("%s answered '%s'; the name is not in the table, expected status nodata with a message" % (call, o[:160]), rep)
        if fail:
            break
    for i, o in enumerate(obs):
        if fail:
            break
        if " C16:" in o or "UNDOCUMENTED" in o:
            # find the command that produced observation i
            fail = ("public call '%s'%s answered '%s'" % (lines[i][:60] if i < len(lines) else "?", " (%s)" % expect[i][1] if i in expect else "", o[:200]),
                    "\n".join(lines[max(0, i - 3):i + 1]))
            break
    if fail is None and rc != 0:
        k = min(len(obs), len(lines) - 1)
        errl = [l for l in err.strip().split("\n") if "WARNING: AddressSanitizer failed to allocate" not in l]
        fail = ("API scenario harness stopped (rc=%s) near '%s': %s" % (rc, lines[k][:120], " | ".join(errl[:6])[:700]),
                "\n".join(lines[max(0, k - 40):k + 1]))
    api_scenarios.model = (vm_m, vm_want)
    return lines, fail, len(obs)


# ---------------------------------------------------------------------------------------------------------
# libaddrxlat-level OS set-up: addrxlat_sys_os_init and conversions on generated images of every architecture
# (tools/props/c08img.py through harness/s_os.c in its C16 mode), with the get_page callback failing with each
# status class at each page the set-up reads and each symbol / number look-up refused in turn.
OS_GENS = ["gen_x86_64_linux", "gen_x86_64_xen", "gen_ia32_linux", "gen_riscv64_linux", "gen_aarch64_linux", "gen_arm_linux"]
OS_FAIL = ["nodata", "notpresent", "nomem", "invalid", "notimpl", "custom4", "custom7"]     # custom<n>: a tunnelled kdump_status


def os_images(R, rng):
    """(name, image) list: random images of every generator plus the images whose root page table is a kernel virtual
    address that the read callback claims to serve (the `direct_read_ok` class of arm, aarch64, riscv64)."""
    import random
    from props import c08img as G
    quick = R.tier == "quick"
    out = []
    def mk(g, force=None):
        return getattr(G, g)(random.Random(rng.getrandbits(48)), force=dict(force) if force else None)
    for g in OS_GENS:
        for k in range(1 if quick else 6):
            out.append(("%s#%d" % (g[4:], k), mk(g)))
    combos = [(ro, st, pb, rc) for ro in ("kv", None) for st in (True, False) for pb in (True, False) for rc in (7, 4)]
    # the class "root readable at its virtual address, nothing else known" is in every run; the rest is sampled
    chosen = [("kv", False, False, 7), (None, False, True, 7)] + (rng.sample(combos, 4) if quick else combos)
    for ro, st, pb, rc in chosen:
        img = mk("gen_arm_linux", dict(rootopt=ro, swapper=True, stext=st, phys_base_opt=pb, rcaps=rc))
        out.append(("arm-kvroot(opt=%s,stext=%d,phys_base=%d,rcaps=%d)" % (ro, st, pb, rc), img))
    for g, num in (("gen_aarch64_linux", "kimage_voffset"), ("gen_riscv64_linux", "va_kernel_pa_offset")):
        for drop in (False, True):
            # (the number of virtual address bits comes as an option: the model twin starts at map_linux_*)
            img = mk(g, dict(rootsrc="sym", vb=(0, 0, 1) if "aarch64" in g else (False, True)))
            img.rcaps |= 4
            if drop:
                img.syms = [x for x in img.syms if x[1] != num]
            out.append(("%s-kvroot(%s=%d)" % (g[4:-6], num, not drop), img))
    return out


def os_model(name, img, inject):
    """the line that describes this set-up to the model (lean/Kdf/Model/ErrFlow.lean mapLinuxArm / mapLinuxPgtroot through
    driver stream `flow`), or None when the image's set-up is not one of the modelled ones"""
    hx = lambda t: t.encode().hex()
    hide = [i.split()[1:] for i in inject if i.startswith("hide ")]
    bad = [(int(i.split()[1]), int(i.split()[2]), i.split()[3]) for i in inject if i.startswith("bad ")]
    def sym(kind, nm):
        for k, n, st in hide:
            if (k, n) == (kind, nm):
                return "%s %s" % (st, hx("refused " + nm))
        vals = [v for k, n, v in img.syms if (k, n) == (kind, nm)]
        return ("ok -", vals[-1]) if vals else "nodata %s" % hx("no %s %s" % (kind, nm))
    def val(x):
        return x[1] if isinstance(x, tuple) else None
    def txt(x):
        return x[0] if isinstance(x, tuple) else x
    def rd(as_, addr):
        for a, b, st in bad:
            if a == as_ and b == addr & ~0xfff:
                return "%s %s" % (st, hx("page not available"))
        return "ok -"
    sw = sym("sym", "swapper_pg_dir")
    rootopt = "rootpgt" in img.opts
    if rootopt:
        ras, raddr = (int(x) for x in img.opts["rootpgt"].split(":"))
    else:
        ras, raddr = 2, val(sw)
    caps = 0 if raddr is None else (img.rcaps >> ras) & 1
    rdp = "ok -" if raddr is None else rd(ras, raddr)
    if img.arch == "arm":
        return "arm %d %s %s %d %s %d" % (rootopt, txt(sw), txt(sym("sym", "_stext")), caps, rdp, "phys_base" in img.opts)
    if "kvroot" in name and img.arch in ("aarch64", "riscv64"):
        num = "kimage_voffset" if img.arch == "aarch64" else "va_kernel_pa_offset"
        return "pgtroot %s %d %s %d %s %s" % (num, rootopt, txt(sw), caps, rdp, txt(sym("num", num)))
    return None


def os_verdict(st, msg, ev, custom_injected):
    """the monitor on one `E` line of harness/s_os.c: None, or what is wrong"""
    import re
    if st == "UNDOCUMENTED" or (st == "custom" and not custom_injected):
        return "returned a status outside the documented enumeration"
    if st == "ok" and msg != "-":
        return "succeeded and left the message '%s' in the context" % msg[:160]
    if st != "ok" and msg == "-":
        return "failed with status %s and an empty error string" % st
    if st == "ok":
        return None
    tags = re.findall(r"\[ev(\d+)\]", msg)
    links = msg.split(": ")
    # (a generic link such as "No way to translate" legitimately recurs when a translation needs a read that
    # needs a translation; what must not recur is a callback failure, and those carry their own number)
    if len(tags) > 1:
        return "failed with a chain that tells two stories (text of an earlier, tolerated failure is still in it): '%s'" % msg[:240]
    if tags and not links[-1].startswith("[ev"):
        return "failed with a chain whose origin is not its innermost link: '%s'" % msg[:200]
    if tags and int(tags[0]) != ev:
        return "failed with a chain that ends in callback failure #%s although #%d was the last one: '%s'" % (tags[0], ev, msg[:200])
    return None


def os_family(R, rng):
    """returns (violation or None, statistics)"""
    lib, cflags = R.build_lib()
    exe = R.build_harness("s_os", ["s_os.c"], lib=lib, cflags=cflags)
    quick = R.tier == "quick"
    imgs = os_images(R, rng)
    # pass 1: the unharmed set-up of every image, with the list of pages it reads
    base = ["c16 1"]
    for name, img in imgs:
        base += img.setup_lines()
    rc, out, err = R.run_harness(exe, stdin_text="\n".join(base) + "\n")
    pages, cur, elines = [], [], []
    for l in out.split("\n"):
        if l.startswith("P "):
            t = tuple(int(x) for x in l.split()[1:3])
            if t not in cur:
                cur.append(t)
        elif l.startswith("E osinit"):
            pages.append(cur); cur = []; elines.append(l)
    if rc != 0 or len(elines) != len(imgs):
        return (("OS set-up harness stopped (rc=%s) after %d of %d images: %s" % (rc, len(elines), len(imgs), err.strip()[-600:]),
                 dict(stream="os", input="\n".join(base[-40:]))), {}, [], [])
    script, desc = ["c16 2"], []
    for (name, img), pg in zip(imgs, pages):
        L = img.setup_lines()
        osinit = L[-1]
        script += L[:-1]
        qs = [r[1] for r in img.regions[:2]] + [0x10]
        def one(inject, what, custom=False):
            script.extend(["newsys", "unbad", "hide - - ok"] + inject + [osinit])
            desc.append((name, img, inject, what + " during addrxlat_sys_os_init", custom, os_model(name, img, inject)))
            for q in qs:
                script.append("conv 0 2 %d" % q)
                desc.append((name, img, inject, what + "; conversion of KVADDR:%#x after the set-up" % q, custom, None))
        one([], "nothing fails")
        pts = list(pg)
        if quick and len(pts) > 6:
            pts = pts[:3] + pts[-1:] + rng.sample(pts[3:-1], 2)
        elif len(pts) > 48:
            pts = pts[:16] + pts[-8:] + rng.sample(pts[16:-8], 24)
        for i, (as_, a) in enumerate(pts):
            sts = OS_FAIL if (i == 0 or not quick) else ["nodata"] + rng.sample(OS_FAIL[1:], 2)
            for st in sts:
                one(["bad %d %d %s" % (as_, a, st)], "get_page fails with %s for %s:%#x" % (st, ("KPHYSADDR", "MACHPHYSADDR", "KVADDR")[as_], a),
                    st.startswith("custom"))
        names = list(dict.fromkeys((k, n) for k, n, v in img.syms))
        for k, n in names:
            for st in (["nodata", rng.choice(OS_FAIL[1:])] if quick else OS_FAIL):
                one(["hide %s %s %s" % (k, n, st)], "the %s look-up of %s fails with %s" % (k, n, st), st.startswith("custom"))
    rc, out, err = R.run_harness(exe, stdin_text="\n".join(script) + "\n", timeout=1200)
    E = [l for l in out.split("\n") if l.startswith("E ")]
    stats = dict(images=len(imgs), calls=len(E), failing=0, tolerated_failures=0)
    fail = None
    mlines, mwant = [], []
    for (name, img, inject, what, custom, ml), l in zip(desc, E):
        head, msg = l.split(" | ", 1)
        t = head.split()
        st, ev = t[2], int(t[3][3:])
        if st != "ok":
            stats["failing"] += 1
        elif inject and ev:
            stats["tolerated_failures"] += 1
        if ml:
            mlines.append(ml)
            mwant.append(("image %s: %s" % (name, what), "%s | %s" % (st, re.sub(r"\[ev\d+\] ", "", msg))))
        v = os_verdict(st, msg, ev, custom)
        if v:
            stats.setdefault("verdicts", []).append("%s | %s | %s" % (name, what[:90], v[:200]))
        if v and fail is None:
            L = img.setup_lines()
            fail = ("%s (image %s: %s): %s" % (t[1] == "osinit" and "addrxlat_sys_os_init" or "addrxlat_fulladdr_conv", name, what, v),
                    dict(stream="os", image=name, desc={k: str(x) for k, x in img.desc.items()}, what=what,
                         observed=l, input="\n".join(["c16 2"] + L[:-1] + inject + [L[-1]]) if len(L) < 3000 else
                         "\n".join(["c16 2", "# %d set-up lines of the image omitted" % (len(L) - 1)] + [x for x in L if not x.startswith("ovr")][:-1] + inject + [L[-1]])))
    if fail is None and (rc != 0 or len(E) != len(desc)):
        k = min(len(E), len(desc) - 1)
        fail = ("OS set-up harness stopped (rc=%s) at image %s, %s: %s" % (rc, desc[k][0], desc[k][3], err.strip()[-600:]),
                dict(stream="os", image=desc[k][0], inject=desc[k][2]))
    stats["modelled"] = len(mlines)
    return fail, stats, mlines, mwant


# ---------------------------------------------------------------------------------------------------------
# libkdumpfile-level message discipline (harness/s_flow.c, model lean/Kdf/Model/ErrFlow.lean, driver stream `flow`):
# register / blob attributes of dumps with PRSTATUS and XEN_PRSTATUS notes after the blob was cleared or replaced,
# Xen Dom0 dumps whose crash note points to memory the dump may or may not hold, the same with allocation failures.
def xen_crash_info(extra, be=False):
    import struct
    return struct.pack((">" if be else "<") + "10Q", 4, 11, extra, 0, 0, 0, 0, 0, 0x7f800000, 0x1234)


def flow_family(R, rng):
    """returns (violation or None, lines, harness observations, model lines, statistics)"""
    import struct
    quick = R.tier == "quick"
    lib, cflags = R.build_lib()
    exe = R.build_harness("s_flow", ["s_flow.c"], lib=lib, cflags=cflags, ldflags=[kdf.ALLOC_WRAP])
    vm = b"OSRELEASE=5.4.0-verif\nPAGESIZE=4096\n"
    L = []                       # harness lines;  an `M ...` line describes the call that follows it to the model
    # ---- PRSTATUS (ELF notes, two CPUs) and XEN_PRSTATUS (xc_core section)
    notes = dumpgen.elf_note(b"CORE", 1, dumpgen.prstatus_x86_64(1)) + dumpgen.elf_note(b"CORE", 1, dumpgen.prstatus_x86_64(2)) + \
        dumpgen.elf_note(b"VMCOREINFO", 0, vm)
    p1 = R.path("c16-prstatus.elf"); dumpgen.write_elf(p1, [dict(pfn=1, npages=2, voff=0xffff880000000000)], notes=notes)
    p2 = R.path("c16-xenprstatus.elf"); dumpgen.write_elf_sections(p2)
    ddesc = {p1: "dumpgen.write_elf(path, [dict(pfn=1, npages=2, voff=0xffff880000000000)], notes=elf_note(b'CORE', 1, prstatus_x86_64(1)) + "
                 "elf_note(b'CORE', 1, prstatus_x86_64(2)) + elf_note(b'VMCOREINFO', 0, b'OSRELEASE=5.4.0-verif\\nPAGESIZE=4096\\n'))",
             p2: "dumpgen.write_elf_sections(path)   # xc_core ELF with a .xen_prstatus section"}
    regs1 = ["rip", "rsp", "rax", "r15", "rbp", "cs", "fs_base"]
    regs2 = ["cr3", "cr0", "cs", "dr0", "rip", "rsp"]
    for path, blobkey, regs, other in ((p1, "PRSTATUS", regs1, "cpu.1.reg.rip"), (p2, "XEN_PRSTATUS", regs2, None)):
        for rounds in range(1 if quick else 4):
            L.append("open " + path)
            state, size = "set", None
            for _ in range(rng.randint(8, 14) if rounds else 1):
                pass
            seq = ["rd", "wr", "clear", "rd", "wr", "pid", "other", "short", "rd", "wr", "restore", "rd", "wr", "clear", "clear", "wr"]
            if rounds:
                seq = [rng.choice(["rd", "wr", "clear", "short", "restore", "pid", "other"]) for _ in range(rng.randint(10, 24))]
            blob0 = dumpgen.prstatus_x86_64(1) if blobkey == "PRSTATUS" else bytes(bytearray(range(256)) * 21)[:5168]
            for op in seq:
                r = rng.choice(regs)
                if op == "rd":
                    L += ["M blobreg rd %s %s" % (state, blobkey), "get cpu.0.reg.%s" % r]
                elif op == "wr":
                    L += ["M blobreg wr %s %s" % (state, blobkey), "setnum cpu.0.reg.%s %d" % (r, rng.getrandbits(rng.choice([8, 32, 64])))]
                elif op == "pid" and blobkey == "PRSTATUS":
                    L += ["M blobreg rd %s %s" % (state, blobkey), "get cpu.0.pid"]
                elif op == "other" and other:
                    L += ["M blobreg rd set %s" % blobkey, "get " + other]          # the other CPU's blob is untouched
                elif op == "clear":
                    L.append("clear cpu.0.%s" % blobkey); state = "cleared"
                elif op == "short":
                    L.append("setblob cpu.0.%s %s" % (blobkey, blob0[:rng.choice([1, 8, 31])].hex())); state = "short"
                elif op == "restore":
                    L.append("setblob cpu.0.%s %s" % (blobkey, blob0.hex())); state = "set"
    # ---- Xen Dom0: XEN_ELFNOTE_CRASH_INFO points to the extra version string
    data = bytearray(b"x" * 8192)
    data[0x20:0x2b] = b"-verif-xen\0"
    data[0x1ff0:0x2000] = b"-ends-with-page\0"
    cases = [("readable", 0x1020, None), ("absent page", 0x7fb7fbff, None), ("absent page", 0x5000 + rng.randrange(4096), None),
             ("runs into an absent page", 0x1800 + rng.randrange(0x700), None), ("readable, ends with its page", 0x2ff0, None),
             ("page lost to a truncated file", 0x2000 + rng.randrange(0xf00), 0x2000), ("no crash note", None, None)]
    for ci, (what, extra, trunc) in enumerate(cases):
        nn = (dumpgen.elf_note(b"Xen", 0x1000001, xen_crash_info(extra)) if extra is not None else b"") + dumpgen.elf_note(b"VMCOREINFO", 0, vm)
        q = R.path("c16-dom0-%d.elf" % ci)
        dumpgen.write_elf(q, [dict(paddr=0x1000, filesz=8192, memsz=8192, voff=0xffff880000000000, data=bytes(data))], notes=nn)
        if trunc:
            os.truncate(q, trunc)
        ddesc[q] = ("x86_64 ELF, one PT_LOAD paddr=0x1000 filesz=memsz=8192 (bytes 'x', NUL-terminated strings at 0x1020 and 0x2ff0), "
                    "notes: %sVMCOREINFO; %s -- the string is %s" % (
                        "XEN_ELFNOTE_CRASH_INFO (type 0x1000001, name Xen) with xen_extra_version=%#x, " % extra if extra is not None else "",
                        "file truncated to %#x bytes" % trunc if trunc else "file complete", what))
        for ostype in ("linux", "xen"):
            L.append("open " + q)
            if extra is not None:
                L.append("rdstr 1 %d" % extra)
                L.append("M xenver 1")            # the model is given the outcome of the part (the rdstr just before)
            else:
                L.append("M xenver 0")
            L += ["setstr addrxlat.ostype " + ostype, "get xen.version.extra", "get addrxlat.ostype"]
        # the same call with the n-th allocation failing (monitor only)
        for n in range(1, 9 if quick else 16):
            L += ["open " + q, "failat %d" % n, "setstr addrxlat.ostype " + rng.choice(["linux", "xen"])]
    # ---- a dump whose utsname is found through init_uts_ns: setting the OS type fills linux.uts.*; every allocation of that fails in turn
    vmci = b"OSRELEASE=4.4.156-test\nPAGESIZE=4096\nSYMBOL(init_uts_ns)=ffffffff81e152e0\n"
    uts = b"\0" * 0x2e0 + struct.pack("<I", 6) + b"".join(x.ljust(65, b"\0") for x in
          (b"Linux", b"demo-node", b"4.4.156-test", b"#1 SMP Wed Oct 10 06:29:13 UTC 2018", b"x86_64", b"(none)"))
    pu = R.path("c16-uts-oom.elf")
    dumpgen.write_elf(pu, [dict(paddr=0x1e15000, filesz=4096, memsz=4096, voff=0xffffffff81e15000 - 0x1e15000, data=uts)],
                      notes=dumpgen.elf_note(b"VMCOREINFO", 0, vmci))
    ddesc[pu] = ("x86_64 ELF, one PT_LOAD paddr=0x1e15000 vaddr=0xffffffff81e15000 holding struct uts_namespace at +0x2e0 "
                 "(Linux / demo-node / 4.4.156-test / ... ), VMCOREINFO with SYMBOL(init_uts_ns)=ffffffff81e152e0")
    for n in (range(1, 13) if quick else range(1, 60)):
        L += ["open " + pu, "failat %d" % n, "setstr addrxlat.ostype linux", "get linux.uts.release"]
    # ---- opening the dumps with notes with the n-th allocation failing (monitor only)
    for path in (p1, p2):
        for n in (rng.sample(range(1, 120), 12) if quick else range(1, 160)):
            L += ["failat %d" % n, "open " + path, "get cpu.0.reg.rip"]
    from props import c16size; size_exp = c16size.add(R, rng, L, ddesc)       # file-controlled 64-bit sizes that reach an allocation
    rc, out, err = R.run_harness(exe, stdin_text="\n".join(L) + "\n")
    obs = kdf.obs(out)
    calls = [l for l in L if not (l.startswith("M ") or l.startswith("failat "))]
    fail = c16size.verdict(L, obs, size_exp, ddesc)
    for i, o in enumerate(obs):
        if " C16:" in o.split(" | ")[0] or "UNDOCUMENTED" in o.split(" | ")[0]:
            j = [k for k, l in enumerate(L) if not (l.startswith("M ") or l.startswith("failat "))][i]
            k0 = max(k for k in range(j + 1) if L[k].startswith("open "))
            path = L[k0][5:]
            fail = ("public call '%s' answered '%s' (dump: %s)" % (calls[i][:100], o[:200], ddesc.get(path, "?")[:300]),
                    dict(stream="flow", input="\n".join(L[k0:j + 1]).replace(os.path.dirname(path) + "/", ""), dump=ddesc.get(path),
                         dump_bytes_hex=open(path, "rb").read().hex() if os.path.getsize(path) <= 16384 else None))
            break
    if fail is None and (rc != 0 or len(obs) != len(calls)):
        k = min(len(obs), len(calls) - 1)
        fail = ("flow harness stopped (rc=%s) at '%s': %s" % (rc, calls[k][:100], err.strip()[-600:]), dict(stream="flow", input="\n".join(calls[max(0, k - 20):k + 1])))
    # ---- the model's side: the described calls, each with the observed outcome of its part where the model is compositional
    mlines, want = [], []
    ci = 0
    prev = None
    pending = None
    for l in L:
        if l.startswith("failat "):
            continue
        if l.startswith("M "):
            pending = l[2:]
            continue
        o = obs[ci] if ci < len(obs) else None
        ci += 1
        if pending and o is not None:
            if pending.startswith("xenver 1") and prev is not None:
                head, msg = prev.split(" | ", 1)
                mlines.append("xenver 1 %s %s" % (head.split()[1], msg.encode().hex() if msg != "-" else "-"))
            elif pending.startswith("xenver"):
                mlines.append("xenver 0 ok -")
            else:
                mlines.append(pending)
            want.append((l, o))
        pending = None
        prev = o
    return fail, L, want, mlines, dict(calls=len(calls), modelled=len(mlines), size_field_cases=len(size_exp))


def run(R):
    facts, changed = R.extract()
    proof = R.prove(["Kdf.Props.C16", "Kdf.Props.C16Hist"], THEOREMS) if THEOREMS else dict(obligations=0, discharged=0, broken=[], axioms={}, log="")
    seqs = gen_err(R)
    lines, meta = [], []
    for si, (bs, seq) in enumerate(seqs):
        lines.append("init %d" % bs); meta.append((si, "init", bs))
        for op in seq:
            if op[0] == "clear":
                lines.append("clear"); meta.append((si, "clear"))
            else:
                if R.rng.random() < 0.07:
                    # a format string that vsnprintf() rejects
                    lines.append("addbad %d" % op[2]); meta.append((si, "add", b"(bad format string)", op[2]))
                    continue
                m = msg_bytes(R.rng, op[1])
                lines.append(("add %s %d" % (m.hex(), op[2])).replace("  ", " ")); meta.append((si, "add", m, op[2]))
    text = "\n".join(lines) + "\n"
    lib, cflags = R.build_lib()
    # the two families above the buffer run beside the rest (own generators derived from R.rng, so the run stays replayable)
    import concurrent.futures, random
    pool = concurrent.futures.ThreadPoolExecutor(2)
    fam_os = pool.submit(os_family, R, random.Random(R.rng.getrandbits(64)))
    fam_fl = pool.submit(flow_family, R, random.Random(R.rng.getrandbits(64)))
    from props import c16hist
    fam_hi = c16hist.start(R, random.Random(R.rng.getrandbits(64)))       # histories on one context, own thread
    exe = R.build_harness("s_err", ["s_err.c"], lib=lib, cflags=cflags, ldflags=[kdf.ALLOC_WRAP])
    rc, out, err = R.run_harness(exe, stdin_text=text)
    impl = kdf.obs(out)
    model = kdf.obs(R.run_driver("err", text))
    fail = None
    if rc != 0 or len(impl) != len(lines):
        k = min(len(impl), len(lines) - 1)
        fail = (k, "harness stopped after %d of %d operations (rc=%s) at '%s': %s" % (len(impl), len(lines), rc, lines[k][:80], (err.strip().split("\n") or [""])[0][:300]))
    # the property's executable statement on the implementation's strings
    kinds = {}
    old, bs, pos = b"", 64, "null"
    for i, (m, o) in enumerate(zip(meta, impl)):
        if fail and i >= fail[0]:
            break
        t = o.split()
        cur = bytes.fromhex(t[0][:-1])
        where = t[1]
        if m[1] == "init":
            bs, old, pos = m[2], b"", "null"
            ok = cur == b""
            want = "empty"
        elif m[1] == "clear":
            old, pos = b"", "null"
            ok = cur == b""; want = "empty after clear"
        else:
            msg, alloc = m[2], m[3]
            remain = bs - 1 if not old else int(pos.split(":")[1])
            need = len(msg) + (2 if old else 0)
            full = msg + (b": " + old if old else b"")
            if remain >= need or alloc:
                ok = cur == full; want = "the chain %r" % full[:80]
                kinds["fits" if remain >= need else "grown"] = kinds.get("fits" if remain >= need else "grown", 0) + 1
            else:
                # degraded: marked truncation that preserves the oldest text
                keep = old if remain else old[1:]
                dpart = min(max(remain - 1, 0), 2) if old else 0          # how much of ": " still fits
                tail = b": "[2 - dpart:] + keep if old else keep
                ok = cur.startswith(b"<") and cur.endswith(tail) and len(cur) <= max(bs - 1, len(old) + 1)
                # the kept part of the new message is its tail
                if ok and remain:
                    body = cur[1:len(cur) - len(tail)]
                    vis = msg if len(msg) < bs else msg[:bs - 2] + b">"
                    ok = vis.endswith(body) if len(body) <= len(vis) else False
                want = "'<' + tail of the new message + ': ' + the old text %r intact" % old[:60]
                kinds["truncated"] = kinds.get("truncated", 0) + 1
            old = cur
        pos = where
        if not ok and fail is None:
            fail = (i, "error string after '%s' (inline buffer %d bytes, previous string %r) is %r; expected %s" % (lines[i][:60], bs, old[:60] if m[1] != "add" else None, cur[:120], want))
            break
    # ---- API-level monitors: documented status, message iff failure, no stale message after success
    api_lines, api_fail, api_n = api_scenarios(R)
    if api_fail and not fail:
        R.violation(api_fail[0], dict(stream="fmt", input=api_fail[1], broken_theorems=proof["broken"]))
    # ---- the message discipline above the buffer: OS set-up of libaddrxlat, register / Xen attributes of libkdumpfile
    os_fail, os_stats, os_m, os_want = fam_os.result()
    fl_fail, fl_lines, fl_want, fl_m, fl_stats = fam_fl.result()
    pool.shutdown()
    os_stats.pop("verdicts", None)
    # ---- histories on one context: re-set-up after tolerated failures, alternatives of a chain link (tools/props/c16hist.py)
    hist_stats, hist_fail = {}, None
    for hname, hf, hs in fam_hi.result():
        hist_stats[hname] = hs
        if hf and not (fail or api_fail or os_fail or fl_fail or hist_fail):
            hist_fail = hf
            rp = dict(hf[1]); fi = rp.pop("found_input", True); rp["broken_theorems"] = proof["broken"]
            R.violation(hf[0], rp, found_input=fi)
    for f in (os_fail, fl_fail):
        if f and not fail and not api_fail:
            rp = dict(f[1]); rp["broken_theorems"] = proof["broken"]
            R.violation(f[0], rp)
    vm_m, vm_want = getattr(api_scenarios, "model", ([], []))
    if api_fail:
        vm_m, vm_want = [], []
    flow_model = kdf.obs(R.run_driver("flow", "\n".join(os_m + fl_m + vm_m) + "\n")) if (os_m or fl_m or vm_m) else []
    flow_impl = [o for w, o in os_want] + [o.split(None, 1)[1].replace(" C16:empty-message", "").replace(" C16:stale-message", "") for w, o in fl_want] + \
        [o for w, o in vm_want]
    flow_mism = kdf.diff_streams(flow_impl, flow_model)
    if flow_mism is not None and not (fail or api_fail or os_fail or fl_fail):
        what = (os_want + [(l, o) for l, o in fl_want] + vm_want)[flow_mism][0] if flow_mism < len(flow_impl) else "(stream length)"
        R.violation("error-message discipline: implementation and model disagree on '%s': implementation '%s', model '%s'" % (
                        what[:160], flow_impl[flow_mism][:200] if flow_mism < len(flow_impl) else None,
                        flow_model[flow_mism][:200] if flow_mism < len(flow_model) else None),
                    dict(stream="flow", model_line=(os_m + fl_m + vm_m)[flow_mism] if flow_mism < len(os_m + fl_m + vm_m) else None, call=what,
                         impl=flow_impl[flow_mism] if flow_mism < len(flow_impl) else None,
                         model=flow_model[flow_mism] if flow_mism < len(flow_model) else None, broken_theorems=proof["broken"]),
                    found_input=False)
    mism = kdf.diff_streams(impl, model)
    def ctx(i):
        j = i
        while j > 0 and not lines[j].startswith("init"):
            j -= 1
        return "\n".join(lines[j:i + 1]) + "\n"
    if fail:
        R.violation(fail[1], dict(stream="err", input=ctx(min(fail[0], len(lines) - 1)), stderr=err[-1500:], broken_theorems=proof["broken"]))
    elif proof["broken"] or mism is not None:
        R.violation("proof obligation or correspondence broken: theorems %s; first differing line %s" % (proof["broken"], mism),
                    dict(stream="err", broken_theorems=proof["broken"], lean_log=proof["log"][-1500:],
                         first_diff=None if mism is None else dict(index=mism, input=ctx(mism), impl=impl[mism][:300] if mism < len(impl) else None,
                                                                   model=model[mism][:300] if mism < len(model) else None)),
                    found_input=False)
    cov = dict(obligations=max(proof["obligations"], 1), discharged=proof["discharged"],
               checker_cmd="cd lean && lake build Kdf.Props.C16 && #print axioms on each theorem",
               trusted_base=["Lean 4 kernel", "vsnprintf formats the given string; realloc preserves content", "harness/s_err.c (errmsg.h is header-only), gcc + ASan/UBSan"],
               broken_theorems=proof["broken"], theorems=THEOREMS,
               evaluations=len(lines), distinct_nontrivial=len({(m[1], len(m[2]) if m[1] == "add" else 0, m[3] if m[1] == "add" else 0, s) for m in meta for s in [seqs[m[0]][0]]}),
               rule="err_add sequences at the three real inline sizes: every message length 0..2*bufsz+3 as first message and a grid of second messages, "
                    "each with realloc succeeding and failing; random chains of up to 12 prepends/clears; non-trivial = distinct (bufsz, op, length, alloc outcome)",
               traces_validated_against_impl=len(impl) + len(flow_impl), api_monitor_observations=api_n, correspondence_first_diff=mism, case_kinds=kinds,
               os_setup_family=os_stats, flow_family=fl_stats, history_family=hist_stats, flow_correspondence_first_diff=flow_mism,
               flow_rule="addrxlat_sys_os_init + 3 conversions on generated images of x86_64 (Linux, Xen), ia32, riscv64, aarch64, arm, with get_page "
                         "failing with each of nodata/notpresent/nomem/invalid/notimpl/custom(CORRUPT)/custom(EOF) at the pages the set-up reads and every "
                         "symbol look-up refused in turn; root page table at a kernel virtual address the read callback advertises (direct_read_ok) on arm "
                         "(option / swapper_pg_dir x _stext x phys_base x caps), aarch64, riscv64; register reads/writes with the PRSTATUS / XEN_PRSTATUS "
                         "blob present, cleared, too short, restored; Xen crash note pointing to a readable / absent / truncated string, incl. n-th allocation failing",
               samples=[dict(input=ctx(i)) for i in (1, len(lines) // 2)])
    return "proof", cov, ["the formatted message contains no NUL", "status/message monitors of the other streams are attributed to C16 there",
                          "message discipline (Kdf.Model.ErrFlow): modelled and tied by stream `flow` for map_linux_arm, get_linux_pgtroot + map_linux_aarch64/"
                          "riscv64, direct_read_ok, update_xen_extra_ver, get_attr_blob/derived attribute access; outcomes of callbacks, page reads and "
                          "allocations are parameters (status + the message they leave), assumed to obey the property themselves (Part.wf)",
                          "monitor-only (implementation-only, no model twin): x86_64/ia32/ppc64/s390x OS set-up, conversions after the set-up, the "
                          "one-story rule on numbered callback failures (harness/s_os.c C16 mode), allocation-failure runs of the flow family, "
                          "the API scenarios of harness/s_fmt.c and s_hist.c (incl. the pages whose compressed data does not decompress: LKCD "
                          "run-length / gzip, diskdump zlib; expectation from the independent run-length decoder of tools/props/c03.py)"] + c16hist.ASSUMPTIONS
