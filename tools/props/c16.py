"""C16 — failures carry a documented status and a message that tells the story."""
import kdf, dumpgen

THEOREMS = ["Kdf.Props.C16." + t for t in ("init_inv", "clear_inv", "vadd_chain", "vadd_fits_no_alloc", "vadd_trunc", "vadd_inbounds", "history_inv", "history_chain", "codes_documented", "status_roundtrip", "addrxlat2kdump_documented", "probe_never_noprobe")]
BUFSZ = [64, 80, 160]          # ERRBUF of addrxlat ctx, bitmap objects, kdump ctx


def gen_err(R):
    rng = R.rng
    seqs = []
    for bs in BUFSZ:
        # every message length relative to the inline buffer, as first and as second message
        for n in list(range(0, 2 * bs + 4)):
            seqs.append((bs, [("add", n, 1)]))
            seqs.append((bs, [("add", n, 0)]))
        for n in range(0, bs + 4, 3):
            for m in (0, 1, 5, bs - n - 3 if bs - n - 3 > 0 else 2, bs - n - 2 if bs - n - 2 > 0 else 2, bs - n, bs):
                for ok in (1, 0):
                    seqs.append((bs, [("add", n, 1), ("add", m, ok)]))
    nr = 400 if R.tier == "quick" else 10000
    for _ in range(nr):
        bs = rng.choice(BUFSZ)
        seq = []
        for _ in range(rng.randint(2, 12)):
            k = rng.random()
            if k < 0.08:
                seq.append(("clear",))
            else:
                n = rng.choice([0, 1, 2, 7, 20, bs // 2, bs - 3, bs - 2, bs - 1, bs, bs + 1, rng.randint(0, 2 * bs)])
                seq.append(("add", n, 1 if rng.random() < 0.7 else 0))
        seqs.append((bs, seq))
    return seqs


def msg_bytes(rng, n):
    return bytes(rng.choice(b"abcdefghijklmnopqrstuvwxyzABCDEFGHIJKLMNOPQRSTUVWXYZ0123456789_/.-") for _ in range(n))


def api_scenarios(R):
    """Failing and succeeding public calls on good, truncated and corrupted dumps; every observation line of
    harness/s_fmt.c carries the monitor verdict (` C16:undocumented-status`, ` C16:empty-message`, ` C16:stale-message`)."""
    import os
    rng = R.rng
    paths = []
    p = R.path("c16-a.dump"); dumpgen.write_diskdump(p, [0, 1, 2, 5, 6], max_mapnr=16, ram=range(10), methods={1: "zlib", 2: "lzo", 5: "zstd"}); paths.append(p)
    p = R.path("c16-b.elf"); dumpgen.write_elf(p, [dict(pfn=1, npages=2, voff=0xffff880000000000), dict(pfn=6, npages=3, filepages=1, voff=0xffff880000000000)]); paths.append(p)
    good = [open(x, "rb").read() for x in paths]
    # truncations (corrupted fields are the hostile-input stream of C03, not this one)
    variants = []
    for gi, g in enumerate(good):
        for cut in (0, 7, 64, 300):
            q = R.path("c16-t%d-%d" % (gi, cut)); open(q, "wb").write(g[:cut]); variants.append(q)
    lines = []
    for q in paths + variants:
        lines.append("open 1 %s" % q)
        for a in ("file.format", "arch.name", "no.such.key", "linux.uts.release", "max_pfn", "cache.size"):
            lines.append("attr %s" % a)
        lines += ["setnum cache.size 4", "setnum arch.name 3", "setnum no.such.key 1"]
        for as_ in (0, 1, 2):
            for addr in (0, 0x1000, 0x2000, 0x3000, 0x5000, 0x7000, 0xffff880000001000, (1 << 64) - 4096):
                lines.append("probe %d %d 4096" % (as_, addr))
        lines += (["bits file 0 40", "fset mem 3", "fclr file 0"] if q in paths else []) + ["read 1 4090 20", "attr file.format"]
    # a successful call that resolves symbols through a fallback: OS type set on an ELF dump whose VMCOREINFO
    # has init_uts_ns but no system_utsname (the failed first lookup must leave no stale message behind)
    import struct
    vmci = b"OSRELEASE=4.4.156-test\nPAGESIZE=4096\nSYMBOL(init_uts_ns)=ffffffff81e152e0\n"
    note = struct.pack("<III", 11, len(vmci), 0) + b"VMCOREINFO\0\0" + vmci + b"\0" * (-len(vmci) % 4)
    uts = b"\0" * 0x2e0 + struct.pack("<I", 6) + b"".join(x.ljust(65, b"\0") for x in
          (b"Linux", b"demo-node", b"4.4.156-test", b"#1 SMP Wed Oct 10 06:29:13 UTC 2018", b"x86_64", b"(none)"))
    p = R.path("c16-uts.elf")
    dumpgen.write_elf(p, [dict(paddr=0x1e15000, filesz=4096, memsz=4096, voff=0xffffffff81e15000 - 0x1e15000, data=uts)], notes=note)
    lines += ["open 1 %s" % p, "setstr addrxlat.ostype linux", "attr linux.uts.nodename", "attr linux.uts.release"]
    # the same fallback when the memory at init_uts_ns does not hold a utsname: a failure that must carry its message
    p2 = R.path("c16-uts-bad.elf")
    bad = b"\0" * 0x2e0 + struct.pack("<I", 6) + b"".join(x.ljust(65, b"\0") for x in (b"Minix", b"n", b"r", b"v", b"m", b"d"))
    dumpgen.write_elf(p2, [dict(paddr=0x1e15000, filesz=4096, memsz=4096, voff=0xffffffff81e15000 - 0x1e15000, data=bad)], notes=note)
    lines += ["open 1 %s" % p2, "setstr addrxlat.ostype linux", "attr linux.uts.nodename"]
    # a file name that was set and removed again must not be used by the message of a later failing open
    lines += ["open 1 %s" % paths[0], "setfn /var/crash/2026-09-30/an-earlier-dump-file-name-long-enough-to-live-on-the-heap.dump", "setfn -",
              "reopen %s" % variants[2], "attr file.format", "setfn /x/second-name-of-this-context.dump", "reopen %s" % variants[3], "setfn -",
              "reopen %s" % variants[1], "reopen %s" % paths[0], "attr file.format"]
    exe = R.build_harness("s_fmt", ["s_fmt.c"])
    rc, out, err = R.run_harness(exe, stdin_text="\n".join(lines) + "\n")
    obs = kdf.obs(out)
    # a failure that crosses from libkdumpfile into libaddrxlat and back: KVADDR read through page tables whose
    # root page is flagged zlib-compressed but does not inflate (every message of the chain exactly once)
    if rc == 0:
        mapping = {0x100 + i: i for i in range(4)}
        root, tables = dumpgen.x86_64_pgt_pages(mapping, [8, 9, 10, 11])
        q = R.path("c16-pgt.dump")
        dumpgen.write_diskdump_custom(q, list(range(4)) + sorted(tables), tables, max_mapnr=16, methods={root: "zlib-bad"})
        l2 = ["open 1 %s" % q, "pgt %d" % (root * 4096), "read 2 %d 4096" % (0x100 * 4096), "read 1 0 4096", "read 2 %d 64" % (0x101 * 4096 + 5)]
        exe2 = R.build_harness("s_hist", ["s_hist.c"])
        rc2, out2, err2 = R.run_harness(exe2, stdin_text="\n".join(l2) + "\n")
        lines += l2; obs += kdf.obs(out2); rc = rc or rc2; err += err2
    fail = None
    for i, o in enumerate(obs):
        if " C16:" in o or "UNDOCUMENTED" in o:
            # find the command that produced observation i
            fail = ("public call answered '%s'" % o[:200], "\n".join(lines[max(0, i - 3):i + 1]))
            break
    if fail is None and rc != 0:
        k = min(len(obs), len(lines) - 1)
        errl = [l for l in err.strip().split("\n") if "WARNING: AddressSanitizer failed to allocate" not in l]
        fail = ("API scenario harness stopped (rc=%s) near '%s': %s" % (rc, lines[k][:120], " | ".join(errl[:6])[:700]),
                "\n".join(lines[max(0, k - 40):k + 1]))
    return lines, fail, len(obs)


def run(R):
    facts, changed = R.extract()
    proof = R.prove(["Kdf.Props.C16"], THEOREMS) if THEOREMS else dict(obligations=0, discharged=0, broken=[], axioms={}, log="")
    seqs = gen_err(R)
    lines, meta = [], []
    for si, (bs, seq) in enumerate(seqs):
        lines.append("init %d" % bs); meta.append((si, "init", bs))
        for op in seq:
            if op[0] == "clear":
                lines.append("clear"); meta.append((si, "clear"))
            else:
                if R.rng.random() < 0.07:
                    # a format string that vsnprintf() rejects
                    lines.append("addbad %d" % op[2]); meta.append((si, "add", b"(bad format string)", op[2]))
                    continue
                m = msg_bytes(R.rng, op[1])
                lines.append(("add %s %d" % (m.hex(), op[2])).replace("  ", " ")); meta.append((si, "add", m, op[2]))
    text = "\n".join(lines) + "\n"
    lib, cflags = R.build_lib()
    exe = R.build_harness("s_err", ["s_err.c"], lib=lib, cflags=cflags, ldflags=[kdf.ALLOC_WRAP])
    rc, out, err = R.run_harness(exe, stdin_text=text)
    impl = kdf.obs(out)
    model = kdf.obs(R.run_driver("err", text))
    fail = None
    if rc != 0 or len(impl) != len(lines):
        k = min(len(impl), len(lines) - 1)
        fail = (k, "harness stopped after %d of %d operations (rc=%s) at '%s': %s" % (len(impl), len(lines), rc, lines[k][:80], (err.strip().split("\n") or [""])[0][:300]))
    # the property's executable statement on the implementation's strings
    kinds = {}
    old, bs, pos = b"", 64, "null"
    for i, (m, o) in enumerate(zip(meta, impl)):
        if fail and i >= fail[0]:
            break
        t = o.split()
        cur = bytes.fromhex(t[0][:-1])
        where = t[1]
        if m[1] == "init":
            bs, old, pos = m[2], b"", "null"
            ok = cur == b""
            want = "empty"
        elif m[1] == "clear":
            old, pos = b"", "null"
            ok = cur == b""; want = "empty after clear"
        else:
            msg, alloc = m[2], m[3]
            remain = bs - 1 if not old else int(pos.split(":")[1])
            need = len(msg) + (2 if old else 0)
            full = msg + (b": " + old if old else b"")
            if remain >= need or alloc:
                ok = cur == full; want = "the chain %r" % full[:80]
                kinds["fits" if remain >= need else "grown"] = kinds.get("fits" if remain >= need else "grown", 0) + 1
            else:
                # degraded: marked truncation that preserves the oldest text
                keep = old if remain else old[1:]
                dpart = min(max(remain - 1, 0), 2) if old else 0          # how much of ": " still fits
                tail = b": "[2 - dpart:] + keep if old else keep
                ok = cur.startswith(b"<") and cur.endswith(tail) and len(cur) <= max(bs - 1, len(old) + 1)
                # the kept part of the new message is its tail
                if ok and remain:
                    body = cur[1:len(cur) - len(tail)]
                    vis = msg if len(msg) < bs else msg[:bs - 2] + b">"
                    ok = vis.endswith(body) if len(body) <= len(vis) else False
                want = "'<' + tail of the new message + ': ' + the old text %r intact" % old[:60]
                kinds["truncated"] = kinds.get("truncated", 0) + 1
            old = cur
        pos = where
        if not ok and fail is None:
            fail = (i, "error string after '%s' (inline buffer %d bytes, previous string %r) is %r; expected %s" % (lines[i][:60], bs, old[:60] if m[1] != "add" else None, cur[:120], want))
            break
    # ---- API-level monitors: documented status, message iff failure, no stale message after success
    api_lines, api_fail, api_n = api_scenarios(R)
    if api_fail and not fail:
        R.violation(api_fail[0], dict(stream="fmt", input=api_fail[1], broken_theorems=proof["broken"]))
    mism = kdf.diff_streams(impl, model)
    def ctx(i):
        j = i
        while j > 0 and not lines[j].startswith("init"):
            j -= 1
        return "\n".join(lines[j:i + 1]) + "\n"
    if fail:
        R.violation(fail[1], dict(stream="err", input=ctx(min(fail[0], len(lines) - 1)), stderr=err[-1500:], broken_theorems=proof["broken"]))
    elif proof["broken"] or mism is not None:
        R.violation("proof obligation or correspondence broken: theorems %s; first differing line %s" % (proof["broken"], mism),
                    dict(stream="err", broken_theorems=proof["broken"], lean_log=proof["log"][-1500:],
                         first_diff=None if mism is None else dict(index=mism, input=ctx(mism), impl=impl[mism][:300] if mism < len(impl) else None,
                                                                   model=model[mism][:300] if mism < len(model) else None)),
                    found_input=False)
    cov = dict(obligations=max(proof["obligations"], 1), discharged=proof["discharged"],
               checker_cmd="cd lean && lake build Kdf.Props.C16 && #print axioms on each theorem",
               trusted_base=["Lean 4 kernel", "vsnprintf formats the given string; realloc preserves content", "harness/s_err.c (errmsg.h is header-only), gcc + ASan/UBSan"],
               broken_theorems=proof["broken"], theorems=THEOREMS,
               evaluations=len(lines), distinct_nontrivial=len({(m[1], len(m[2]) if m[1] == "add" else 0, m[3] if m[1] == "add" else 0, s) for m in meta for s in [seqs[m[0]][0]]}),
               rule="err_add sequences at the three real inline sizes: every message length 0..2*bufsz+3 as first message and a grid of second messages, "
                    "each with realloc succeeding and failing; random chains of up to 12 prepends/clears; non-trivial = distinct (bufsz, op, length, alloc outcome)",
               traces_validated_against_impl=len(impl), api_monitor_observations=api_n, correspondence_first_diff=mism, case_kinds=kinds,
               samples=[dict(input=ctx(i)) for i in (1, len(lines) // 2)])
    return "proof", cov, ["the formatted message contains no NUL", "status/message monitors of the other streams are attributed to C16 there"]
