"""C07 — page maps agree with what can be read, and with themselves."""
import kdf, dumpgen

THEOREMS = ["Kdf.Props.C07." + t for t in ("skip_clear_spec", "skip_set_spec", "regions_spec", "regions_pos", "find_region_spec", "find_mapped_spec", "find_unmapped_spec", "set_bits_spec", "clear_bits_spec", "get_bits_spec", "queries_consistent", "elf_get_bits_spec", "elf_find_set_spec")]
PS = 4096


def runs_to_set(runs):
    s = set()
    for a, n in runs:
        s |= set(range(a, a + n))
    return s


def rand_runs(rng, top):
    runs, p = [], rng.randint(0, 9)
    while p < top:
        n = rng.choice([1, 1, 2, 3, 5, 8, 13, rng.randint(1, 20)])
        runs.append((p, min(n, top - p)))
        p += n + rng.choice([1, 1, 2, 7, 8, 9, rng.randint(1, 24)])
    return runs


class DD:
    """diskdump, optionally split over several files (passed in random order)"""
    kind = "diskdump"
    def __init__(self, R, idx):
        rng = R.rng
        self.top = rng.choice([24, 40, 64, 70, 130])
        self.file = runs_to_set(rand_runs(rng, self.top))
        self.mem = self.file | runs_to_set(rand_runs(rng, self.top))
        self.max_mapnr = self.top
        if idx % 6 == 4:
            # max_mapnr at the capacity boundary of the two-block bitmap (partial-dump test)
            self.max_mapnr = [PS * 8, PS * 8 + 1, PS * 8 - 1][(idx // 6) % 3]       # the exact boundary comes first (every quick run has it)
            hi = runs_to_set([(self.max_mapnr - 9, 4), (self.max_mapnr - 3, 3)])
            self.file |= hi; self.mem |= hi | {self.max_mapnr - 5}
        nsplit = rng.choice([1, 1, 2, 3])
        cuts = sorted(rng.sample(range(1, self.top), nsplit - 1)) if nsplit > 1 else []
        self.windows = list(zip([0] + cuts, cuts + [max(self.top, self.max_mapnr)]))
        self.paths = []
        for k, (a, b) in enumerate(self.windows):
            p = R.path("c07-%d-%d.dump" % (idx, k))
            info = dumpgen.write_diskdump(p, self.file, ps=PS, max_mapnr=self.max_mapnr, ram=self.mem,
                                          split=(a, b) if nsplit > 1 else None)
            self.paths.append(p)
            self.pdoff = info["pdoff"]
        self.order = list(range(len(self.paths)))
        rng.shuffle(self.order)
    def open_line(self):
        return "open %d %s" % (len(self.paths), " ".join(self.paths[i] for i in self.order))
    def layout_lines(self):
        nbytes = (self.max_mapnr + 7) // 8
        b1, b2 = bytearray(nbytes), bytearray(nbytes)
        for p in self.mem:
            b1[p >> 3] |= 1 << (p & 7)
        for p in self.file:
            b2[p >> 3] |= 1 << (p & 7)
        out = ["dd", "msb0 0"]
        for (a, b) in self.windows:
            out.append("ddfile %d %d %d %s %d" % (a, b if len(self.windows) > 1 else (1 << 64) - 1, self.max_mapnr, bytes(b2).hex(), self.pdoff))
        out.append("ddmem %d %s" % (self.max_mapnr, bytes(b1).hex()))
        return out
    def kv_pages(self):
        return []


class SA:
    """SADUMP: single partition, disk set (files in random order) or media; MSB0 bitmaps"""
    kind = "sadump"
    def __init__(self, R, idx):
        rng = R.rng
        self.top = rng.choice([24, 50, 100])
        self.file = runs_to_set(rand_runs(rng, self.top))
        self.mem = self.file | runs_to_set(rand_runs(rng, self.top))
        self.max_mapnr = self.top + rng.choice([0, 0, 5])
        self.top = self.max_mapnr
        sakind = rng.choice(["single", "diskset", "media", "diskset"])
        pages = sorted(self.file)
        nd = max(1, min(rng.choice([2, 3]), len(pages))) if sakind == "diskset" else 1
        cuts = sorted(rng.sample(range(0, len(pages)), nd - 1)) if nd > 1 else []
        cuts = [b - a for a, b in zip([0] + cuts, cuts + [len(pages)])]
        self.paths = [R.path("c07-%d-%d.sadump" % (idx, k)) for k in range(nd)]
        dumpgen.write_sadump(self.paths, {p: dumpgen.page_bytes(p, PS) for p in pages}, ram=sorted(self.mem),
                             max_mapnr=self.max_mapnr, kind=sakind, ndisks=nd, cuts=cuts,
                             header_version=rng.choice([0, 1]), long_mode=rng.random() < 0.7)
        self.windows = sakind
        self.order = list(range(nd))
        rng.shuffle(self.order)
    def open_line(self):
        return "open %d %s" % (len(self.paths), " ".join(self.paths[i] for i in self.order))
    def layout_lines(self):
        nbytes = (self.max_mapnr + 7) // 8
        b1, b2 = bytearray(nbytes), bytearray(nbytes)
        for p in self.mem:
            b1[p >> 3] |= 0x80 >> (p & 7)
        for p in self.file:
            b2[p >> 3] |= 0x80 >> (p & 7)
        return ["dd", "msb0 1", "ddfile 0 %d %d %s 0" % ((1 << 64) - 1, self.max_mapnr, bytes(b2).hex()),
                "ddmem %d %s" % (self.max_mapnr, bytes(b1).hex())]
    def kv_pages(self):
        return []


class ELF:
    kind = "elf"
    def __init__(self, R, idx):
        rng = R.rng
        self.top = rng.choice([16, 30, 48])
        self.segs = []
        p = rng.randint(0, 4)
        while p < self.top:
            n = rng.randint(1, 6) if not (idx % 4 == 1 and idx > 1) else rng.randint(2, 8)
            filepages = n if rng.random() < 0.7 else rng.randint(0, n)
            self.segs.append(dict(pfn=p, npages=n, filepages=filepages, voff=0xffff880000000000))
            p += n + rng.choice([1, 1, 2, 3, 9])
        self.file = set(); self.mem = set()
        self.variant = "disjoint"
        if idx % 4 == 1 and idx > 1:
            # the usual /proc/vmcore shape: the same RAM described twice, by the direct mapping (outer segment, here only
            # partially file-backed) and by the kernel text mapping (inner segment): the segments overlap in physical
            # address space but are ascending and disjoint in virtual address space
            self.variant = "phys-overlap"
            inner = []
            big = [s for s in self.segs if s["npages"] >= 2]
            for s in big:
                if rng.random() < 0.75 or s is big[0]:
                    st = s["pfn"] + rng.randint(1, s["npages"] - 1)
                    # mostly: the outer segment stores no frame of the inner one, and reaches beyond its end
                    s["filepages"] = rng.randint(0, st - s["pfn"]) if rng.random() < 0.7 else rng.randint(0, s["npages"] - 1)
                    room = s["pfn"] + s["npages"] - st
                    n = rng.randint(1, max(1, room - 1)) if rng.random() < 0.7 else rng.randint(1, room + 1)
                    inner.append(dict(pfn=st, npages=n, filepages=rng.choice([n, n, n, rng.randint(0, n)]), voff=0xffffffff80000000))
            self.segs += inner
            if rng.random() < 0.75:
                # every segment has its own mapping, virtual addresses ascending in the order of the physical ones
                for k, sg in enumerate(sorted(self.segs, key=lambda t: (t["pfn"], -t["npages"]))):
                    sg["voff"] = 0xffff880000000000 + (k << 36)
        if idx % 4 == 3:
            # byte-granular segments: start and end inside pages, filesz < memsz
            bs = []
            for s in self.segs:
                pa = s["pfn"] * PS + rng.choice([0, 0, 0x800, 0x10, PS - 1])
                memsz = max(1, s["npages"] * PS - rng.choice([0, 0, 0x800, 1, PS - 1]))
                filesz = rng.choice([memsz, memsz, max(0, memsz - 0x800), memsz // 2, 0])
                bs.append(dict(paddr=pa, filesz=filesz, memsz=memsz, voff=s["voff"]))
            # keep segments disjoint
            bs.sort(key=lambda b: b["paddr"])
            self.segs = [b for i, b in enumerate(bs) if i == 0 or bs[i - 1]["paddr"] + bs[i - 1]["memsz"] <= b["paddr"]]
        for s in self.segs:
            if "paddr" in s:
                if s["memsz"]:
                    self.mem |= set(range(s["paddr"] // PS, (s["paddr"] + s["memsz"] - 1) // PS + 1))
                if s["filesz"]:
                    self.file |= set(range(s["paddr"] // PS, (s["paddr"] + s["filesz"] - 1) // PS + 1))
            else:
                self.mem |= set(range(s["pfn"], s["pfn"] + s["npages"]))
                self.file |= set(range(s["pfn"], s["pfn"] + s["filepages"]))
        order = list(self.segs)
        rng.shuffle(order)                      # program headers in any order
        self.paths = [R.path("c07-%d.elf" % idx)]
        dumpgen.write_elf(self.paths[0], order, ps=PS)
        self.order = [0]
    def open_line(self):
        return "open 1 " + self.paths[0]
    def layout_lines(self):
        return ["elf 12"] + [("seg %d %d %d" % (s["paddr"], s["filesz"], s["memsz"])) if "paddr" in s else
                             ("seg %d %d %d" % (s["pfn"] * PS, s["filepages"] * PS, s["npages"] * PS)) for s in self.segs]
    def kv_pages(self):
        return [((s["paddr"] // PS * PS if "paddr" in s else s["pfn"] * PS) + s["voff"]) % (1 << 64) for s in self.segs
                if s.get("filepages", s.get("filesz"))]


def bit(bm, i, msb):
    if i // 8 >= len(bm):
        return None
    b = bm[i // 8]
    return (b >> (7 - i % 8)) & 1 if msb else (b >> (i % 8)) & 1


def internal_stream(R):
    """bit scans and region builder of pfn.c called directly: (lines, expected answers from the bit set)"""
    rng = R.rng
    lines, want = [], []
    n = 400 if R.tier == "quick" else 8000
    for _ in range(n):
        nb = rng.choice([1, 2, 3, 4, 5, 7, 8, 9, 12, 13, 17])
        k = rng.random()
        bm = bytes(rng.choice([0, 0xff, 0xff, 0x80, 0x01, 0x7f, 0xfe, rng.getrandbits(8)]) if k < 0.7 else rng.getrandbits(8) for _ in range(nb))
        for fn in ("cl", "cm", "sl", "sm"):
            msb = fn[1] == "m"
            for pfn in sorted({rng.randrange(nb * 8) for _ in range(4)} | {0, nb * 8 - 1, nb * 8, nb * 8 + 3}):
                al = rng.randrange(4)
                lines.append("scan %s %d %s %d" % (fn, al, bm.hex(), pfn))
                if pfn // 8 >= nb:
                    want.append("scan %d" % pfn)
                else:
                    target = 1 if fn[0] == "c" else 0
                    i = pfn
                    while i < nb * 8 and bit(bm, i, msb) != target:
                        i += 1
                    want.append("scan %d" % i)
        for msb in (0, 1):
            st = rng.randrange(nb * 8)
            en = rng.randint(st, nb * 8)
            off, esz = rng.randrange(1 << 20), rng.choice([0, 24, 4096])
            lines.append("regions %d %d %d %d %d %s" % (msb, st, en, off, esz, bm.hex()))
            runs, i, pos = [], st, off
            while i < en:
                if bit(bm, i, msb):
                    j = i
                    while j < en and bit(bm, j, msb):
                        j += 1
                    runs.append("%d:%d:%d" % (i, j - i, pos))
                    pos += (j - i) * esz
                    i = j
                else:
                    i += 1
            want.append(("regions " + " ".join(runs)).rstrip())
    ml, mw = maps_stream(R)
    return lines + ml, want + mw


def maps_stream(R, n=None):
    """split-file maps whose window ends lie far apart (more than 2^31, 2^32, 2^63), passed in any order: the sort, the
    two searches and the bulk retrieval of pfn.c called directly"""
    rng = R.rng
    lines, want = [], []
    for _ in range(n or (150 if R.tier == "quick" else 4000)):
        k = rng.randint(1, 5)
        pool = [rng.randint(1, 200), (1 << 31) + rng.randint(-3, 40), (1 << 32) + rng.randint(-3, 40), (1 << 33) + rng.randint(0, 9),
                0x80000020, (1 << 63) + rng.randint(-2, 2), (1 << 64) - 1, rng.getrandbits(rng.randint(8, 64)) | 1, rng.randint(200, 5000)]
        cuts = sorted(set(rng.sample(pool, min(k, len(pool)))))
        wins, lo = [], rng.choice([0, 0, rng.randint(0, 40)])
        for c in cuts:
            if c > lo:
                wins.append((lo, c)); lo = c
        regs = []
        for (a, b) in wins:
            cnt = min(b - a, rng.choice([1, 1, 2, 7, 8, 9, 20, 0, 0]))      # 0: a file that stores no page of its window
            rp = rng.choice([a, b - cnt, min(b - cnt, a + rng.randint(0, 30)), max(a, b - cnt - rng.randint(0, 30))])
            regs.append((a, b, rp, cnt))
        iv = sorted((rp, rp + cnt) for (_, _, rp, cnt) in regs if cnt)
        pts = [x for (u, v) in iv for x in (u - 1, u, v - 1, v, v + 1)] + [0, (1 << 64) - 1]
        q = max(0, min(rng.choice(pts), (1 << 64) - 1))
        first = max(0, min(rng.choice(pts) - rng.choice([0, 1, 7, 8, 9]), (1 << 64) - 2))
        last = min(first + rng.choice([0, 1, 7, 8, 15, 16, 40, 63]), (1 << 64) - 1)
        order = list(regs)
        rng.shuffle(order)
        lines.append("maps %d %d %d %s" % (q, first, last, " ".join("%d:%d:%d:%d" % r for r in order)))
        inS = lambda x: any(u <= x < v for (u, v) in iv)
        ge = [max(u, q) for (u, v) in iv if v > q]
        c = q
        while inS(c):
            c = next(v for (u, v) in iv if u <= c < v)
        S = {x for x in range(first, last + 1) if inS(x)}
        want.append(" ".join(["maps"] + [str(b) for (_, b, _, _) in regs] + ["set=%s" % (min(ge) if ge else "-"), "clr=%d" % c, "bits=%s" % expect_bits(S, first, last)]))
    return lines, want


def expect_bits(S, first, last):
    n = (last - first) // 8 + 1
    b = bytearray(n)
    for i in range(last - first + 1):
        if first + i in S:
            b[i >> 3] |= 1 << (i & 7)
    return bytes(b).hex()


def run(R):
    facts, changed = R.extract()
    proof = R.prove(["Kdf.Props.C07"], THEOREMS) if THEOREMS else dict(obligations=0, discharged=0, broken=[], axioms={}, log="")
    rng = R.rng
    nlay = 14 if R.tier == "quick" else 200
    lines, meta = [], []
    layouts = []
    for li in range(nlay):
        L = (SA if li % 5 == 3 else DD if li % 2 == 0 else ELF)(R, li)
        if li == 1:
            # corpus: a minimised past failure runs first (zero-filesz segment with an unaligned start)
            L.segs = [dict(paddr=12287, filesz=16383, memsz=16383, voff=0xffff880000000000),
                      dict(paddr=30720, filesz=0, memsz=12287, voff=0xffff880000000000),
                      dict(paddr=57343, filesz=1024, memsz=2048, voff=0xffff880000000000)]
            L.top = 16
            L.file, L.mem = {2, 3, 4, 5, 6, 13, 14}, {2, 3, 4, 5, 6, 7, 8, 9, 10, 13, 14}
            dumpgen.write_elf(L.paths[0], L.segs, ps=PS)
        layouts.append(L)
        lines += [L.open_line()] + L.layout_lines()
        meta += [None] * (1 + len(L.layout_lines()))
        meta[-(1 + len(L.layout_lines()))] = ("open", li)
        top = L.top + 12
        def queries():
            q = []
            for w in ("file", "mem"):
                for idx in range(top):
                    q.append(("fset", w, idx)); q.append(("fclr", w, idx))
                rngs = [(a, b) for a in range(top) for b in range(a, top)]
                for (a, b) in (rngs if len(rngs) <= 700 else rng.sample(rngs, 700)):
                    q.append(("bits", w, a, b))
                q.append(("bits", w, 0, top + 200)); q.append(("bits", w, top + 5, top + 70)); q.append(("fset", w, 1 << 40)); q.append(("fclr", w, 1 << 40))
                hi = getattr(L, "max_mapnr", 0)
                if hi > top:
                    for idx in range(hi - 12, hi + 4):
                        q.append(("fset", w, idx)); q.append(("fclr", w, idx))
                        q.append(("bits", w, idx, hi + 3)); q.append(("bits", w, hi - 12, idx))
                    q.append(("fset", w, top)); q.append(("fclr", w, hi - 9))
            return q
        qs = queries()
        # before any read
        for q in rng.sample(qs, min(len(qs), 500)):
            lines.append(" ".join(map(str, q))); meta.append((li, q, "before"))
        # interleaved histories (before the frames get into the page cache): one read of a frame or one query that
        # starts there, then queries on both maps that start at or next to that frame
        for _ in range(60 if R.tier == "quick" else 200):
            p = rng.randrange(top)
            if rng.random() < 0.5:
                lines.append("probe 1 %d %d" % (p * PS, PS)); meta.append((li, ("iprobe", p), "read"))
            else:
                w = rng.choice(["file", "mem"])
                q = rng.choice([("fset", w, p), ("fclr", w, p), ("bits", w, p, p + rng.randrange(12))])
                lines.append(" ".join(map(str, q))); meta.append((li, q, "interleaved"))
            for _ in range(rng.randint(1, 3)):
                w = rng.choice(["file", "mem"])
                a = max(0, p + rng.choice([0, 0, 0, 1, -1, 2]))
                q = rng.choice([("fset", w, a), ("fclr", w, a), ("bits", w, a, a + rng.randrange(12))])
                lines.append(" ".join(map(str, q))); meta.append((li, q, "interleaved"))
        # reads in every address space (the history), then everything again
        hi = getattr(L, "max_mapnr", 0)
        for p in list(range(top)) + (list(range(hi - 12, hi + 4)) if hi > top else []):
            lines.append("probe 1 %d %d" % (p * PS, PS)); meta.append((li, ("probe", p), "read"))
        for v in L.kv_pages():
            lines.append("probe 2 %d %d" % (v, PS)); meta.append((li, ("kvprobe", v), "read"))
        for q in qs:
            lines.append(" ".join(map(str, q))); meta.append((li, q, "after"))
        # the same frames read with zero-fill on, then again with zero-fill off: the second answer must again be what
        # the page map says (a page delivered as zeroes must not stay readable)
        plist = list(range(top)) + (list(range(hi - 12, hi + 4)) if hi > top else [])
        lines.append("setnum file.zero_excluded 1"); meta.append((li, ("set", 1), "read"))
        for p in plist:
            lines.append("probe 1 %d %d" % (p * PS, PS)); meta.append((li, ("zprobe", p), "read"))
        lines.append("setnum file.zero_excluded 0"); meta.append((li, ("set", 0), "read"))
        for p in plist:
            lines.append("probe 1 %d %d" % (p * PS, PS)); meta.append((li, ("probe2", p), "read"))
        for q in rng.sample(qs, min(len(qs), 150)):
            lines.append(" ".join(map(str, q))); meta.append((li, q, "after-zerofill"))
    text = "\n".join(lines) + "\n"
    exe = R.build_harness("s_fmt", ["s_fmt.c"])
    rc, out, err = R.run_harness(exe, stdin_text=text)
    impl_all = kdf.obs(out)
    obs_meta = [m for m in meta if m]
    fail = None
    if rc != 0 or len(impl_all) != len(obs_meta):
        k = min(len(impl_all), len(obs_meta) - 1)
        fail = (k, "harness stopped after %d of %d observations (rc=%s) at '%s': %s" %
                (len(impl_all), len(obs_meta), rc, obs_meta[k], (err.strip().split("\n") or [""])[0][:300]))
    # property on the implementation's answers
    readable, readable2 = {}, {}
    kinds = {}
    for i, (m, o) in enumerate(zip(obs_meta, impl_all)):
        if fail and i >= fail[0]:
            break
        if m[0] == "open":
            if not o.startswith("open ok"):
                fail = (i, "cannot open generated dump: " + o)
            continue
        li, q, phase = m
        L = layouts[li]
        if q[0] == "probe":
            readable.setdefault(li, {})[q[1]] = not o.startswith("nodata")
            continue
        if q[0] == "probe2":
            readable2.setdefault(li, {})[q[1]] = not o.startswith("nodata")
            continue
        if q[0] in ("kvprobe", "zprobe", "set", "iprobe"):
            continue
        S = L.file if q[1] == "file" else L.mem
        if q[0] == "bits":
            want = "bits ok " + expect_bits(S, q[2], q[3])
        elif q[0] == "fset":
            c = [x for x in S if x >= q[2]]
            want = "fset ok %d" % min(c) if c else "fset nodata 0"
        else:
            x = q[2]
            while x in S:
                x += 1
            want = "fclr ok %d" % x
        kinds["%s/%s/%s" % (L.kind, q[0], phase)] = kinds.get("%s/%s/%s" % (L.kind, q[0], phase), 0) + 1
        if o != want and fail is None:
            fail = (i, "%s %s page map of a %s dump (%s): query %s answered '%s', the set of frames %s is %s, so the answer must be '%s'" %
                    (phase + "-reads:", q[1], L.kind, "files in order %s, windows %s" % (L.order, getattr(L, "windows", None)),
                     q, o, "stored in the file" if q[1] == "file" else "described as RAM", sorted(S), want))
    if fail is None:
        for li, rd in readable.items():
            bad = [p for p, ok in rd.items() if ok != (p in layouts[li].file)]
            if bad:
                fail = (0, "frame %d of %s dump %d: read %s but the file page map bit is %s" %
                        (bad[0], layouts[li].kind, li, "succeeds" if rd[bad[0]] else "reports missing data", "set" if bad[0] in layouts[li].file else "clear"))
                break
        for li, rd in readable2.items():
            bad = [p for p, ok in rd.items() if ok != (p in layouts[li].file)]
            if bad and fail is None:
                fail = (0, "frame %d of %s dump %d: after it was read with zero_excluded=1, a read with zero_excluded=0 %s but the file page map bit is %s" %
                        (bad[0], layouts[li].kind, li, "succeeds" if rd[bad[0]] else "reports missing data", "set" if bad[0] in layouts[li].file else "clear"))
                break
    # correspondence with the model
    drv = kdf.obs(R.run_driver("pfn", text))
    impl_q = [o for m, o in zip(obs_meta, impl_all) if m[0] != "open" and m[1][0] in ("bits", "fset", "fclr")]
    mism = kdf.diff_streams(impl_q, drv[:len(impl_q)] if fail else drv)
    # internal functions (both bit orders, all four buffer alignments)
    il, iwant = internal_stream(R)
    lib, cflags = R.build_lib()
    exe2 = R.build_harness("s_pfn", ["s_pfn.c"], lib=lib, cflags=cflags + ["-ffunction-sections", "-fdata-sections"], ldflags=["-Wl,--gc-sections"])
    rc2, out2, err2 = R.run_harness(exe2, stdin_text="\n".join(il) + "\n")
    iimpl = [o.rstrip() for o in kdf.obs(out2)]
    imodel = [o.rstrip() for o in kdf.obs(R.run_driver("pfn", "\n".join(il) + "\n"))]
    ifail = None
    if rc2 != 0 or len(iimpl) != len(il):
        ifail = "internal-function harness stopped after %d of %d (rc=%s) at '%s': %s" % (len(iimpl), len(il), rc2, il[min(len(iimpl), len(il) - 1)], err2.strip()[:300])
    else:
        def sem(ans):
            m = {}
            for t in ans.split()[1:]:
                p, c, pos = (int(x) for x in t.split(":"))
                esz = int(cur.split()[5])
                for k in range(c):
                    if p + k in m:
                        return None            # overlapping regions
                    m[p + k] = pos + k * esz
            return m
        for l, o, w in zip(il, iimpl, iwant):
            cur = l
            if l.startswith("scan"):
                continue        # the scan primitives are tied through the model only; their public effect is the region list
            if o != w and not (l.startswith("regions") and o.startswith("regions") and sem(o) is not None and sem(o) == sem(w)
                               and [int(t.split(":")[0]) for t in o.split()[1:]] == sorted(int(t.split(":")[0]) for t in o.split()[1:])):
                ifail = "'%s' answered '%s'; the bit set says '%s'" % (l, o, w)
                break
    if ifail and not fail:
        R.violation(ifail, dict(stream="pfnint", broken_theorems=proof["broken"]))
    if mism is None:
        m2 = kdf.diff_streams(iimpl, imodel)
        if m2 is not None:
            mism = len(impl_q) + m2
            impl_q = impl_q + iimpl; drv = drv + imodel
    if fail:
        i, msg = fail
        m = obs_meta[min(i, len(obs_meta) - 1)]
        li = m[1] if m[0] == "open" else m[0]
        L = layouts[li]
        R.violation(msg, dict(stream="fmt/pfn", layout=dict(kind=L.kind, file=sorted(L.file), mem=sorted(L.mem), windows=getattr(L, "windows", None),
                                                            order=L.order, segs=getattr(L, "segs", None), variant=getattr(L, "variant", None)),
                             query=m[1] if m[0] != "open" else None,
                             history_tail=[lines[j] for j in [k for k, mm in enumerate(meta) if mm][max(0, min(i, len(obs_meta) - 1) - 12):min(i, len(obs_meta) - 1) + 1]
                                           if not lines[j].startswith("open")],
                             stderr=err[-1200:], broken_theorems=proof["broken"]))
    elif (proof["broken"] or mism is not None) and not ifail:
        R.violation("proof obligation or correspondence broken: theorems %s; first differing query %s" % (proof["broken"], mism),
                    dict(stream="pfn", broken_theorems=proof["broken"], lean_log=proof["log"][-1500:],
                         first_diff=None if mism is None else dict(index=mism, impl=impl_q[mism] if mism < len(impl_q) else None,
                                                                   model=drv[mism] if mism < len(drv) else None)),
                    found_input=False)
    cov = dict(obligations=max(proof["obligations"], 1), discharged=proof["discharged"],
               checker_cmd="cd lean && lake build Kdf.Props.C07 && #print axioms on each theorem",
               trusted_base=["Lean 4 kernel", "tools/dumpgen.py writers (diskdump incl. split, ELF)", "harness/s_fmt.c, gcc + ASan/UBSan"],
               broken_theorems=proof["broken"], theorems=THEOREMS,
               evaluations=len(impl_all) + len(iimpl), internal_function_cases=len(iimpl), distinct_nontrivial=len({(m[0], m[1]) for m in obs_meta if m[0] != "open" and m[1][0] in ("bits", "fset", "fclr")}),
               rule="generated diskdump (1-3 split files passed in random order), SADUMP (single, disk set in random order, media) and ELF dumps (segments in random order, filesz<memsz, byte-granular, physically overlapping with disjoint virtual ranges) with random runs; "
                    "for file and memory page maps: find-set/find-clear at every index incl. beyond the top, bulk retrieval for all/sampled (first,last) "
                    "ranges, before and after reading every frame in MACHPHYS and KV space, after single reads of random frames (interleaved), and again after the frames were read with zero_excluded=1 and =0; every answer is compared with the frame set the dump encodes and "
                    "with the read status per frame; non-trivial = distinct (dump, query)",
               traces_validated_against_impl=len(impl_q), correspondence_first_diff=mism, case_kinds=kinds,
               samples=[dict(kind=L.kind, file=sorted(L.file)[:20]) for L in layouts[:2]])
    return "proof", cov, ["bit order LSB0 for diskdump, MSB0 for SADUMP (single partition, disk set, media)",
                          "ELF dumps whose LOAD segments overlap physically (variant phys-overlap) are outside the hypothesis SegsSorted of "
                          "elf_get_bits_spec / elf_find_set_spec: for them the answers are compared with the frame set the dump encodes (union of "
                          "the segments) and with the executable model functions (differential stream), not covered by a theorem; the "
                          "last-LOAD lookup hint is not part of the pfn model (its irrelevance is C04's lastload_irrelevant, for disjoint segments)"]
