"""C08 — synthesized kernel images (page tables, symbols, options) and their
independent page-table walks.  Used by tools/props/c08.py.

An image is everything the library is told about a crashed system:
  * physical memory (sparse 32-bit cells; page tables built here),
  * symbols / registers / numbers (what VMCOREINFO and the CPU state supply),
  * the options handed to addrxlat_sys_os_init,
  * the read capabilities of the memory callback,
and, for the check, the kernel's own view: `walk(va)` = physical address the
image's page tables give `va` (None = not mapped), the list of mapped virtual
regions and the RAM ranges.
"""
W = 1 << 64
FULL = W - 1
KPHYS, MACHPHYS, KV = 0, 1, 2


def VER(a, b, c):
    return (a << 16) + (b << 8) + c


def XENVER(a, b):
    return (a << 16) | b


class Img:
    def __init__(self, arch, os_, be=False):
        self.arch, self.os = arch, os_
        self.be = be
        self.cells = {}          # (as, addr4) -> 32-bit value
        self.syms = []           # (kind, name, value)
        self.opts = {}           # osinit options (strings / ints)
        self.rcaps = 3
        self.regions = []        # (name, first, last, linear?) mapped virtual regions
        self.ram = []            # (first, last) physical ranges
        self.walk = lambda va: None
        self.desc = {}           # parameters (for evidence / replay)
        self.extra_q = []        # additional virtual addresses to query
        self.extra_rt = []       # additional physical addresses to round-trip
        self.root_known = True   # the library is given a usable root page table

    # ---- memory
    def w32(self, as_, addr, val):
        self.cells[(as_, addr)] = val & 0xffffffff

    def w64(self, as_, addr, val):
        if self.be:
            self.w32(as_, addr, val >> 32); self.w32(as_, addr + 4, val)
        else:
            self.w32(as_, addr, val); self.w32(as_, addr + 4, val >> 32)

    def wphys32(self, addr, val):
        self.w32(KPHYS, addr, val); self.w32(MACHPHYS, addr, val)

    def wphys64(self, addr, val):
        self.w64(KPHYS, addr, val); self.w64(MACHPHYS, addr, val)

    def sym(self, kind, name, val):
        self.syms.append((kind, name, val % W))

    # ---- protocol
    def setup_lines(self):
        L = ["clr", "mem 0 0 0 0 0 %d" % (1 if self.be else 0), "rcaps %d" % self.rcaps]
        for (as_, a), v in sorted(self.cells.items()):
            L.append("ovr %d %d %d" % (as_, a, v))
        for k, n, v in self.syms:
            L.append("sym %s %s %d" % (k, n, v))
        o = ["arch=%s" % self.arch]
        if self.os:
            o.append("os=%s" % self.os)
        for k, v in self.opts.items():
            o.append("%s=%s" % (k, v if isinstance(v, str) else "%d" % v))
        L.append("osinit " + " ".join(o))
        return L


# =========================================================================== x86_64
class X64Tables:
    """x86-64 page tables in physical memory (4- or 5-level)."""
    P, PSE = 1, 0x80

    def __init__(self, levels, alloc, flags=0x63, cbit=0):
        self.levels, self.alloc, self.flags, self.cbit = levels, alloc, flags, cbit
        self.tables = {}                 # phys page -> {index: entry}
        self.root = self.new_table()

    def new_table(self):
        p = self.alloc()
        self.tables[p] = {}
        return p

    def map(self, va, pa, lvl):
        """map one page at va: lvl 1 = 4 KiB, 2 = 2 MiB, 3 = 1 GiB"""
        t = self.root
        for l in range(self.levels, lvl, -1):
            idx = (va >> (12 + 9 * (l - 1))) & 0x1ff
            e = self.tables[t].get(idx)
            if e is None:
                nt = self.new_table()
                e = nt | self.flags | self.cbit
                self.tables[t][idx] = e
            assert not (e & self.PSE and l in (2, 3)), "mapping below a huge page"
            t = e & 0x000ffffffffff000 & ~self.cbit
        idx = (va >> (12 + 9 * (lvl - 1))) & 0x1ff
        self.tables[t][idx] = pa | self.flags | self.cbit | (self.PSE if lvl > 1 else 0)

    def walk(self, va):
        bits = 12 + 9 * self.levels
        top = va >> (bits - 1)
        if top != 0 and top != (FULL >> (bits - 1)):
            return None
        t = self.root
        for l in range(self.levels, 0, -1):
            idx = (va >> (12 + 9 * (l - 1))) & 0x1ff
            e = self.tables.get(t, {}).get(idx, 0) & ~self.cbit
            if not e & 1:
                return None
            pa = e & 0x000ffffffffff000
            if l in (2, 3) and e & self.PSE:
                span = 1 << (12 + 9 * (l - 1))
                return (pa & ~(span - 1)) | (va & (span - 1))
            if l == 1:
                return pa | (va & 0xfff)
            t = pa
        return None

    def store(self, img, spaces=(KPHYS, MACHPHYS)):
        for p, ents in self.tables.items():
            for idx, e in ents.items():
                for as_ in spaces:
                    img.w64(as_, p + 8 * idx, e)


def map_linear(tb, va, pa, size, gran, rng=None):
    """map [va, va+size) -> [pa, pa+size) with the largest pages <= gran (1, 2, 3) that alignment allows"""
    end = va + size
    while va < end:
        for l in (3, 2, 1):
            sz = 1 << (12 + 9 * (l - 1))
            if l <= gran and va % sz == 0 and pa % sz == 0 and va + sz <= end:
                tb.map(va, pa, l)
                va += sz; pa += sz
                break


KTEXT_START = 0xffffffff80000000
MB = 1 << 20
GB = 1 << 30
TB = 1 << 40


def pick(rng, xs):
    return xs[rng.randrange(len(xs))]


def gen_x86_64_linux(rng, force=None):
    """a Linux x86-64 image; `force` overrides parameter choices (dict)"""
    f = force or {}
    img = Img("x86_64", "linux")
    d = img.desc
    levels = f.get("levels", 5 if rng.random() < 0.25 else 4)
    d["levels"] = levels
    ver = f.get("ver", pick(rng, [None, None, VER(2, 6, 9), VER(2, 6, 18), VER(2, 6, 27), VER(2, 6, 32), VER(3, 10, 0), VER(4, 4, 0),
                                   VER(4, 8, 0), VER(4, 12, 0), VER(4, 19, 0), VER(5, 4, 0), VER(6, 1, 0)]))
    if levels == 5 and ver is not None and ver < VER(4, 14, 0):
        ver = VER(5, 4, 0)
    d["ver"] = ver
    # ---- how the library learns the root page table (decided first: it limits which placements are plausible)
    rootsrc = f.get("rootsrc", pick(rng, ["sym", "sym", "sym", "cr3", "opt-phys", "opt-kv", "sym-old"]))
    have_pb = f.get("phys_base_opt", rng.random() < 0.7)
    usable = rootsrc in ("cr3", "opt-phys") or have_pb
    img.root_known = usable
    # ---- direct map placement
    kaslr_bases = [0xffff880000000000 + rng.randrange(1, 40 * 1024) * GB, 0xffff880000000000 + rng.randrange(1, 40 * 1024) * GB,
                   0xffff9c0000000000 + rng.randrange(0, 1024) * GB]
    if levels == 5:
        bases = [0xff11000000000000, 0xff11000000000000, 0xff10000000000000 + rng.randrange(1, 1 << 16) * GB,
                 0xff40000000000000 + rng.randrange(0, 1 << 10) * GB]
    elif ver is None:
        bases = [0xffff880000000000, 0xffff888000000000, 0xffff810000000000] + kaslr_bases
    elif ver < VER(2, 6, 11):
        bases = [0x0000010000000000]
    elif ver < VER(2, 6, 27):
        # mainline; Xen-enabled distribution kernels of that time already used 0xffff880000000000
        bases = [0xffff810000000000, 0xffff810000000000] + ([0xffff880000000000] if usable else [])
    elif ver < VER(4, 8, 0):
        bases = [0xffff880000000000]
    else:
        bases = [0xffff880000000000, 0xffff888000000000] + kaslr_bases
    page_offset = f.get("page_offset", pick(rng, bases))
    d["page_offset"] = page_offset
    gran = f.get("gran", pick(rng, [1, 2, 2, 3, 3]))
    d["gran"] = gran
    # ---- kernel image placement
    tsize = f.get("tsize", pick(rng, [4, 8, 10, 14, 22]) * MB)
    kaslr_v = f.get("kaslr_v", pick(rng, [0, 0, rng.randrange(0, 200) * 2 * MB, rng.randrange(0, 480) * 2 * MB]))
    text_lo = KTEXT_START + 16 * MB + kaslr_v
    if text_lo + tsize > KTEXT_START + GB - 2 * MB:
        kaslr_v = 0; text_lo = KTEXT_START + 16 * MB
    pload = f.get("pload", 16 * MB + pick(rng, [0, 0, rng.randrange(0, 64) * 2 * MB, rng.randrange(0, 400) * 2 * MB]))
    phys_base = (pload - 16 * MB - kaslr_v) % W
    d.update(kaslr_v=kaslr_v, pload=pload, phys_base=phys_base, tsize=tsize)
    # ---- RAM
    lo_end = pload + tsize + rng.randrange(1, 64) * 0x1000 + pick(rng, [0, 2 * MB, 6 * MB])
    if gran == 3:
        lo_end = max(lo_end, GB + pick(rng, [0, 2 * MB + 0x3000, 512 * MB]))
    if gran == 1 and "pload" not in f:
        # keep the number of PTEs reasonable: small machine, kernel low
        pload = 16 * MB; phys_base = (pload - 16 * MB - kaslr_v) % W
        tsize = min(tsize, 6 * MB)
        lo_end = pload + tsize + rng.randrange(1, 64) * 0x1000
        d.update(pload=pload, phys_base=phys_base, tsize=tsize)
    ram = [(0, lo_end - 1)]
    if rng.random() < 0.5:
        hi = 4 * GB
        hsz = pick(rng, [2 * MB, 8 * MB + 0x5000, GB, GB + 4 * MB]) if gran > 1 else 0x20000
        ram.append((hi, hi + hsz - 1))
    img.ram = ram
    d["ram"] = ram
    # ---- page tables
    pool = [0x100000]
    def alloc():
        p = pool[0]; pool[0] += 0x1000
        assert p < 16 * MB
        return p
    sme = f.get("sme", rng.random() < 0.15)
    cbit = (1 << 47) if sme else 0
    d["sme"] = sme
    tb = X64Tables(levels, alloc, cbit=cbit)
    # the root table lives in the kernel image
    root_va = text_lo + tsize - 0x4000
    def text_pa(va):
        return (va - KTEXT_START + phys_base) % W
    root_pa = text_pa(root_va)
    tb.tables[root_pa] = tb.tables.pop(tb.root); tb.root = root_pa
    # direct map
    for a, b in ram:
        map_linear(tb, page_offset + a, a, b + 1 - a, gran)
        img.regions.append(("direct", page_offset + a, page_offset + b, True))
    # kernel text (2M pages, as the kernel does)
    map_linear(tb, text_lo, text_pa(text_lo), (tsize + 2 * MB - 1) // (2 * MB) * 2 * MB, 2)
    text_hi = text_lo + (tsize + 2 * MB - 1) // (2 * MB) * 2 * MB - 1
    img.regions.append(("ktext", text_lo, text_hi, True))
    # non-linear areas: vmalloc after the direct map, modules after the text
    dm_end = page_offset + ram[-1][1]
    gap = f.get("vgap", pick(rng, [0x1000, 2 * MB, GB, TB]))
    vbase = (dm_end + 1 + gap + 0xfff) & ~0xfff
    if levels == 4 and rng.random() < 0.3 and page_offset >= 0xffff880000000000:
        vbase = max(vbase, 0xffffc90000000000)
    if ver is not None and ver < VER(4, 8, 0):
        # no KASLR: vmalloc starts at its fixed place beyond the direct-map region of that version
        vbase = 0xffffff0000000000 if ver < VER(2, 6, 11) else 0xffffc20000000000 if ver < VER(2, 6, 27) else 0xffffc90000000000
    def rand_ram_page():
        a, b = pick(rng, ram)
        return (a + rng.randrange(0, (b + 1 - a) // 0x1000) * 0x1000)
    nv = rng.randrange(2, 7)
    if vbase + nv * 0x1000 < (1 << 64) - 0x1000 and (vbase >> 47) != 0:
        for i in range(nv):
            tb.map(vbase + i * 0x1000, rand_ram_page(), 1)
        img.regions.append(("vmalloc", vbase, vbase + nv * 0x1000 - 1, False))
    mbase = f.get("mbase", pick(rng, [0xffffffffa0000000, 0xffffffffc0000000]))
    if mbase <= text_hi + 2 * MB:
        mbase = 0xffffffffc0000000
    nm = rng.randrange(1, 5)
    for i in range(nm):
        tb.map(mbase + i * 0x1000, rand_ram_page(), 1)
    img.regions.append(("modules", mbase, mbase + nm * 0x1000 - 1, False))
    if rng.random() < 0.3:
        tb.map(0x400000, rand_ram_page(), 1)
        img.regions.append(("user", 0x400000, 0x400fff, False))
    tb.store(img)
    img.walk = tb.walk
    d["root_pa"] = root_pa
    d["npt"] = len(tb.tables)
    # ---- what the library is told
    d["rootsrc"] = rootsrc
    if rootsrc == "sym":
        img.sym("sym", "init_top_pgt", root_va)
    elif rootsrc == "sym-old":
        img.sym("sym", "init_level4_pgt", root_va)
    elif rootsrc == "cr3":
        img.sym("reg", "cr3", root_pa | pick(rng, [0, 0, 0x18, 0x801]))
    elif rootsrc == "opt-phys":
        img.opts["rootpgt"] = "%d:%d" % (pick(rng, [KPHYS, MACHPHYS]), root_pa)
    elif rootsrc == "opt-kv":
        img.opts["rootpgt"] = "%d:%d" % (KV, root_va)
    if ver is not None:
        img.opts["ver"] = ver
    # 5-level indication
    l5src = f.get("l5src", pick(rng, ["cr4", "num", "opt"] if levels == 5 else ["cr4", "num", "opt", "stext", "ver", "num"]))
    if l5src == "ver" and (ver is None or ver >= VER(4, 13, 0)):
        l5src = "num"
    d["l5src"] = l5src
    if l5src == "cr4":
        img.sym("reg", "cr4", 0x3406e0 | ((1 << 12) if levels == 5 else 0))
    elif l5src == "num":
        img.sym("num", "pgtable_l5_enabled", 1 if levels == 5 else 0)
    elif l5src == "opt":
        img.opts["virt_bits"] = 57 if levels == 5 else 48
    have_stext = f.get("stext", l5src == "stext" or rng.random() < 0.6)
    have_text = f.get("text", rng.random() < 0.3)
    have_pob = f.get("pob", rng.random() < 0.4)
    if levels == 5 and l5src != "stext":
        pass
    if have_stext and not (levels == 5 and l5src not in ("cr4", "num", "opt")):
        img.sym("sym", "_stext", text_lo + pick(rng, [0, 0x1000, 0x40]))
    if have_text:
        img.sym("sym", "_text", text_lo)
    if have_pb:
        img.opts["phys_base"] = phys_base
    pob_va = text_lo + tsize - 0x5000 + 0x10
    img.wphys64(text_pa(pob_va), page_offset)
    if have_pob:
        img.sym("sym", "page_offset_base", pob_va)
    if sme:
        img.sym("num", "sme_mask", cbit)
    d.update(stext=have_stext, text=have_text, phys_base_opt=have_pb, pob=have_pob)
    img.rcaps = f.get("rcaps", pick(rng, [3, 3, 1, 2]))
    d["rcaps"] = img.rcaps
    # interesting physical addresses for the reverse map
    for a, b in ram:
        img.extra_rt += [a, a + 0x1000, b - 0xfff, b, b + 1, (a + b) // 2 & ~7]
    img.extra_rt += [root_pa, pload, 1 << 40]
    return img


# ------------------------------------------------------------------ Xen on x86_64
XEN_DIRECTMAP = 0xffff830000000000
XEN_DIRECTMAP_BIGMEM = 0xffff848000000000
XEN_TEXTS = {"4.4": 0xffff82d080000000, "4.3": 0xffff82c4c0000000, "4.0": 0xffff82c480000000,
             "3.2": 0xffff828c80000000, "4.0dev": 0xffff828880000000}


def gen_x86_64_xen(rng, force=None):
    """a Xen hypervisor image (os_type=xen) on x86-64"""
    f = force or {}
    img = Img("x86_64", "xen")
    d = img.desc
    variant = f.get("variant", pick(rng, ["4.4", "4.4", "4.4", "bigmem", "bigmem", "4.3", "4.0", "3.2", "4.0dev", "old"]))
    d["variant"] = variant
    vers = {"4.4": [(4, 4), (4, 6), (4, 8), (4, 11), (4, 17)], "bigmem": [(4, 6), (4, 6), (4, 7), (4, 12)], "4.3": [(4, 3)],
            "4.0": [(4, 0), (4, 1), (4, 2)], "3.2": [(3, 2), (3, 4)], "4.0dev": [(3, 4)], "old": [(3, 0), (3, 1)]}[variant]
    ver = f.get("ver", pick(rng, [None, None] + [XENVER(*v) for v in vers]))
    if variant == "4.0dev":
        ver = None              # a development snapshot: only recognisable from its page tables
    d["ver"] = ver
    dm = XEN_DIRECTMAP_BIGMEM if variant == "bigmem" else XEN_DIRECTMAP
    text = XEN_TEXTS.get("4.4" if variant == "bigmem" else variant)
    gran = f.get("gran", pick(rng, [2, 2, 3, 1]))
    d["gran"] = gran
    tsize = pick(rng, [2, 4, 6]) * MB
    xphys = f.get("xphys", pick(rng, [0x100000 * 2, rng.randrange(2, 200) * 2 * MB]))       # 2M aligned
    lo_end = xphys + tsize + 8 * MB + rng.randrange(0, 32) * 0x1000
    if gran == 3:
        lo_end = max(lo_end, GB + pick(rng, [0, 2 * MB + 0x3000]))
    if gran == 1:
        xphys = 2 * MB; tsize = 2 * MB; lo_end = 10 * MB + rng.randrange(0, 32) * 0x1000
    ram = [(0, lo_end - 1)]
    if rng.random() < 0.4 and gran > 1:
        ram.append((4 * GB, 4 * GB + pick(rng, [2 * MB, 8 * MB + 0x5000, GB]) - 1))
    img.ram = ram
    d.update(xphys=xphys, tsize=tsize, ram=ram)
    pool = [xphys + tsize]
    def alloc():
        p = pool[0]; pool[0] += 0x1000
        assert p < xphys + tsize + 8 * MB
        return p
    tb = X64Tables(4, alloc)
    if text is not None:
        # idle_pg_table lives in the Xen image
        root_va = text + tsize - 0x3000
        root_pa = xphys + tsize - 0x3000
        tb.tables[root_pa] = tb.tables.pop(tb.root); tb.root = root_pa
    else:
        root_va = dm + tb.root; root_pa = tb.root
    for a, b in ram:
        map_linear(tb, dm + a, a, b + 1 - a, gran)
        img.regions.append(("direct", dm + a, dm + b, True))
    if text is not None:
        map_linear(tb, text, xphys, tsize, 2)
        img.regions.append(("ktext", text, text + tsize - 1, True))
    def rand_ram_page():
        a, b = pick(rng, ram)
        return (a + rng.randrange(0, (b + 1 - a) // 0x1000) * 0x1000)
    # frame table: not linear.  BIGMEM builds put it where the direct map of other builds is
    ft = XEN_DIRECTMAP if variant == "bigmem" else 0xffff82e000000000 if variant in ("4.4",) else None
    if ft is not None:
        n = rng.randrange(2, 6)
        for i in range(n):
            tb.map(ft + i * 0x1000, rand_ram_page(), 1)
        img.regions.append(("frametable", ft, ft + n * 0x1000 - 1, False))
    if f.get("stubs", False) and text is not None:
        # per-CPU stub pages at the end of the 1 GiB Xen image region (Xen 4.6+)
        n = rng.randrange(1, 4)
        for i in range(n):
            tb.map(text + GB - (i + 1) * 0x1000, rand_ram_page(), 1)
        img.regions.append(("stubs", text + GB - n * 0x1000, text + GB - 1, False))
    tb.store(img)
    img.walk = tb.walk
    rootsrc = f.get("rootsrc", pick(rng, ["cr3", "cr3", "sym", "opt-phys"]))
    if rootsrc == "sym" and text is None:
        rootsrc = "cr3"
    d["rootsrc"] = rootsrc
    if rootsrc == "cr3":
        img.sym("reg", "cr3", root_pa)
    elif rootsrc == "sym":
        img.sym("sym", "pgd_l4", root_va)
        img.opts["phys_base"] = xphys
    else:
        img.opts["rootpgt"] = "%d:%d" % (pick(rng, [KPHYS, MACHPHYS]), root_pa)
    if rng.random() < 0.3 and "phys_base" not in img.opts:
        img.opts["phys_base"] = xphys
    if ver is not None:
        img.opts["ver"] = ver
    img.rcaps = f.get("rcaps", pick(rng, [3, 3, 2, 1]))
    d["rcaps"] = img.rcaps
    for a, b in ram:
        img.extra_rt += [a, a + 0x1000, b - 0xfff, b, b + 1]
    img.extra_rt += [root_pa, xphys, 1 << 40, 5 * TB - 0x1000, 5 * TB]
    return img


# =========================================================================== ia32
class IA32Tables:
    """32-bit x86 page tables: non-PAE (10+10+12, 4-byte entries, 4 MiB PSE pages) or
    PAE (2+9+9+12, 8-byte entries, 2 MiB pages)."""
    def __init__(self, pae, alloc):
        self.pae, self.alloc = pae, alloc
        self.tables = {}
        self.root = self.new_table()

    def new_table(self):
        p = self.alloc(); self.tables[p] = {}; return p

    def shifts(self):
        return [12, 21, 30] if self.pae else [12, 22]

    def map(self, va, pa, lvl):
        """lvl 1 = 4 KiB page, 2 = large page (2 MiB / 4 MiB)"""
        sh = self.shifts()
        t = self.root
        for l in range(len(sh), lvl, -1):
            idx = (va >> sh[l - 1]) & ((1 << (sh[l] - sh[l - 1] if l < len(sh) else 32 - sh[l - 1])) - 1)
            e = self.tables[t].get(idx)
            if e is None:
                nt = self.new_table()
                e = nt | (1 if self.pae and l == 3 else 0x63)
                self.tables[t][idx] = e
            t = e & 0x000ffffffffff000
        nbits = (sh[lvl] - sh[lvl - 1]) if lvl < len(sh) else 32 - sh[lvl - 1]
        idx = (va >> sh[lvl - 1]) & ((1 << nbits) - 1)
        if lvl == 1:
            self.tables[t][idx] = pa | 0x63
        elif self.pae:
            self.tables[t][idx] = pa | 0xe3
        else:
            self.tables[t][idx] = (pa & 0xffc00000) | (((pa >> 32) & 0xff) << 13) | 0xe3

    def walk(self, va):
        if va >> 32:
            return None
        sh = self.shifts()
        t = self.root
        for l in range(len(sh), 0, -1):
            nbits = (sh[l] - sh[l - 1]) if l < len(sh) else 32 - sh[l - 1]
            idx = (va >> sh[l - 1]) & ((1 << nbits) - 1)
            e = self.tables.get(t, {}).get(idx, 0)
            if not e & 1:
                return None
            if l == 2 and e & 0x80:
                if self.pae:
                    return (e & 0x000fffffffe00000) | (va & 0x1fffff)
                return (e & 0xffc00000) | (((e >> 13) & 0xff) << 32) | (va & 0x3fffff)
            pa = e & (0x000ffffffffff000 if self.pae else 0xfffff000)
            if l == 1:
                return pa | (va & 0xfff)
            t = pa
        return None

    def store(self, img):
        for p, ents in self.tables.items():
            for idx, e in ents.items():
                if self.pae:
                    img.wphys64(p + 8 * idx, e)
                else:
                    img.wphys32(p + 4 * idx, e)


def gen_ia32_linux(rng, force=None):
    f = force or {}
    img = Img(pick(rng, ["ia32", "i386", "i686", "i586"]), "linux")
    d = img.desc
    pae = f.get("pae", rng.random() < 0.5)
    d["pae"] = pae
    DM = 0xc0000000
    big = 21 if pae else 22
    gran = f.get("gran", pick(rng, [1, 2, 2]))
    lowmem = f.get("lowmem", pick(rng, [24 * MB, 64 * MB + rng.randrange(0, 8) * 0x1000, 256 * MB, 512 * MB, 896 * MB]))
    if gran == 1:
        lowmem = 20 * MB + rng.randrange(0, 16) * 0x1000
    highmem = f.get("highmem", lowmem == 896 * MB and rng.random() < 0.7)
    img.ram = [(0, (GB + 256 * MB if highmem else lowmem) - 1)]
    d.update(gran=gran, lowmem=lowmem, highmem=highmem)
    pool = [0x100000]
    def alloc():
        p = pool[0]; pool[0] += 0x1000
        assert p < 15 * MB
        return p
    tb = IA32Tables(pae, alloc)
    # swapper_pg_dir lives in the kernel image (physical 16 MiB + x)
    root_pa = 16 * MB + 0x5000
    tb.tables[root_pa] = tb.tables.pop(tb.root); tb.root = root_pa
    if pae:
        # the four PDPT entries of a PAE kernel are always populated
        for i in range(4):
            tb.tables[root_pa][i] = tb.new_table() | 1
    va, pa, end = DM, 0, DM + lowmem
    while va < end:
        if gran >= 2 and va % (1 << big) == 0 and va + (1 << big) <= end:
            tb.map(va, pa, 2); va += 1 << big; pa += 1 << big
        else:
            tb.map(va, pa, 1); va += 0x1000; pa += 0x1000
    img.regions.append(("direct", DM, DM + lowmem - 1, True))
    vstart = (DM + lowmem + 8 * MB) & ~(8 * MB - 1)
    def rand_ram_page():
        a, b = img.ram[0]
        return rng.randrange(0, (b + 1) // 0x1000) * 0x1000
    nv = rng.randrange(2, 6)
    first_area = vstart + f.get("first_area_off", pick(rng, [0, 0, 0x2000]))
    for i in range(nv):
        tb.map(first_area + i * 0x1000, rand_ram_page(), 1)
    img.regions.append(("vmalloc", first_area, first_area + nv * 0x1000 - 1, False))
    # fixmap / pkmap at the top
    tb.map(0xfffb8000, rand_ram_page(), 1)
    img.regions.append(("fixmap", 0xfffb8000, 0xfffb8fff, False))
    if rng.random() < 0.3:
        tb.map(0x08048000, rand_ram_page(), 1)
        img.regions.append(("user", 0x08048000, 0x08048fff, False))
    tb.store(img)
    img.walk = tb.walk
    d["npt"] = len(tb.tables)
    rootsrc = f.get("rootsrc", pick(rng, ["sym", "sym", "cr3+sym", "opt", "opt"]))
    d["rootsrc"] = rootsrc
    if "sym" in rootsrc:
        img.sym("sym", "swapper_pg_dir", DM + root_pa)
    if "cr3" in rootsrc:
        img.sym("reg", "cr3", root_pa)
    if rootsrc == "opt":
        img.opts["rootpgt"] = "%d:%d" % (pick(rng, [KPHYS, MACHPHYS, KV]), root_pa)
        if img.opts["rootpgt"].startswith("2:"):
            img.opts["rootpgt"] = "2:%d" % (DM + root_pa)
    if f.get("phys_bits_opt", rng.random() < 0.3):
        img.opts["phys_bits"] = 52 if pae else 32
    vsrc = f.get("vsrc", pick(rng, ["vmap_area_list", "vmap_area_list", "vmlist", "none"]))
    d["vsrc"] = vsrc
    if vsrc == "vmap_area_list":
        # struct list_head vmap_area_list in kernel data; first struct vmap_area in the slab
        head = DM + 16 * MB + 0x9000 + 0x40
        area = DM + 8 * MB + 0x340
        off_start, off_list = pick(rng, [(0, 0x18), (0, 0x20), (4, 0x1c)])
        img.sym("sym", "vmap_area_list", head)
        img.sym("offsetof", "vmap_area.va_start", off_start)
        img.sym("offsetof", "vmap_area.list", off_list)
        img.sym("offsetof", "list_head.next", 0)
        img.wphys32(head - DM, area + off_list)
        img.wphys32(area - DM + off_start, first_area)
    elif vsrc == "vmlist":
        var = DM + 16 * MB + 0x9000 + 0x80
        vm = DM + 8 * MB + 0x500
        img.sym("sym", "vmlist", var)
        img.sym("offsetof", "vm_struct.addr", 4)
        img.wphys32(var - DM, vm)
        img.wphys32(vm - DM + 4, first_area)
    img.rcaps = f.get("rcaps", pick(rng, [3, 3, 1, 2]))
    d["rcaps"] = img.rcaps
    a, b = img.ram[0]
    img.extra_rt += [0, 0x1000, lowmem - 0x1000, lowmem - 1, lowmem, lowmem + 0x1000, root_pa, 896 * MB, 896 * MB + 0x3000,
                     first_area - DM, first_area - DM - 1, GB - 0x1000, GB, b]
    return img


# =========================================================================== riscv64
class RvTables:
    """RISC-V Sv39/Sv48/Sv57 page tables (PTE: PPN at bit 10, V bit 0, R/W/X bits 1..3; a leaf at any level)."""
    def __init__(self, levels, alloc):
        self.levels, self.alloc = levels, alloc
        self.tables = {}
        self.root = self.new_table()

    def new_table(self):
        p = self.alloc(); self.tables[p] = {}; return p

    def map(self, va, pa, lvl):
        t = self.root
        for l in range(self.levels, lvl, -1):
            idx = (va >> (12 + 9 * (l - 1))) & 0x1ff
            e = self.tables[t].get(idx)
            if e is None:
                nt = self.new_table()
                e = ((nt >> 12) << 10) | 1
                self.tables[t][idx] = e
            assert not (e & 0xe), "mapping below a leaf"
            t = (e >> 10) << 12
        idx = (va >> (12 + 9 * (lvl - 1))) & 0x1ff
        self.tables[t][idx] = ((pa >> 12) << 10) | 0xcf

    def walk(self, va):
        bits = 12 + 9 * self.levels
        top = va >> (bits - 1)
        if top != 0 and top != (FULL >> (bits - 1)):
            return None
        t = self.root
        for l in range(self.levels, 0, -1):
            idx = (va >> (12 + 9 * (l - 1))) & 0x1ff
            e = self.tables.get(t, {}).get(idx, 0)
            if not e & 1:
                return None
            pa = ((e >> 10) & ((1 << 44) - 1)) << 12
            if e & 0xe:
                span = 1 << (12 + 9 * (l - 1))
                return (pa & ~(span - 1)) | (va & (span - 1))
            if l == 1:
                return None
            t = pa
        return None

    def store(self, img):
        for p, ents in self.tables.items():
            for idx, e in ents.items():
                img.wphys64(p + 8 * idx, e)


def gen_riscv64_linux(rng, force=None):
    f = force or {}
    img = Img("riscv64", "linux")
    d = img.desc
    levels = f.get("levels", pick(rng, [3, 3, 4, 5]))
    vabits = 12 + 9 * levels
    d["levels"] = levels
    page_offset = {3: 0xffffffd800000000, 4: 0xffffaf8000000000, 5: 0xff60000000000000}[levels]
    if rng.random() < 0.3 and levels == 3:
        page_offset = 0xffffffe000000000          # older kernels
    d["page_offset"] = page_offset
    gran = f.get("gran", pick(rng, [1, 2, 2, 3]))
    d["gran"] = gran
    # RAM starts at 0x80000000 on the usual platforms; the kernel is loaded at its start + 2 MiB
    ram0 = f.get("ram0", pick(rng, [0x80000000, 0x80000000, 0x40000000, 0x80200000]))
    size = pick(rng, [24 * MB + 0x3000, 64 * MB, 130 * MB]) if gran < 3 else GB + pick(rng, [0, 4 * MB])
    if gran == 1:
        size = 12 * MB + rng.randrange(0, 16) * 0x1000
    if gran == 3:
        ram0 = 0x80000000
    img.ram = [(ram0, ram0 + size - 1)]
    d.update(ram0=ram0, size=size)
    pool = [ram0 + 8 * MB]
    def alloc():
        p = pool[0]; pool[0] += 0x1000
        assert p < ram0 + 12 * MB
        return p
    tb = RvTables(levels, alloc)
    # linear map: va = PAGE_OFFSET + (pa - ram0)
    va, pa, end = page_offset, ram0, page_offset + size
    while va < end:
        done = False
        for l in (3, 2, 1):
            sz = 1 << (12 + 9 * (l - 1))
            if l <= gran and va % sz == 0 and pa % sz == 0 and va + sz <= end:
                tb.map(va, pa, l); va += sz; pa += sz; done = True
                break
        assert done
    img.regions.append(("direct", page_offset, page_offset + size - 1, True))
    # kernel image mapping at the top (2M pages), different offset
    kva = 0xffffffff80000000
    ksize = pick(rng, [4, 6]) * MB
    kpa = ram0 + 2 * MB if ram0 % (2 * MB) == 0 else (ram0 + 4 * MB) & ~(2 * MB - 1)
    va, pa = kva, kpa
    while va < kva + ksize:
        tb.map(va, pa, 2); va += 2 * MB; pa += 2 * MB
    img.regions.append(("kernel", kva, kva + ksize - 1, False))
    def rand_ram_page():
        return ram0 + rng.randrange(0, size // 0x1000) * 0x1000
    # vmalloc below PAGE_OFFSET, modules below the kernel
    vm = page_offset - pick(rng, [64 * GB, GB]) if levels > 3 else page_offset - 4 * GB
    nv = rng.randrange(2, 6)
    for i in range(nv):
        tb.map(vm + i * 0x1000, rand_ram_page(), 1)
    img.regions.append(("vmalloc", vm, vm + nv * 0x1000 - 1, False))
    mod = kva - pick(rng, [0x800000, 0x40000000 - 0x2000])
    tb.map(mod, rand_ram_page(), 1)
    img.regions.append(("modules", mod, mod + 0xfff, False))
    swapper_va = kva + ksize - 0x3000
    swapper_pa = kpa + ksize - 0x3000
    tb.tables[swapper_pa] = tb.tables.pop(tb.root); tb.root = swapper_pa
    tb.store(img)
    img.walk = tb.walk
    d["npt"] = len(tb.tables)
    rootsrc = f.get("rootsrc", pick(rng, ["sym", "sym", "opt"]))
    d["rootsrc"] = rootsrc
    if rootsrc == "sym":
        img.sym("sym", "swapper_pg_dir", swapper_va)
        img.sym("num", "va_kernel_pa_offset", (kva - kpa) % W)
    else:
        img.opts["rootpgt"] = "%d:%d" % (pick(rng, [KPHYS, MACHPHYS]), swapper_pa)
    if rng.random() < 0.5:
        img.sym("num", "VA_BITS", vabits)
    else:
        img.opts["virt_bits"] = vabits
    if f.get("page_offset_num", rng.random() < 0.85):
        img.sym("num", "PAGE_OFFSET", page_offset)
    img.rcaps = f.get("rcaps", pick(rng, [3, 1, 2]))
    d["rcaps"] = img.rcaps
    a, b = img.ram[0]
    img.extra_rt += [a, a + 0x1000, b - 0xfff, b, b + 1, a - 1 if a else 0, (a + b) // 2 & ~7, swapper_pa, 0]
    return img


# =========================================================================== aarch64
def a64_fields(page_bits, va_bits):
    """field sizes as init_pgt_meth of aarch64.c computes them (architectural)"""
    out, n, fb = [], va_bits, page_bits
    while n:
        out.append(fb); n -= fb
        fb = min(page_bits - 3, n)
    return out


class A64Tables:
    """AArch64 stage-1 tables for one TTBR: valid bit 0, table/page bit 1, output address bits 47:page_bits."""
    def __init__(self, page_bits, va_bits, alloc):
        self.pb, self.vb, self.alloc = page_bits, va_bits, alloc
        self.fields = a64_fields(page_bits, va_bits)
        self.shifts = [sum(self.fields[:i]) for i in range(len(self.fields))]      # shift of level i (0 = page offset)
        self.tables = {}
        self.root = self.new_table()

    def new_table(self):
        p = self.alloc(); self.tables[p] = {}; return p

    def nlevels(self):
        return len(self.fields) - 1

    def map(self, va, pa, lvl):
        """lvl 1 = page, 2 = block one level up, 3 = block two levels up"""
        v = va & ((1 << self.vb) - 1)
        t = self.root
        for l in range(self.nlevels(), lvl, -1):
            idx = (v >> self.shifts[l]) & ((1 << self.fields[l]) - 1)
            e = self.tables[t].get(idx)
            if e is None:
                nt = self.new_table()
                e = nt | 3
                self.tables[t][idx] = e
            assert e & 2, "mapping below a block"
            t = e & 0x0000fffffffff000 & ~((1 << self.pb) - 1)
        idx = (v >> self.shifts[lvl]) & ((1 << self.fields[lvl]) - 1)
        self.tables[t][idx] = pa | 0x700 | (3 if lvl == 1 else 1)

    def walk(self, va):
        if (va >> self.vb) != (FULL >> self.vb):
            return None
        v = va & ((1 << self.vb) - 1)
        t = self.root
        for l in range(self.nlevels(), 0, -1):
            idx = (v >> self.shifts[l]) & ((1 << self.fields[l]) - 1)
            e = self.tables.get(t, {}).get(idx, 0)
            if not e & 1:
                return None
            pa = e & 0x0000fffffffff000 & ~((1 << self.pb) - 1)
            if not e & 2:
                if l == 1:
                    return None
                span = 1 << self.shifts[l]
                return (pa & ~(span - 1)) | (v & (span - 1))
            if l == 1:
                return pa | (v & ((1 << self.pb) - 1))
            t = pa
        return None

    def store(self, img):
        for p, ents in self.tables.items():
            for idx, e in ents.items():
                img.wphys64(p + 8 * idx, e)


def gen_aarch64_linux(rng, force=None):
    f = force or {}
    img = Img("aarch64", "linux")
    d = img.desc
    pb, vb = f.get("geom", pick(rng, [(12, 48), (12, 48), (12, 39), (16, 42), (16, 48), (14, 47), (14, 48)]))
    d.update(page_bits=pb, va_bits=vb)
    img.opts["page_shift"] = pb
    psz = 1 << pb
    new_layout = f.get("new_layout", rng.random() < 0.6)          # >= 5.4: linear map in the lower half of the kernel range
    d["new_layout"] = new_layout
    top = FULL & ~((1 << vb) - 1)
    half = FULL & ~((1 << (vb - 1)) - 1)
    page_offset = top if new_layout else half
    ram0 = f.get("ram0", pick(rng, [0x40000000, 0x80000000, 0x40000000, 0x880000000]))
    blk = (pb - 3) + pb                                        # log2 of a level-2 block
    gran = f.get("gran", pick(rng, [1, 2, 2, 3 if pb == 12 else 2]))
    d["gran"] = gran
    size = (8 << 20) + rng.randrange(0, 16) * psz if gran == 1 else \
           pick(rng, [(1 << blk) * 3 + 5 * psz, (1 << blk) * 2, 96 << 20]) if gran == 2 else GB + pick(rng, [0, 4 * MB])
    size = (size + psz - 1) & ~(psz - 1)
    ram = [(ram0, ram0 + size - 1)]
    if rng.random() < 0.4:
        hole = pick(rng, [1 << blk, GB, 3 * GB])
        s2 = pick(rng, [4 * psz, (1 << blk) + psz]) if gran < 3 else 8 * psz
        ram.append((ram0 + size + hole, ram0 + size + hole + s2 - 1))
    img.ram = ram
    d["ram"] = ram
    pool = [ram0 + (2 << 20)]
    def alloc():
        p = pool[0]; pool[0] += psz
        assert p < ram0 + (7 << 20)
        return p
    tb = A64Tables(pb, vb, alloc)
    # linear map: va = PAGE_OFFSET + (pa - memstart); memstart = start of RAM rounded down to 1 GiB
    memstart = ram0 & ~(GB - 1)
    for a, b in ram:
        va, pa, end = page_offset + (a - memstart), a, page_offset + (b + 1 - memstart)
        while va < end:
            done = False
            for l in (3, 2, 1):
                if l > tb.nlevels() or (l > 1 and tb.shifts[l] > 30):
                    continue
                sz = 1 << tb.shifts[l]
                if l <= gran and va % sz == 0 and pa % sz == 0 and va + sz <= end:
                    tb.map(va, pa, l); va += sz; pa += sz; done = True
                    break
            assert done
        img.regions.append(("direct", page_offset + (a - memstart), page_offset + (b - memstart), True))
    # kernel image + vmalloc in the other half
    other = half if new_layout else top
    kva = other + pick(rng, [0x10000000, 0x08000000]) + rng.randrange(0, 64) * (1 << blk) if vb > 39 else other + 0x08000000
    kva &= ~((1 << blk) - 1)
    ksize = 2 * (1 << blk) if pb == 12 else (1 << blk)
    kpa = (ram0 + size // 2) & ~((1 << blk) - 1)
    if kpa < ram0 + (8 << 20):
        kpa = ram0                       # small machine: the image sits at the start of RAM
        nk = max(1, min(ksize, 2 << 20) // psz)
        for i in range(nk):
            tb.map(kva + i * psz, kpa + i * psz, 1)
        ksize = nk * psz
    else:
        for i in range(ksize >> blk):
            tb.map(kva + (i << blk), kpa + (i << blk), 2)
    img.regions.append(("kernel", kva, kva + ksize - 1, False))
    def rand_ram_page():
        a, b = ram[0]
        return a + rng.randrange(0, (b + 1 - a) // psz) * psz
    vm = kva + ksize + pick(rng, [psz, 1 << blk, GB])
    nv = rng.randrange(2, 6)
    for i in range(nv):
        tb.map(vm + i * psz, rand_ram_page(), 1)
    img.regions.append(("vmalloc", vm, vm + nv * psz - 1, False))
    swapper_pa = tb.root
    swapper_va = kva + 0x2000 * 0 + (ksize - psz)
    # put swapper_pg_dir into the kernel image: its physical page is the image's last page
    img_last_pa = img_pa = None
    tb.store(img)
    img.walk = tb.walk
    d["npt"] = len(tb.tables)
    kimage_voffset = None
    # the root table is not inside the image mapping here; give the library the offset that makes
    # swapper_pg_dir - kimage_voffset the physical root (that is all it uses the symbol for)
    rootsrc = f.get("rootsrc", pick(rng, ["sym", "sym", "opt"]))
    d["rootsrc"] = rootsrc
    if rootsrc == "sym":
        sv = kva + 0x1000
        img.sym("sym", "swapper_pg_dir", sv)
        img.sym("num", "kimage_voffset", (sv - swapper_pa) % W)
    else:
        img.opts["rootpgt"] = "%d:%d" % (pick(rng, [KPHYS, MACHPHYS]), swapper_pa)
    vsrc = pick(rng, ["t1sz", "va_bits", "opt"])
    if vsrc == "t1sz":
        img.sym("num", "TCR_EL1_T1SZ", 64 - vb)
    elif vsrc == "va_bits":
        img.sym("num", "VA_BITS", vb)
    else:
        img.opts["virt_bits"] = vb
    # which half holds the linear map: _stext, or the version code
    hsrc = f.get("hsrc", pick(rng, ["stext", "stext", "ver", "none"]))
    d["hsrc"] = hsrc
    if hsrc == "stext":
        img.sym("sym", "_stext", kva + 0x10000)
    elif hsrc == "ver":
        img.opts["ver"] = VER(5, 10, 0) if new_layout else VER(4, 19, 0)
    img.rcaps = f.get("rcaps", pick(rng, [3, 1, 2]))
    d["rcaps"] = img.rcaps
    for a, b in ram:
        img.extra_rt += [a, a + psz, b - psz + 1, b, b + 1, (a + b) // 2 & ~7]
    img.extra_rt += [swapper_pa, 0, ram0 - 1]
    return img
