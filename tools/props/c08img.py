"""C08 — synthesized kernel images (page tables, symbols, options) and their
independent page-table walks.  Used by tools/props/c08.py.

An image is everything the library is told about a crashed system:
  * physical memory (sparse 32-bit cells; page tables built here),
  * symbols / registers / numbers (what VMCOREINFO and the CPU state supply),
  * the options handed to addrxlat_sys_os_init,
  * the read capabilities of the memory callback,
and, for the check, the kernel's own view: `walk(va)` = physical address the
image's page tables give `va` (None = not mapped), the list of mapped virtual
regions and the RAM ranges.
"""
W = 1 << 64
FULL = W - 1
KPHYS, MACHPHYS, KV = 0, 1, 2


def VER(a, b, c):
    return (a << 16) + (b << 8) + c


def XENVER(a, b):
    return (a << 16) | b


class Img:
    def __init__(self, arch, os_, be=False):
        self.arch, self.os = arch, os_
        self.be = be
        self.cells = {}          # (as, addr4) -> 32-bit value
        self.syms = []           # (kind, name, value)
        self.opts = {}           # osinit options (strings / ints)
        self.rcaps = 3
        self.regions = []        # (name, first, last, linear?) mapped virtual regions
        self.ram = []            # (first, last) physical ranges
        self.walk = lambda va: None
        self.desc = {}           # parameters (for evidence / replay)
        self.extra_q = []        # additional virtual addresses to query
        self.extra_rt = []       # additional physical addresses to round-trip
        self.root_known = True   # the library is given a usable root page table

    # ---- memory
    def w32(self, as_, addr, val):
        self.cells[(as_, addr)] = val & 0xffffffff

    def w64(self, as_, addr, val):
        if self.be:
            self.w32(as_, addr, val >> 32); self.w32(as_, addr + 4, val)
        else:
            self.w32(as_, addr, val); self.w32(as_, addr + 4, val >> 32)

    def wphys32(self, addr, val):
        self.w32(KPHYS, addr, val); self.w32(MACHPHYS, addr, val)

    def wphys64(self, addr, val):
        self.w64(KPHYS, addr, val); self.w64(MACHPHYS, addr, val)

    def sym(self, kind, name, val):
        self.syms.append((kind, name, val % W))

    # ---- protocol
    def setup_lines(self):
        L = ["clr", "mem 0 0 0 0 0 %d" % (1 if self.be else 0), "rcaps %d" % self.rcaps]
        for (as_, a), v in sorted(self.cells.items()):
            L.append("ovr %d %d %d" % (as_, a, v))
        for k, n, v in self.syms:
            L.append("sym %s %s %d" % (k, n, v))
        o = ["arch=%s" % self.arch]
        if self.os:
            o.append("os=%s" % self.os)
        for k, v in self.opts.items():
            o.append("%s=%s" % (k, v if isinstance(v, str) else "%d" % v))
        L.append("osinit " + " ".join(o))
        return L


# =========================================================================== x86_64
class X64Tables:
    """x86-64 page tables in physical memory (4- or 5-level)."""
    P, PSE = 1, 0x80

    def __init__(self, levels, alloc, flags=0x63, cbit=0, pat=None):
        self.levels, self.alloc, self.flags, self.cbit = levels, alloc, flags, cbit
        self.pat = pat                   # callable -> bool: give this large page the PAT bit (bit 12 of a 2M/1G entry)
        self.tables = {}                 # phys page -> {index: entry}
        self.root = self.new_table()

    def new_table(self):
        p = self.alloc()
        self.tables[p] = {}
        return p

    def map(self, va, pa, lvl):
        """map one page at va: lvl 1 = 4 KiB, 2 = 2 MiB, 3 = 1 GiB"""
        t = self.root
        for l in range(self.levels, lvl, -1):
            idx = (va >> (12 + 9 * (l - 1))) & 0x1ff
            e = self.tables[t].get(idx)
            if e is None:
                nt = self.new_table()
                e = nt | self.flags | self.cbit
                self.tables[t][idx] = e
            assert not (e & self.PSE and l in (2, 3)), "mapping below a huge page"
            t = e & 0x000ffffffffff000 & ~self.cbit
        idx = (va >> (12 + 9 * (lvl - 1))) & 0x1ff
        self.tables[t][idx] = pa | self.flags | self.cbit | (self.PSE if lvl > 1 else 0) | (0x1000 if lvl > 1 and self.pat and self.pat() else 0)

    def walk(self, va):
        bits = 12 + 9 * self.levels
        top = va >> (bits - 1)
        if top != 0 and top != (FULL >> (bits - 1)):
            return None
        t = self.root
        for l in range(self.levels, 0, -1):
            idx = (va >> (12 + 9 * (l - 1))) & 0x1ff
            e = self.tables.get(t, {}).get(idx, 0) & ~self.cbit
            if not e & 1:
                return None
            pa = e & 0x000ffffffffff000
            if l in (2, 3) and e & self.PSE:
                span = 1 << (12 + 9 * (l - 1))
                return (pa & ~(span - 1)) | (va & (span - 1))
            if l == 1:
                return pa | (va & 0xfff)
            t = pa
        return None

    def store(self, img, spaces=(KPHYS, MACHPHYS)):
        for p, ents in self.tables.items():
            for idx, e in ents.items():
                for as_ in spaces:
                    img.w64(as_, p + 8 * idx, e)


def map_linear(tb, va, pa, size, gran, rng=None):
    """map [va, va+size) -> [pa, pa+size) with the largest pages <= gran (1, 2, 3) that alignment allows"""
    end = va + size
    while va < end:
        for l in (3, 2, 1):
            sz = 1 << (12 + 9 * (l - 1))
            if l <= gran and va % sz == 0 and pa % sz == 0 and va + sz <= end:
                tb.map(va, pa, l)
                va += sz; pa += sz
                break


KTEXT_START = 0xffffffff80000000
MB = 1 << 20
GB = 1 << 30
TB = 1 << 40


def pick(rng, xs):
    return xs[rng.randrange(len(xs))]


def gen_x86_64_linux(rng, force=None):
    """a Linux x86-64 image; `force` overrides parameter choices (dict)"""
    f = force or {}
    img = Img("x86_64", "linux")
    d = img.desc
    levels = f.get("levels", 5 if rng.random() < 0.25 else 4)
    d["levels"] = levels
    # version codes on both sides of every threshold of x86_64.c (2.6.11, 2.6.27, 2.6.31, 4.8.0 for the placement, 4.13.0 for the
    # paging depth) and the thresholds themselves
    ver = f.get("ver", pick(rng, [None, None, None, VER(2, 6, 9), VER(2, 6, 10), VER(2, 6, 11), VER(2, 6, 18), VER(2, 6, 26), VER(2, 6, 27),
                                   VER(2, 6, 30), VER(2, 6, 31), VER(2, 6, 32), VER(3, 10, 0), VER(4, 4, 0), VER(4, 7, 10),
                                   VER(4, 8, 0), VER(4, 12, 14), VER(4, 13, 0), VER(4, 19, 0), VER(5, 4, 0), VER(6, 1, 0)]))
    if levels == 5 and ver is not None and ver < VER(4, 14, 0):
        ver = VER(5, 4, 0)
    d["ver"] = ver
    # ---- what the library is told (decided first: it limits which placements are plausible).  Every optional
    # input of x86_64.c is an independent choice: rootpgt option, init_top_pgt, init_level4_pgt, cr3, cr4,
    # NUMBER(pgtable_l5_enabled), virt_bits option, _stext, _text, phys_base option, page_offset_base, version code.
    # `rootsrc` / `l5src` (forced scenarios) name ONE source and switch the others of their group off unless forced too.
    rootsrc = f.get("rootsrc")
    if rootsrc is None:
        told = dict(rootopt=pick(rng, [None, None, None, None, None, "phys", "kv"]), top=rng.random() < 0.45,
                    l4=rng.random() < 0.2, cr3=rng.random() < 0.4)
    else:
        told = dict(rootopt={"opt-phys": "phys", "opt-kv": "kv"}.get(rootsrc), top=rootsrc == "sym", l4=rootsrc == "sym-old",
                    cr3=rootsrc == "cr3")
    for k in ("rootopt", "top", "l4", "cr3"):
        if "in_" + k in f:
            told[k] = f["in_" + k]
    have_pb = f.get("phys_base_opt", rng.random() < 0.6)
    # the root the library will use (documented precedence: option, init_top_pgt, init_level4_pgt, cr3) and whether it can
    # read it: a KVADDR root needs the kernel-text offset, which only the phys_base option supplies before any table is read
    root_as = ("phys" if told["rootopt"] == "phys" else "kv" if (told["rootopt"] == "kv" or told["top"] or told["l4"]) else
               "phys" if told["cr3"] else None)
    usable = root_as == "phys" or (root_as == "kv" and have_pb)
    l5src = f.get("l5src")
    if l5src is None:
        l5 = dict(vbits=rng.random() < 0.15, cr4=rng.random() < 0.35, num=rng.random() < 0.5)
    else:
        l5 = dict(vbits=l5src == "opt", cr4=l5src == "cr4", num=l5src == "num")
    if levels == 5 and l5src is None and not (l5["vbits"] or l5["cr4"] or l5["num"]) and rng.random() < 0.8:
        l5["num"] = True                 # a kernel that can run with 5 levels exports the NUMBER
    for k in ("vbits", "cr4", "num"):
        if "in_" + k in f:
            l5[k] = f["in_" + k]
    have_stext = f.get("stext", l5src == "stext" or rng.random() < 0.6)
    if l5src == "ver" and "stext" not in f:
        have_stext = False
    if l5src == "ver" and (ver is None or ver >= VER(4, 13, 0)):
        ver = VER(4, 12, 0) if levels == 4 else ver
        d["ver"] = ver
    # ---- direct map placement
    kaslr_bases = [0xffff880000000000 + rng.randrange(1, 40 * 1024) * GB, 0xffff880000000000 + rng.randrange(1, 40 * 1024) * GB,
                   0xffff9c0000000000 + rng.randrange(0, 1024) * GB]
    if levels == 5:
        bases = [0xff11000000000000, 0xff11000000000000, 0xff10000000000000 + rng.randrange(1, 1 << 16) * GB,
                 0xff40000000000000 + rng.randrange(0, 1 << 10) * GB]
    elif ver is None:
        bases = [0xffff880000000000, 0xffff888000000000, 0xffff810000000000] + kaslr_bases
    elif ver < VER(2, 6, 11):
        bases = [0x0000010000000000]
    elif ver < VER(2, 6, 27):
        # mainline; Xen-enabled distribution kernels of that time already used 0xffff880000000000
        bases = [0xffff810000000000, 0xffff810000000000] + ([0xffff880000000000] if usable else [])
    elif ver < VER(4, 8, 0):
        bases = [0xffff880000000000]
    else:
        bases = [0xffff880000000000, 0xffff888000000000] + kaslr_bases
    page_offset = f.get("page_offset", pick(rng, bases))
    d["page_offset"] = page_offset
    gran = f.get("gran", pick(rng, [1, 2, 2, 3, 3]))
    d["gran"] = gran
    # ---- kernel image placement
    tsize = f.get("tsize", pick(rng, [4, 8, 10, 14, 22]) * MB)
    kaslr_v = f.get("kaslr_v", pick(rng, [0, 0, rng.randrange(0, 200) * 2 * MB, rng.randrange(0, 480) * 2 * MB]))
    text_lo = KTEXT_START + 16 * MB + kaslr_v
    if text_lo + tsize > KTEXT_START + GB - 2 * MB:
        kaslr_v = 0; text_lo = KTEXT_START + 16 * MB
    pload = f.get("pload", 16 * MB + pick(rng, [0, 0, rng.randrange(0, 64) * 2 * MB, rng.randrange(0, 400) * 2 * MB]))
    phys_base = (pload - 16 * MB - kaslr_v) % W
    d.update(kaslr_v=kaslr_v, pload=pload, phys_base=phys_base, tsize=tsize)
    # ---- RAM
    lo_end = pload + tsize + rng.randrange(1, 64) * 0x1000 + pick(rng, [0, 2 * MB, 6 * MB])
    if gran == 3:
        lo_end = max(lo_end, GB + pick(rng, [0, 2 * MB + 0x3000, 512 * MB]))
    if gran == 1 and "pload" not in f:
        # keep the number of PTEs reasonable: small machine, kernel low
        pload = 16 * MB; phys_base = (pload - 16 * MB - kaslr_v) % W
        tsize = min(tsize, 6 * MB)
        lo_end = pload + tsize + rng.randrange(1, 64) * 0x1000
        d.update(pload=pload, phys_base=phys_base, tsize=tsize)
    ram = [(0, lo_end - 1)]
    if rng.random() < 0.5:
        hi = 4 * GB
        hsz = pick(rng, [2 * MB, 8 * MB + 0x5000, GB, GB + 4 * MB]) if gran > 1 else 0x20000
        ram.append((hi, hi + hsz - 1))
    img.ram = ram
    d["ram"] = ram
    # ---- page tables
    pool = [0x100000]
    def alloc():
        p = pool[0]; pool[0] += 0x1000
        assert p < 16 * MB
        return p
    sme = f.get("sme", rng.random() < 0.15)
    cbit = (1 << 47) if sme else 0
    d["sme"] = sme
    # large pages with a non-default memory type carry the PAT bit in bit 12 of the 2M/1G entry (not an address bit)
    patp = f.get("pat", pick(rng, [0, 0, 0, 0.2, 1.0]))
    d["pat"] = patp
    tb = X64Tables(levels, alloc, cbit=cbit, pat=(lambda: rng.random() < patp) if patp else None)
    # the root table lives in the kernel image
    root_va = text_lo + tsize - 0x4000
    def text_pa(va):
        return (va - KTEXT_START + phys_base) % W
    root_pa = text_pa(root_va)
    tb.tables[root_pa] = tb.tables.pop(tb.root); tb.root = root_pa
    # direct map
    for a, b in ram:
        map_linear(tb, page_offset + a, a, b + 1 - a, gran)
        img.regions.append(("direct", page_offset + a, page_offset + b, True))
    # kernel text (2M pages, as the kernel does)
    map_linear(tb, text_lo, text_pa(text_lo), (tsize + 2 * MB - 1) // (2 * MB) * 2 * MB, 2)
    text_hi = text_lo + (tsize + 2 * MB - 1) // (2 * MB) * 2 * MB - 1
    img.regions.append(("ktext", text_lo, text_hi, True))
    # non-linear areas: vmalloc after the direct map, modules after the text
    dm_end = page_offset + ram[-1][1]
    gap = f.get("vgap", pick(rng, [0x1000, 2 * MB, GB, TB]))
    vbase = (dm_end + 1 + gap + 0xfff) & ~0xfff
    if levels == 4 and rng.random() < 0.3 and page_offset >= 0xffff880000000000:
        vbase = max(vbase, 0xffffc90000000000)
    if ver is not None and ver < VER(4, 8, 0):
        # no KASLR: vmalloc starts at its fixed place beyond the direct-map region of that version
        vbase = 0xffffff0000000000 if ver < VER(2, 6, 11) else 0xffffc20000000000 if ver < VER(2, 6, 27) else 0xffffc90000000000
    def rand_ram_page():
        a, b = pick(rng, ram)
        return (a + rng.randrange(0, (b + 1 - a) // 0x1000) * 0x1000)
    nv = rng.randrange(2, 7)
    if vbase + nv * 0x1000 < (1 << 64) - 0x1000 and (vbase >> 47) != 0:
        for i in range(nv):
            tb.map(vbase + i * 0x1000, rand_ram_page(), 1)
        img.regions.append(("vmalloc", vbase, vbase + nv * 0x1000 - 1, False))
    mbase = f.get("mbase", pick(rng, [0xffffffffa0000000, 0xffffffffc0000000]))
    if mbase <= text_hi + 2 * MB:
        mbase = 0xffffffffc0000000
    nm = rng.randrange(1, 5)
    for i in range(nm):
        tb.map(mbase + i * 0x1000, rand_ram_page(), 1)
    img.regions.append(("modules", mbase, mbase + nm * 0x1000 - 1, False))
    if rng.random() < 0.3:
        tb.map(0x400000, rand_ram_page(), 1)
        img.regions.append(("user", 0x400000, 0x400fff, False))
    if f.get("ldt", levels == 4 and page_offset >= 0xffff888000000000 and rng.random() < 0.3):
        # Linux >= 4.20 with PTI: the LDT remap area sits below the direct mapping; the root of a task with an LDT maps a page at
        # 0xffff880000000000 that is not physical 0 (the lowest mapped address of the region is not the start of the direct map)
        tb.map(0xffff880000000000, rand_ram_page() | 0x1000, 1)
        img.regions.append(("ldt", 0xffff880000000000, 0xffff880000000fff, False))
        d["ldt"] = True
    tb.store(img)
    img.walk = tb.walk
    d["root_pa"] = root_pa
    d["npt"] = len(tb.tables)
    # ---- what the library is told
    if told["top"]:
        img.sym("sym", "init_top_pgt", root_va)
    if told["l4"]:
        img.sym("sym", "init_level4_pgt", root_va)
    if told["cr3"]:
        img.sym("reg", "cr3", root_pa | pick(rng, [0, 0, 0x18, 0x801]))
    if told["rootopt"] == "phys":
        # a root given as a raw CR3 value carries PCID / PWT / PCD in its low 12 bits
        img.opts["rootpgt"] = "%d:%d" % (pick(rng, [KPHYS, MACHPHYS]), root_pa | pick(rng, [0, 0, 0x18, 0x801, 0xfff]))
    elif told["rootopt"] == "kv":
        img.opts["rootpgt"] = "%d:%d" % (KV, root_va)
    d["rootsrc"] = "+".join(k for k in ("rootopt", "top", "l4", "cr3") if told[k]) or "none"
    d["root_as"] = root_as
    if ver is not None:
        img.opts["ver"] = ver
    # 5-level indication: virt_bits option, CR4.LA57, NUMBER(pgtable_l5_enabled) in any combination; without any of them the
    # library takes a known _stext (or a version code < 4.13) for "4 levels"
    if l5["cr4"]:
        img.sym("reg", "cr4", 0x3406e0 | ((1 << 12) if levels == 5 else 0))
    if l5["num"]:
        img.sym("num", "pgtable_l5_enabled", 1 if levels == 5 else 0)
    if l5["vbits"]:
        img.opts["virt_bits"] = 57 if levels == 5 else 48
    d["l5src"] = "+".join(k for k in ("vbits", "cr4", "num") if l5[k]) or ("stext" if have_stext else "ver" if ver is not None and ver < VER(4, 13, 0) else "none")
    # is the library told the paging depth?  (a 5-level kernel always exports the NUMBER: an image with 5 levels, _stext and
    # nothing else misleads the heuristic by construction and is only checked for consistency, not for completeness)
    if l5["vbits"] or l5["cr4"] or l5["num"]:
        levels_told = levels
    elif have_stext or (ver is not None and ver < VER(4, 13, 0)):
        levels_told = 4
    else:
        levels_told = None
    d["levels_told"] = levels_told
    img.root_known = usable and levels_told == levels
    have_text = f.get("text", rng.random() < 0.3)
    have_pob = f.get("pob", rng.random() < 0.4)
    if have_stext:
        img.sym("sym", "_stext", text_lo + pick(rng, [0, 0x1000, 0x40]))
    if have_text:
        img.sym("sym", "_text", text_lo)
    if have_pb:
        img.opts["phys_base"] = phys_base
    if f.get("xen_xlat1"):
        # a PV-domain set-up (only meaningful as the first stage of a history: the image itself is bare metal)
        img.opts["xen_xlat"] = 1
        img.opts["xen_p2m_mfn"] = root_pa >> 12
        img.root_known = False
    xx = f.get("xen_xlat0", rng.random() < 0.08) and not f.get("xen_xlat1")
    if xx:
        # the option present but off (what libkdumpfile passes for a bare-metal dump), a p2m root that must then be ignored
        img.opts["xen_xlat"] = 0
        if rng.random() < 0.5:
            img.opts["xen_p2m_mfn"] = rng.randrange(1, 1 << 20)
    d["xen_xlat0"] = xx
    pob_va = text_lo + tsize - 0x5000 + 0x10
    img.wphys64(text_pa(pob_va), page_offset)
    if have_pob:
        img.sym("sym", "page_offset_base", pob_va)
    if sme:
        img.sym("num", "sme_mask", cbit)
    d.update(stext=have_stext, text=have_text, phys_base_opt=have_pb, pob=have_pob)
    img.rcaps = f.get("rcaps", pick(rng, [3, 3, 1, 2]))
    d["rcaps"] = img.rcaps
    # interesting physical addresses for the reverse map
    for a, b in ram:
        img.extra_rt += [a, a + 0x1000, b - 0xfff, b, b + 1, (a + b) // 2 & ~7]
    img.extra_rt += [root_pa, pload, 1 << 40]
    return img


# ------------------------------------------------------------------ Xen on x86_64
XEN_DIRECTMAP = 0xffff830000000000
XEN_DIRECTMAP_BIGMEM = 0xffff848000000000
XEN_TEXTS = {"4.4": 0xffff82d080000000, "4.3": 0xffff82c4c0000000, "4.0": 0xffff82c480000000,
             "3.2": 0xffff828c80000000, "4.0dev": 0xffff828880000000}


def gen_x86_64_xen(rng, force=None):
    """a Xen hypervisor image (os_type=xen) on x86-64"""
    f = force or {}
    img = Img("x86_64", "xen")
    d = img.desc
    variant = f.get("variant", pick(rng, ["4.4", "4.4", "4.4", "bigmem", "bigmem", "4.3", "4.0", "3.2", "4.0dev", "old"]))
    d["variant"] = variant
    vers = {"4.4": [(4, 4), (4, 6), (4, 8), (4, 11), (4, 17)], "bigmem": [(4, 6), (4, 6), (4, 7), (4, 12)], "4.3": [(4, 3)],
            "4.0": [(4, 0), (4, 1), (4, 2)], "3.2": [(3, 2), (3, 4)], "4.0dev": [(3, 4)], "old": [(3, 0), (3, 1)]}[variant]
    ver = f.get("ver", pick(rng, [None, None] + [XENVER(*v) for v in vers]))
    if variant == "4.0dev":
        ver = None              # a development snapshot: only recognisable from its page tables
    d["ver"] = ver
    dm = XEN_DIRECTMAP_BIGMEM if variant == "bigmem" else XEN_DIRECTMAP
    text = XEN_TEXTS.get("4.4" if variant == "bigmem" else variant)
    gran = f.get("gran", pick(rng, [2, 2, 3, 1]))
    d["gran"] = gran
    tsize = pick(rng, [2, 4, 6]) * MB
    xphys = f.get("xphys", pick(rng, [0x100000 * 2, rng.randrange(2, 200) * 2 * MB]))       # 2M aligned
    lo_end = xphys + tsize + 8 * MB + rng.randrange(0, 32) * 0x1000
    if gran == 3:
        lo_end = max(lo_end, GB + pick(rng, [0, 2 * MB + 0x3000]))
    if gran == 1:
        xphys = 2 * MB; tsize = 2 * MB; lo_end = 10 * MB + rng.randrange(0, 32) * 0x1000
    ram = [(0, lo_end - 1)]
    if rng.random() < 0.4 and gran > 1:
        ram.append((4 * GB, 4 * GB + pick(rng, [2 * MB, 8 * MB + 0x5000, GB]) - 1))
    img.ram = ram
    d.update(xphys=xphys, tsize=tsize, ram=ram)
    pool = [xphys + tsize]
    def alloc():
        p = pool[0]; pool[0] += 0x1000
        assert p < xphys + tsize + 8 * MB
        return p
    patp = f.get("pat", pick(rng, [0, 0, 0, 0.2, 1.0]))
    d["pat"] = patp
    tb = X64Tables(4, alloc, pat=(lambda: rng.random() < patp) if patp else None)
    if text is not None:
        # idle_pg_table lives in the Xen image
        root_va = text + tsize - 0x3000
        root_pa = xphys + tsize - 0x3000
        tb.tables[root_pa] = tb.tables.pop(tb.root); tb.root = root_pa
    else:
        root_va = dm + tb.root; root_pa = tb.root
    for a, b in ram:
        map_linear(tb, dm + a, a, b + 1 - a, gran)
        img.regions.append(("direct", dm + a, dm + b, True))
    if text is not None:
        map_linear(tb, text, xphys, tsize, 2)
        img.regions.append(("ktext", text, text + tsize - 1, True))
    def rand_ram_page():
        a, b = pick(rng, ram)
        return (a + rng.randrange(0, (b + 1 - a) // 0x1000) * 0x1000)
    # frame table: not linear.  BIGMEM builds put it where the direct map of other builds is
    ft = XEN_DIRECTMAP if variant == "bigmem" else 0xffff82e000000000 if variant in ("4.4",) else None
    if ft is not None:
        n = rng.randrange(2, 6)
        for i in range(n):
            tb.map(ft + i * 0x1000, rand_ram_page(), 1)
        img.regions.append(("frametable", ft, ft + n * 0x1000 - 1, False))
    if variant == "3.2":
        # Xen 3.2-3.4: 16 GiB ioremap()/fixmap area at 0xffff828800000000, mapped piecewise (MMIO BARs, ACPI tables, fixmap slots) with
        # 4K pages and 2M superpages, every piece with its own virt-to-phys offset.  The text mapping of a 4.0 development snapshot
        # later took the address 2 GiB into this area.
        IOREMAP = 0xffff828800000000
        io = f.get("ioremap", pick(rng, [None, "any", "any", "at-4.0dev", "at-4.0dev"]))
        d["ioremap"] = io
        if io is not None:
            gbs = [rng.randrange(0, 16), rng.randrange(0, 16)] + ([2] if io == "at-4.0dev" else [])
            for gi, g in enumerate(dict.fromkeys(gbs)):
                base = IOREMAP + g * GB
                mmio = 0xc0000000 + rng.randrange(0, 256) * 2 * MB
                cur = 0
                if (io == "at-4.0dev" and g == 2) or rng.random() < 0.5:
                    nbig = rng.randrange(1, 4)
                    for i in range(nbig):
                        tb.map(base + i * 2 * MB, mmio + i * 2 * MB, 2)
                    img.regions.append(("ioremap-2m", base, base + nbig * 2 * MB - 1, False))
                    cur = nbig * 2 * MB
                for j in range(rng.randrange(1, 4)):
                    cur += pick(rng, [0x1000, 2 * MB, 0x5000, 64 * MB]) + (2 * MB if j == 0 else 0)
                    cur = (cur + 0xfff) & ~0xfff
                    n = rng.randrange(1, 4)
                    pa0 = 0xfe000000 + rng.randrange(0, 0x1000) * 0x1000
                    if cur + n * 0x1000 >= GB:
                        break
                    for i in range(n):
                        tb.map(base + cur + i * 0x1000, pa0 + i * 0x1000, 1)
                    img.regions.append(("ioremap-4k", base + cur, base + cur + n * 0x1000 - 1, False))
                    cur += n * 0x1000
    if f.get("stubs", False) and text is not None:
        # per-CPU stub pages at the end of the 1 GiB Xen image region (Xen 4.6+)
        n = rng.randrange(1, 4)
        for i in range(n):
            tb.map(text + GB - (i + 1) * 0x1000, rand_ram_page(), 1)
        img.regions.append(("stubs", text + GB - n * 0x1000, text + GB - 1, False))
    tb.store(img)
    img.walk = tb.walk
    # inputs of map_xen_x86_64, each present or absent on its own: rootpgt option, cr3, pgd_l4, phys_base option, version code
    rootsrc = f.get("rootsrc") if not f.get("in_none") else "none"
    if rootsrc is None:
        rootopt, have_cr3, have_sym = rng.random() < 0.2, rng.random() < 0.6, rng.random() < 0.45
        have_pb = rng.random() < 0.4
        if not (rootopt or have_cr3 or (have_sym and (have_pb or root_va >= XEN_DIRECTMAP))) and \
                (ver is None or variant in ("bigmem", "4.0dev")):
            have_cr3 = True         # without readable tables AND without a version nothing can be placed (and BIGMEM cannot be told from a version)
    else:
        rootopt, have_cr3, have_sym = rootsrc == "opt-phys", rootsrc == "cr3", rootsrc == "sym"
        have_pb = rootsrc == "sym" or rng.random() < 0.3
    if f.get("in_none"):
        rootopt = have_cr3 = have_sym = have_pb = False           # nothing but the version code
    if have_cr3:
        img.sym("reg", "cr3", root_pa)
    if have_sym:
        img.sym("sym", "pgd_l4", root_va)
    if rootopt:
        img.opts["rootpgt"] = "%d:%d" % (pick(rng, [KPHYS, MACHPHYS]), root_pa)
    if have_pb:
        img.opts["phys_base"] = xphys
    d["rootsrc"] = "+".join(x for x, c in (("opt", rootopt), ("cr3", have_cr3), ("sym", have_sym)) if c) or "none"
    d["root_pa"] = root_pa
    d["phys_base_opt"] = have_pb
    # a KVADDR root (pgd_l4) is readable through the temporary mapping: inside the direct map, or with phys_base
    img.root_known = bool(rootopt or have_cr3 or (have_sym and (have_pb or root_va >= XEN_DIRECTMAP)))
    if ver is not None:
        img.opts["ver"] = ver
    img.rcaps = f.get("rcaps", pick(rng, [3, 3, 2, 1]))
    d["rcaps"] = img.rcaps
    for a, b in ram:
        img.extra_rt += [a, a + 0x1000, b - 0xfff, b, b + 1]
    img.extra_rt += [root_pa, xphys, 1 << 40, 5 * TB - 0x1000, 5 * TB]
    return img


# =========================================================================== ia32
class IA32Tables:
    """32-bit x86 page tables: non-PAE (10+10+12, 4-byte entries, 4 MiB PSE pages) or
    PAE (2+9+9+12, 8-byte entries, 2 MiB pages)."""
    def __init__(self, pae, alloc):
        self.pae, self.alloc = pae, alloc
        self.tables = {}
        self.root = self.new_table()

    def new_table(self):
        p = self.alloc(); self.tables[p] = {}; return p

    def shifts(self):
        return [12, 21, 30] if self.pae else [12, 22]

    def map(self, va, pa, lvl):
        """lvl 1 = 4 KiB page, 2 = large page (2 MiB / 4 MiB)"""
        sh = self.shifts()
        t = self.root
        for l in range(len(sh), lvl, -1):
            idx = (va >> sh[l - 1]) & ((1 << (sh[l] - sh[l - 1] if l < len(sh) else 32 - sh[l - 1])) - 1)
            e = self.tables[t].get(idx)
            if e is None:
                nt = self.new_table()
                e = nt | (1 if self.pae and l == 3 else 0x63)
                self.tables[t][idx] = e
            t = e & 0x000ffffffffff000
        nbits = (sh[lvl] - sh[lvl - 1]) if lvl < len(sh) else 32 - sh[lvl - 1]
        idx = (va >> sh[lvl - 1]) & ((1 << nbits) - 1)
        if lvl == 1:
            self.tables[t][idx] = pa | 0x63
        elif self.pae:
            self.tables[t][idx] = pa | 0xe3
        else:
            self.tables[t][idx] = (pa & 0xffc00000) | (((pa >> 32) & 0xff) << 13) | 0xe3

    def walk(self, va):
        if va >> 32:
            return None
        sh = self.shifts()
        t = self.root
        for l in range(len(sh), 0, -1):
            nbits = (sh[l] - sh[l - 1]) if l < len(sh) else 32 - sh[l - 1]
            idx = (va >> sh[l - 1]) & ((1 << nbits) - 1)
            e = self.tables.get(t, {}).get(idx, 0)
            if not e & 1:
                return None
            if l == 2 and e & 0x80:
                if self.pae:
                    return (e & 0x000fffffffe00000) | (va & 0x1fffff)
                return (e & 0xffc00000) | (((e >> 13) & 0xff) << 32) | (va & 0x3fffff)
            pa = e & (0x000ffffffffff000 if self.pae else 0xfffff000)
            if l == 1:
                return pa | (va & 0xfff)
            t = pa
        return None

    def store(self, img):
        for p, ents in self.tables.items():
            for idx, e in ents.items():
                if self.pae:
                    img.wphys64(p + 8 * idx, e)
                else:
                    img.wphys32(p + 4 * idx, e)


def gen_ia32_linux(rng, force=None):
    f = force or {}
    img = Img(pick(rng, ["ia32", "i386", "i686", "i586"]), "linux")
    d = img.desc
    pae = f.get("pae", rng.random() < 0.5)
    d["pae"] = pae
    DM = 0xc0000000
    big = 21 if pae else 22
    gran = f.get("gran", pick(rng, [1, 2, 2]))
    lowmem = f.get("lowmem", pick(rng, [24 * MB, 64 * MB + rng.randrange(0, 8) * 0x1000, 256 * MB, 512 * MB, 896 * MB]))
    if gran == 1:
        lowmem = 20 * MB + rng.randrange(0, 16) * 0x1000
    highmem = f.get("highmem", lowmem == 896 * MB and rng.random() < 0.7)
    img.ram = [(0, (GB + 256 * MB if highmem else lowmem) - 1)]
    d.update(gran=gran, lowmem=lowmem, highmem=highmem)
    pool = [0x100000]
    def alloc():
        p = pool[0]; pool[0] += 0x1000
        assert p < 15 * MB
        return p
    tb = IA32Tables(pae, alloc)
    # swapper_pg_dir lives in the kernel image (physical 16 MiB + x)
    root_pa = 16 * MB + 0x5000
    tb.tables[root_pa] = tb.tables.pop(tb.root); tb.root = root_pa
    if pae:
        # the four PDPT entries of a PAE kernel are always populated
        for i in range(4):
            tb.tables[root_pa][i] = tb.new_table() | 1
    va, pa, end = DM, 0, DM + lowmem
    while va < end:
        if gran >= 2 and va % (1 << big) == 0 and va + (1 << big) <= end:
            tb.map(va, pa, 2); va += 1 << big; pa += 1 << big
        else:
            tb.map(va, pa, 1); va += 0x1000; pa += 0x1000
    img.regions.append(("direct", DM, DM + lowmem - 1, True))
    vstart = (DM + lowmem + 8 * MB) & ~(8 * MB - 1)
    def rand_ram_page():
        a, b = img.ram[0]
        return rng.randrange(0, (b + 1) // 0x1000) * 0x1000
    nv = rng.randrange(2, 6)
    first_area = vstart + f.get("first_area_off", pick(rng, [0, 0, 0x2000]))
    for i in range(nv):
        tb.map(first_area + i * 0x1000, rand_ram_page(), 1)
    img.regions.append(("vmalloc", first_area, first_area + nv * 0x1000 - 1, False))
    # fixmap / pkmap at the top
    tb.map(0xfffb8000, rand_ram_page(), 1)
    img.regions.append(("fixmap", 0xfffb8000, 0xfffb8fff, False))
    if rng.random() < 0.3:
        tb.map(0x08048000, rand_ram_page(), 1)
        img.regions.append(("user", 0x08048000, 0x08048fff, False))
    # inputs of ia32.c, each present or absent on its own: rootpgt option, cr3, swapper_pg_dir, phys_bits option,
    # vmap_area_list / vmlist and every structure offset they need
    rootsrc = f.get("rootsrc")
    if rootsrc is None:
        have_sym, have_cr3 = rng.random() < 0.75, rng.random() < 0.35
        rootopt = pick(rng, [None, None, None, None, KPHYS, MACHPHYS, KV])
    else:
        have_sym, have_cr3 = "sym" in rootsrc, "cr3" in rootsrc
        rootopt = f.get("rootopt_as", pick(rng, [KPHYS, MACHPHYS, KV])) if "opt" in rootsrc else None
    have_pbits = f.get("phys_bits_opt", rng.random() < 0.3)
    # ---- the dump was taken in process context: CR3 / the rootpgt option name the root of the crashing user TASK, which shares
    # the kernel part with swapper_pg_dir and has user mappings of its own.  Non-PAE: a page directory (one page).  PAE: a
    # 32-byte PDPT from the pgd_cache slab (32-byte aligned, anywhere inside its page; its neighbours in the page are other
    # tasks' PDPTs, freed ones, or nothing).
    task = f.get("task", rng.random() < 0.5) and (have_cr3 or rootopt is not None)
    d["task"] = task
    wtb = tb
    task_root = root_pa
    if task:
        upool = [18 * MB]
        def ualloc():
            p = upool[0]; upool[0] += 0x1000
            assert p < 19 * MB
            return p
        dpool = [19 * MB]
        def data_page(first64=None):
            p = dpool[0]; dpool[0] += 0x1000
            assert p < 20 * MB
            if first64 is not None:
                img.wphys32(p, first64 & 0xffffffff); img.wphys32(p + 4, first64 >> 32)
            return p
        slab = 17 * MB + rng.randrange(0, 16) * 0x1000
        slot = f.get("pdpt_slot", pick(rng, [0, 0, 1, 95, 127, rng.randrange(1, 128), rng.randrange(1, 128)])) if pae else 0
        task_root = slab + 32 * slot
        d["task_root_off"] = 32 * slot
        wtb = IA32Tables(pae, ualloc)
        wtb.tables = tb.tables                       # the kernel part is shared with swapper_pg_dir
        wtb.root = task_root
        kslots = [3] if pae else range(768, 1024)
        wtb.tables[task_root] = {i: tb.tables[root_pa][i] for i in kslots if i in tb.tables[root_pa]}
        # user mappings: text, heap, stack, a few anywhere; data pages carry arbitrary contents
        uvas = [0x08048000, 0xbffff000 - rng.randrange(0, 4) * 0x1000, rng.randrange(0x10000, 0xbf000) * 0x1000]
        look = f.get("lookalike", (not pae) and rng.random() < 0.4)
        d["lookalike"] = look
        if look and not pae:
            # the bytes of a non-PAE hierarchy can parse as a COMPLETE PAE walk of the start of the direct mapping: pgd[6..7] read
            # as PDPT[3], pte[0..1] of that page table as PD[0], the first 8 bytes of the data page as PT[0]
            word = (rng.randrange(1, 1 << 20) << 12) | pick(rng, [1, 0x67, 0x25, 0x163]) | (rng.getrandbits(3) << 9)
            if rng.random() < 0.3:
                word |= rng.getrandbits(20) << 32
            if rng.random() < 0.12:
                # ... and a first word below 0x1000 (a counter, a flag word) makes that walk end at physical 0, which is all check_pae asks for
                word = pick(rng, [1, 1, 0x67, 0x25, 0x3, 0xfff])
            word = f.get("look_word", word)
            d["look_zero"] = (word & 0x000ffffffffff000) == 0
            wtb.map(0x01800000, data_page(word), 1)
            img.regions.append(("user-slot6", 0x01800000, 0x01800fff, False))
            uvas = [v for v in uvas if not (0x01800000 <= v < 0x02000000)]
        for v in uvas:
            if wtb.walk(v) is None:
                wtb.map(v, data_page(rng.getrandbits(64) if rng.random() < 0.7 else None), 1)
                img.regions.append(("user", v, v + 0xfff, False))
        if pae:
            # the rest of the slab page
            nb = f.get("slab_neighbours", pick(rng, ["none", "stale", "live", "garbage", "stale"]))
            d["slab_neighbours"] = nb
            others = [s for s in sorted({0, 1, slot - 1, slot + 1, rng.randrange(128)}) if 0 <= s < 128 and s != slot]
            for s in (others if nb != "none" else []):
                a = slab + 32 * s
                if nb == "live":                   # another task: same kernel part, its own (empty) user part
                    ents = {3: tb.tables[root_pa][3], 0: ualloc() | 1}
                elif nb == "stale":                # a freed PDPT: its kernel entry points to a page that has been recycled since
                    pg = data_page()
                    for i in range(0, 512, pick(rng, [1, 7])):
                        img.wphys64(pg + 8 * i, (0x20000000 + i * 0x200000) | 0x1e3)
                    ents = {3: pg | 1, 0: data_page() | 1}
                else:
                    ents = {i: (rng.randrange(1, 1 << 18) << 12) | 1 for i in range(4)}
                for i, e in ents.items():
                    img.wphys64(a + 8 * i, e)
    tb.store(img)
    if wtb is not tb:
        img.walk = wtb.walk
    else:
        img.walk = tb.walk
    d["npt"] = len(tb.tables)
    if have_sym:
        img.sym("sym", "swapper_pg_dir", DM + root_pa)
    if have_cr3:
        img.sym("reg", "cr3", task_root)
    if rootopt is not None:
        img.opts["rootpgt"] = "%d:%d" % (rootopt, DM + task_root if rootopt == KV else task_root)
    if have_pbits:
        img.opts["phys_bits"] = 52 if pae else 32
    d["rootsrc"] = "+".join(x for x, c in (("opt", rootopt is not None), ("cr3", have_cr3), ("sym", have_sym)) if c) or "none"
    # the root the library uses: option, cr3, swapper_pg_dir; PAE is probed through the option's or the symbol's root
    root_as = ("kv" if rootopt == KV else "phys") if rootopt is not None else "phys" if have_cr3 else "kv" if have_sym else None
    d["root_as"] = root_as
    img.root_known = root_as is not None and (have_pbits or rootopt is not None or have_sym)
    if not img.root_known:
        d["osinit_may_fail"] = True
    vsrc = f.get("vsrc", pick(rng, ["vmap_area_list", "vmap_area_list", "vmlist", "none", "both", "val-partial+vmlist", "val-partial",
                                    "vmlist-partial"]))
    d["vsrc_detail"] = vsrc
    if vsrc in ("vmap_area_list", "both") or vsrc.startswith("val-partial"):
        # struct list_head vmap_area_list in kernel data; first struct vmap_area in the slab
        head = DM + 16 * MB + 0x9000 + 0x40
        area = DM + 8 * MB + 0x340
        off_start, off_list = pick(rng, [(0, 0x18), (0, 0x20), (4, 0x1c)])
        img.sym("sym", "vmap_area_list", head)
        offs = [("vmap_area.va_start", off_start), ("vmap_area.list", off_list), ("list_head.next", 0)]
        if vsrc.startswith("val-partial"):
            offs.pop(rng.randrange(3))            # one offset missing: the library must fall back to vmlist
        for n, v in offs:
            img.sym("offsetof", n, v)
        img.wphys32(head - DM, area + off_list)
        img.wphys32(area - DM + off_start, first_area)
    if vsrc in ("vmlist", "both", "val-partial+vmlist", "vmlist-partial"):
        var = DM + 16 * MB + 0x9000 + 0x80
        vm = DM + 8 * MB + 0x500
        img.sym("sym", "vmlist", var)
        if vsrc != "vmlist-partial":
            img.sym("offsetof", "vm_struct.addr", 4)
        img.wphys32(var - DM, vm)
        img.wphys32(vm - DM + 4, first_area)
    # effective source of VMALLOC_START ("none": the recorded finding ia32-rdirect-without-vmalloc-start applies)
    d["vsrc"] = "none" if vsrc in ("none", "val-partial", "vmlist-partial") else "vmlist" if vsrc in ("vmlist", "val-partial+vmlist") else "vmap_area_list"
    img.rcaps = f.get("rcaps", pick(rng, [3, 3, 1, 2]))
    d["rcaps"] = img.rcaps
    a, b = img.ram[0]
    img.extra_rt += [0, 0x1000, lowmem - 0x1000, lowmem - 1, lowmem, lowmem + 0x1000, root_pa, 896 * MB, 896 * MB + 0x3000,
                     first_area - DM, first_area - DM - 1, GB - 0x1000, GB, b]
    return img


# =========================================================================== riscv64
class RvTables:
    """RISC-V Sv39/Sv48/Sv57 page tables (PTE: PPN at bit 10, V bit 0, R/W/X bits 1..3; a leaf at any level)."""
    def __init__(self, levels, alloc):
        self.levels, self.alloc = levels, alloc
        self.tables = {}
        self.root = self.new_table()

    def new_table(self):
        p = self.alloc(); self.tables[p] = {}; return p

    def map(self, va, pa, lvl):
        t = self.root
        for l in range(self.levels, lvl, -1):
            idx = (va >> (12 + 9 * (l - 1))) & 0x1ff
            e = self.tables[t].get(idx)
            if e is None:
                nt = self.new_table()
                e = ((nt >> 12) << 10) | 1
                self.tables[t][idx] = e
            assert not (e & 0xe), "mapping below a leaf"
            t = (e >> 10) << 12
        idx = (va >> (12 + 9 * (lvl - 1))) & 0x1ff
        self.tables[t][idx] = ((pa >> 12) << 10) | 0xcf

    def walk(self, va):
        bits = 12 + 9 * self.levels
        top = va >> (bits - 1)
        if top != 0 and top != (FULL >> (bits - 1)):
            return None
        t = self.root
        for l in range(self.levels, 0, -1):
            idx = (va >> (12 + 9 * (l - 1))) & 0x1ff
            e = self.tables.get(t, {}).get(idx, 0)
            if not e & 1:
                return None
            pa = ((e >> 10) & ((1 << 44) - 1)) << 12
            if e & 0xe:
                span = 1 << (12 + 9 * (l - 1))
                return (pa & ~(span - 1)) | (va & (span - 1))
            if l == 1:
                return None
            t = pa
        return None

    def store(self, img):
        for p, ents in self.tables.items():
            for idx, e in ents.items():
                img.wphys64(p + 8 * idx, e)


def gen_riscv64_linux(rng, force=None):
    f = force or {}
    img = Img("riscv64", "linux")
    d = img.desc
    levels = f.get("levels", pick(rng, [3, 3, 4, 5]))
    vabits = 12 + 9 * levels
    d["levels"] = levels
    page_offset = {3: 0xffffffd800000000, 4: 0xffffaf8000000000, 5: 0xff60000000000000}[levels]
    if rng.random() < 0.3 and levels == 3:
        page_offset = 0xffffffe000000000          # older kernels
    d["page_offset"] = page_offset
    gran = f.get("gran", pick(rng, [1, 2, 2, 3]))
    d["gran"] = gran
    # RAM starts at 0x80000000 on the usual platforms; the kernel is loaded at its start + 2 MiB
    ram0 = f.get("ram0", pick(rng, [0x80000000, 0x80000000, 0x40000000, 0x80200000]))
    size = pick(rng, [24 * MB + 0x3000, 64 * MB, 130 * MB]) if gran < 3 else GB + pick(rng, [0, 4 * MB])
    if gran == 1:
        size = 12 * MB + rng.randrange(0, 16) * 0x1000
    if gran == 3:
        ram0 = 0x80000000
    img.ram = [(ram0, ram0 + size - 1)]
    d.update(ram0=ram0, size=size)
    pool = [ram0 + 8 * MB]
    def alloc():
        p = pool[0]; pool[0] += 0x1000
        assert p < ram0 + 12 * MB
        return p
    tb = RvTables(levels, alloc)
    # linear map: va = PAGE_OFFSET + (pa - ram0)
    va, pa, end = page_offset, ram0, page_offset + size
    while va < end:
        done = False
        for l in (3, 2, 1):
            sz = 1 << (12 + 9 * (l - 1))
            if l <= gran and va % sz == 0 and pa % sz == 0 and va + sz <= end:
                tb.map(va, pa, l); va += sz; pa += sz; done = True
                break
        assert done
    img.regions.append(("direct", page_offset, page_offset + size - 1, True))
    # kernel image mapping at the top (2M pages), different offset
    kva = 0xffffffff80000000
    ksize = pick(rng, [4, 6]) * MB
    kpa = ram0 + 2 * MB if ram0 % (2 * MB) == 0 else (ram0 + 4 * MB) & ~(2 * MB - 1)
    va, pa = kva, kpa
    while va < kva + ksize:
        tb.map(va, pa, 2); va += 2 * MB; pa += 2 * MB
    img.regions.append(("kernel", kva, kva + ksize - 1, False))
    def rand_ram_page():
        return ram0 + rng.randrange(0, size // 0x1000) * 0x1000
    # vmalloc below PAGE_OFFSET, modules below the kernel
    vm = page_offset - pick(rng, [64 * GB, GB]) if levels > 3 else page_offset - 4 * GB
    nv = rng.randrange(2, 6)
    for i in range(nv):
        tb.map(vm + i * 0x1000, rand_ram_page(), 1)
    img.regions.append(("vmalloc", vm, vm + nv * 0x1000 - 1, False))
    mod = kva - pick(rng, [0x800000, 0x40000000 - 0x2000])
    tb.map(mod, rand_ram_page(), 1)
    img.regions.append(("modules", mod, mod + 0xfff, False))
    swapper_va = kva + ksize - 0x3000
    swapper_pa = kpa + ksize - 0x3000
    tb.tables[swapper_pa] = tb.tables.pop(tb.root); tb.root = swapper_pa
    tb.store(img)
    img.walk = tb.walk
    d["npt"] = len(tb.tables)
    # inputs of riscv64.c, each present or absent on its own: rootpgt option, swapper_pg_dir, NUMBER(va_kernel_pa_offset),
    # NUMBER(VA_BITS), virt_bits option, NUMBER(PAGE_OFFSET)
    rootsrc = f.get("rootsrc")
    if rootsrc is None:
        rootopt = pick(rng, [None, None, None, KPHYS, MACHPHYS, KV if rng.random() < 0.3 else KPHYS])
        have_sym, have_vkpo = rng.random() < 0.75, rng.random() < 0.8
    else:
        rootopt = pick(rng, [KPHYS, MACHPHYS]) if rootsrc == "opt" else None
        have_sym = have_vkpo = rootsrc == "sym"
    if have_sym:
        img.sym("sym", "swapper_pg_dir", swapper_va)
    if have_vkpo:
        img.sym("num", "va_kernel_pa_offset", (kva - kpa) % W)
    if rootopt is not None:
        img.opts["rootpgt"] = "%d:%d" % (rootopt, swapper_va if rootopt == KV else swapper_pa)
    d["rootsrc"] = "+".join(x for x, c in (("opt", rootopt is not None), ("sym", have_sym), ("vkpo", have_vkpo)) if c) or "none"
    vb_num, vb_opt = pick(rng, [(True, False), (False, True), (True, True), (True, False), (False, False) if rng.random() < 0.3 else (True, True)])
    vb_num, vb_opt = f.get("vb", (vb_num, vb_opt))
    if vb_num:
        img.sym("num", "VA_BITS", vabits)
    if vb_opt:
        img.opts["virt_bits"] = vabits
    d["vbsrc"] = "+".join(x for x, c in (("num", vb_num), ("opt", vb_opt)) if c) or "none"
    if f.get("page_offset_num", rng.random() < 0.85):
        img.sym("num", "PAGE_OFFSET", page_offset)
    root_ok = (rootopt in (KPHYS, MACHPHYS)) or (rootopt is None and have_sym and have_vkpo)
    img.root_known = root_ok and (vb_num or vb_opt)
    if not img.root_known:
        d["osinit_may_fail"] = True
    img.rcaps = f.get("rcaps", pick(rng, [3, 1, 2]))
    d["rcaps"] = img.rcaps
    a, b = img.ram[0]
    img.extra_rt += [a, a + 0x1000, b - 0xfff, b, b + 1, a - 1 if a else 0, (a + b) // 2 & ~7, swapper_pa, 0]
    return img


# =========================================================================== aarch64
def a64_fields(page_bits, va_bits):
    """field sizes as init_pgt_meth of aarch64.c computes them (architectural)"""
    out, n, fb = [], va_bits, page_bits
    while n:
        out.append(fb); n -= fb
        fb = min(page_bits - 3, n)
    return out


class A64Tables:
    """AArch64 stage-1 tables for one TTBR: valid bit 0, table/page bit 1, output address bits 47:page_bits."""
    def __init__(self, page_bits, va_bits, alloc):
        self.pb, self.vb, self.alloc = page_bits, va_bits, alloc
        self.fields = a64_fields(page_bits, va_bits)
        self.shifts = [sum(self.fields[:i]) for i in range(len(self.fields))]      # shift of level i (0 = page offset)
        self.tables = {}
        self.root = self.new_table()

    def new_table(self):
        p = self.alloc(); self.tables[p] = {}; return p

    def nlevels(self):
        return len(self.fields) - 1

    def map(self, va, pa, lvl):
        """lvl 1 = page, 2 = block one level up, 3 = block two levels up"""
        v = va & ((1 << self.vb) - 1)
        t = self.root
        for l in range(self.nlevels(), lvl, -1):
            idx = (v >> self.shifts[l]) & ((1 << self.fields[l]) - 1)
            e = self.tables[t].get(idx)
            if e is None:
                nt = self.new_table()
                e = nt | 3
                self.tables[t][idx] = e
            assert e & 2, "mapping below a block"
            t = e & 0x0000fffffffff000 & ~((1 << self.pb) - 1)
        idx = (v >> self.shifts[lvl]) & ((1 << self.fields[lvl]) - 1)
        self.tables[t][idx] = pa | 0x700 | (3 if lvl == 1 else 1)

    def walk(self, va):
        if (va >> self.vb) != (FULL >> self.vb):
            return None
        v = va & ((1 << self.vb) - 1)
        t = self.root
        for l in range(self.nlevels(), 0, -1):
            idx = (v >> self.shifts[l]) & ((1 << self.fields[l]) - 1)
            e = self.tables.get(t, {}).get(idx, 0)
            if not e & 1:
                return None
            pa = e & 0x0000fffffffff000 & ~((1 << self.pb) - 1)
            if not e & 2:
                if l == 1:
                    return None
                span = 1 << self.shifts[l]
                return (pa & ~(span - 1)) | (v & (span - 1))
            if l == 1:
                return pa | (v & ((1 << self.pb) - 1))
            t = pa
        return None

    def store(self, img):
        for p, ents in self.tables.items():
            for idx, e in ents.items():
                img.wphys64(p + 8 * idx, e)


def gen_aarch64_linux(rng, force=None):
    f = force or {}
    img = Img("aarch64", "linux")
    d = img.desc
    pb, vb = f.get("geom", pick(rng, [(12, 48), (12, 48), (12, 39), (16, 42), (16, 48), (14, 47), (14, 48)]))
    d.update(page_bits=pb, va_bits=vb)
    img.opts["page_shift"] = pb
    psz = 1 << pb
    new_layout = f.get("new_layout", rng.random() < 0.6)          # >= 5.4: linear map in the lower half of the kernel range
    d["new_layout"] = new_layout
    top = FULL & ~((1 << vb) - 1)
    half = FULL & ~((1 << (vb - 1)) - 1)
    page_offset = top if new_layout else half
    ram0 = f.get("ram0", pick(rng, [0x40000000, 0x80000000, 0x40000000, 0x880000000]))
    blk = (pb - 3) + pb                                        # log2 of a level-2 block
    gran = f.get("gran", pick(rng, [1, 2, 2, 3 if pb == 12 else 2]))
    d["gran"] = gran
    size = (8 << 20) + rng.randrange(0, 16) * psz if gran == 1 else \
           pick(rng, [(1 << blk) * 3 + 5 * psz, (1 << blk) * 2, 96 << 20]) if gran == 2 else GB + pick(rng, [0, 4 * MB])
    size = (size + psz - 1) & ~(psz - 1)
    ram = [(ram0, ram0 + size - 1)]
    if rng.random() < 0.4:
        hole = pick(rng, [1 << blk, GB, 3 * GB])
        s2 = pick(rng, [4 * psz, (1 << blk) + psz]) if gran < 3 else 8 * psz
        ram.append((ram0 + size + hole, ram0 + size + hole + s2 - 1))
    img.ram = ram
    d["ram"] = ram
    pool = [ram0 + (2 << 20)]
    def alloc():
        p = pool[0]; pool[0] += psz
        assert p < ram0 + (7 << 20)
        return p
    tb = A64Tables(pb, vb, alloc)
    # linear map: va = PAGE_OFFSET + (pa - memstart); memstart = start of RAM rounded down to 1 GiB
    memstart = ram0 & ~(GB - 1)
    for a, b in ram:
        va, pa, end = page_offset + (a - memstart), a, page_offset + (b + 1 - memstart)
        while va < end:
            done = False
            for l in (3, 2, 1):
                if l > tb.nlevels() or (l > 1 and tb.shifts[l] > 30):
                    continue
                sz = 1 << tb.shifts[l]
                if l <= gran and va % sz == 0 and pa % sz == 0 and va + sz <= end:
                    tb.map(va, pa, l); va += sz; pa += sz; done = True
                    break
            assert done
        img.regions.append(("direct", page_offset + (a - memstart), page_offset + (b - memstart), True))
    # kernel image + vmalloc in the other half
    other = half if new_layout else top
    kva = other + pick(rng, [0x10000000, 0x08000000]) + rng.randrange(0, 64) * (1 << blk) if vb > 39 else other + 0x08000000
    kva &= ~((1 << blk) - 1)
    ksize = 2 * (1 << blk) if pb == 12 else (1 << blk)
    kpa = (ram0 + size // 2) & ~((1 << blk) - 1)
    if kpa < ram0 + (8 << 20):
        kpa = ram0                       # small machine: the image sits at the start of RAM
        nk = max(1, min(ksize, 2 << 20) // psz)
        for i in range(nk):
            tb.map(kva + i * psz, kpa + i * psz, 1)
        ksize = nk * psz
    else:
        for i in range(ksize >> blk):
            tb.map(kva + (i << blk), kpa + (i << blk), 2)
    img.regions.append(("kernel", kva, kva + ksize - 1, False))
    def rand_ram_page():
        a, b = ram[0]
        return a + rng.randrange(0, (b + 1 - a) // psz) * psz
    vm = kva + ksize + pick(rng, [psz, 1 << blk, GB])
    nv = rng.randrange(2, 6)
    for i in range(nv):
        tb.map(vm + i * psz, rand_ram_page(), 1)
    img.regions.append(("vmalloc", vm, vm + nv * psz - 1, False))
    swapper_pa = tb.root
    swapper_va = kva + 0x2000 * 0 + (ksize - psz)
    # put swapper_pg_dir into the kernel image: its physical page is the image's last page
    img_last_pa = img_pa = None
    tb.store(img)
    img.walk = tb.walk
    d["npt"] = len(tb.tables)
    kimage_voffset = None
    # the root table is not inside the image mapping here; give the library the offset that makes
    # swapper_pg_dir - kimage_voffset the physical root (that is all it uses the symbol for)
    # inputs of aarch64.c, each present or absent on its own: rootpgt option, swapper_pg_dir, NUMBER(kimage_voffset),
    # virt_bits option, NUMBER(TCR_EL1_T1SZ), NUMBER(VA_BITS), _stext, version code (both sides of 5.4.0); page_shift is mandatory
    rootsrc = f.get("rootsrc")
    sv = kva + 0x1000
    if rootsrc is None:
        rootopt = pick(rng, [None, None, None, KPHYS, MACHPHYS, KV if rng.random() < 0.3 else KPHYS])
        have_sym, have_kvo = rng.random() < 0.75, rng.random() < 0.8
    else:
        rootopt = pick(rng, [KPHYS, MACHPHYS]) if rootsrc == "opt" else None
        have_sym = have_kvo = rootsrc == "sym"
    if have_sym:
        img.sym("sym", "swapper_pg_dir", sv)
    if have_kvo:
        img.sym("num", "kimage_voffset", (sv - swapper_pa) % W)
    if rootopt is not None:
        img.opts["rootpgt"] = "%d:%d" % (rootopt, sv if rootopt == KV else swapper_pa)
    d["rootsrc"] = "+".join(x for x, c in (("opt", rootopt is not None), ("sym", have_sym), ("kvo", have_kvo)) if c) or "none"
    vt, vn, vo = pick(rng, [(1, 0, 0), (0, 1, 0), (0, 0, 1), (1, 1, 0), (1, 1, 1), (0, 1, 1), (1, 0, 1), (0, 0, 0) if rng.random() < 0.3 else (1, 1, 0)])
    vt, vn, vo = f.get("vb", (vt, vn, vo))
    if vt:
        img.sym("num", "TCR_EL1_T1SZ", 64 - vb)
    if vn:
        img.sym("num", "VA_BITS", vb)
    if vo:
        img.opts["virt_bits"] = vb
    d["vbsrc"] = "+".join(x for x, c in (("t1sz", vt), ("va_bits", vn), ("opt", vo)) if c) or "none"
    # which half holds the linear map: _stext, or the version code, or both, or nothing (then there is no fast path)
    hsrc = f.get("hsrc", pick(rng, ["stext", "stext", "ver", "none", "both"]))
    d["hsrc"] = hsrc
    if hsrc in ("stext", "both"):
        img.sym("sym", "_stext", kva + 0x10000)
    if hsrc in ("ver", "both"):
        img.opts["ver"] = pick(rng, [VER(5, 4, 0), VER(5, 10, 0), VER(6, 1, 0)]) if new_layout else pick(rng, [VER(5, 3, 18), VER(4, 19, 0), VER(4, 9, 0)])
    root_ok = (rootopt in (KPHYS, MACHPHYS)) or (rootopt is None and have_sym and have_kvo)
    img.root_known = bool(root_ok and (vt or vn or vo))
    if not img.root_known:
        d["osinit_may_fail"] = True
    img.rcaps = f.get("rcaps", pick(rng, [3, 1, 2]))
    d["rcaps"] = img.rcaps
    for a, b in ram:
        img.extra_rt += [a, a + psz, b - psz + 1, b, b + 1, (a + b) // 2 & ~7]
    img.extra_rt += [swapper_pa, 0, ram0 - 1]
    return img


# =========================================================================== arm (32-bit, short descriptors)
class ArmTables:
    """Arm short-descriptor translation tables (TTBCR.N = 0): a 16 KiB first-level table of 4096 word entries indexed by
    VA[31:20] — fault (type 0), pointer to a 1 KiB second-level table (type 1), 1 MiB section (type 2, bit 18 clear),
    16 MiB supersection (type 2, bit 18 set: sixteen identical consecutive entries, PA[35:32] in bits 23:20 and PA[39:36] in
    bits 8:5) — and second-level tables of 256 word entries indexed by VA[19:12]: fault, 64 KiB large page (type 1: sixteen
    identical consecutive entries) or 4 KiB small page (type 2/3, bit 0 = XN)."""
    def __init__(self, root, alloc_l2):
        self.root, self.alloc_l2 = root, alloc_l2
        self.l1 = {}             # index -> entry
        self.l2 = {}             # table phys -> {index: entry}

    def _l2_of(self, va):
        i = va >> 20
        e = self.l1.get(i)
        if e is None:
            t = self.alloc_l2()
            self.l2[t] = {}
            e = t | 0x11 if (t >> 10) & 1 else t | 0x01        # domain bits vary, type 1
            self.l1[i] = e
        assert e & 3 == 1, "mapping below a section"
        return e & ~0x3ff

    def map(self, va, pa, kind, xn=0):
        """kind: 'small' 4 KiB, 'large' 64 KiB, 'sect' 1 MiB, 'super' 16 MiB"""
        if kind == "small":
            assert va % 0x1000 == 0 and pa % 0x1000 == 0 and pa < (1 << 32)
            self.l2[self._l2_of(va)][(va >> 12) & 0xff] = pa | 0x45e & ~1 | 2 | (xn & 1)
        elif kind == "large":
            assert va % 0x10000 == 0 and pa % 0x10000 == 0 and pa < (1 << 32)
            t = self._l2_of(va)
            for k in range(16):
                self.l2[t][((va >> 12) & 0xff) + k] = pa | 0x55 & ~3 | 1 | ((xn & 1) << 15)
        elif kind == "sect":
            assert va % (1 << 20) == 0 and pa % (1 << 20) == 0 and pa < (1 << 32)
            assert (va >> 20) not in self.l1
            self.l1[va >> 20] = pa | 0x1140e | ((xn & 1) << 4)          # type 2, bit 18 clear
        elif kind == "super":
            assert va % (1 << 24) == 0 and pa % (1 << 24) == 0 and pa < (1 << 40)
            e = (pa & 0xff000000) | (((pa >> 32) & 0xf) << 20) | (((pa >> 36) & 0xf) << 5) | (1 << 18) | 0x1140e & ~0x1e0 | ((xn & 1) << 4)
            for k in range(16):
                assert (va >> 20) + k not in self.l1
                self.l1[(va >> 20) + k] = e
        else:
            raise ValueError(kind)

    def walk(self, va):
        """the architecture's walk, written from the Arm ARM (B3.5), not from arm.c"""
        if va >> 32:
            return None
        d1 = self.l1.get(va >> 20, 0)
        t = d1 & 3
        if t == 0:
            return None
        if t == 1:
            d2 = self.l2.get(d1 & 0xfffffc00, {}).get((va >> 12) & 0xff, 0)
            if d2 & 3 == 0:
                return None
            if d2 & 3 == 1:
                return (d2 & 0xffff0000) | (va & 0xffff)
            return (d2 & 0xfffff000) | (va & 0xfff)
        if d1 & (1 << 18):
            return (d1 & 0xff000000) | (((d1 >> 20) & 0xf) << 32) | (((d1 >> 5) & 0xf) << 36) | (va & 0xffffff)
        return (d1 & 0xfff00000) | (va & 0xfffff)

    def words(self):
        for i, e in self.l1.items():
            yield self.root + 4 * i, e
        for t, ents in self.l2.items():
            for i, e in ents.items():
                yield t + 4 * i, e


def gen_arm_linux(rng, force=None):
    """a 32-bit Arm Linux image: lowmem mapped linearly at PAGE_OFFSET (sections, with supersections / large / small pages where
    the generator is told to), modules and pkmap below PAGE_OFFSET, vmalloc / static device mappings / vectors page above.
    Inputs of arm.c, each present or absent independently: rootpgt option (KPHYS / MACHPHYS / KVADDR), swapper_pg_dir,
    _stext, phys_base option; read capabilities incl. KVADDR (lowmem is then also served at its kernel virtual address)."""
    f = force or {}
    be = f.get("be", rng.random() < 0.15)
    img = Img("arm", "linux", be=be)
    d = img.desc
    d["be"] = be
    page_offset = f.get("page_offset", pick(rng, [0xc0000000, 0xc0000000, 0xc0000000, 0x80000000, 0x40000000, 0xb0000000]))
    phys_off = f.get("phys_off", pick(rng, [0x40000000, 0x40000000, 0, 0x80000000, 0x10000000, 0x60000000, 0xc0000000,
                                            rng.randrange(1, 0x780) * 2 * MB]))
    text_off = f.get("text_off", pick(rng, [0x8000, 0x8000, 0x208000, 0x308000]))
    dm = f.get("dm", pick(rng, ["sect", "sect", "sect", "super", "small", "large", "mixed"]))
    room = min(0xff000000 - 24 * MB - page_offset, 0xffffffff + 1 - phys_off, 760 * MB if page_offset == 0xc0000000 else 1 << 30)
    lowmem = f.get("lowmem", pick(rng, [16 * MB, 24 * MB + rng.randrange(1, 200) * 0x1000, 64 * MB, 128 * MB + 0x80000, 256 * MB,
                                       512 * MB, 760 * MB]))
    if dm in ("small", "large"):
        lowmem = min(lowmem, 12 * MB + rng.randrange(0, 256) * 0x1000)
    lowmem = max(12 * MB, min(lowmem, room)) & ~0xfff
    d.update(page_offset=page_offset, phys_off=phys_off, text_off=text_off, dm=dm, lowmem=lowmem)
    highmem = f.get("highmem", rng.random() < 0.3 and phys_off + lowmem + 64 * MB <= (1 << 32))
    img.ram = [(phys_off, phys_off + lowmem - 1)]
    if highmem:
        img.ram.append((phys_off + lowmem, phys_off + lowmem + 64 * MB - 1))
    d["highmem"] = highmem
    root_va = page_offset + text_off - 0x4000
    root_pa = phys_off + text_off - 0x4000
    pool = [phys_off + 8 * MB]
    def alloc_l2():
        p = pool[0]; pool[0] += 0x400
        assert p < phys_off + 11 * MB
        return p
    tb = ArmTables(root_pa, alloc_l2)
    # ---- lowmem: the kernel maps it with sections as far as alignment allows and finishes with small pages
    va, pa, end = page_offset, phys_off, page_offset + lowmem
    while va < end:
        left = end - va
        if dm in ("super", "mixed") and va % (16 * MB) == 0 and pa % (16 * MB) == 0 and left >= 16 * MB and \
                (dm == "super" or rng.random() < 0.5):
            tb.map(va, pa, "super"); step = 16 * MB
        elif dm not in ("small", "large") and va % MB == 0 and pa % MB == 0 and left >= MB and \
                not (dm == "mixed" and va > page_offset + 4 * MB and left <= 2 * MB):
            tb.map(va, pa, "sect"); step = MB
        elif dm in ("large", "mixed") and va % 0x10000 == 0 and pa % 0x10000 == 0 and left >= 0x10000:
            tb.map(va, pa, "large"); step = 0x10000
        else:
            tb.map(va, pa, "small"); step = 0x1000
        va += step; pa += step
    img.regions.append(("direct", page_offset, end - 1, True))
    lin_off = phys_off - page_offset
    def rand_ram_page(align=0x1000):
        return phys_off + rng.randrange(0, lowmem // align) * align
    def nonlinear(va, pa):
        return (pa - va) % (1 << 32) != lin_off % (1 << 32)
    # ---- modules (PAGE_OFFSET - 16 MiB) and pkmap (PAGE_OFFSET - 2 MiB)
    mod = page_offset - 16 * MB + rng.randrange(0, 64) * 0x1000
    nm = rng.randrange(1, 5)
    for i in range(nm):
        tb.map(mod + i * 0x1000, rand_ram_page(), "small", xn=rng.randrange(2))
    img.regions.append(("modules", mod, mod + nm * 0x1000 - 1, False))
    if highmem:
        pk = page_offset - 2 * MB
        tb.map(pk, rand_ram_page(), "small")
        img.regions.append(("pkmap", pk, pk + 0xfff, False))
    # ---- vmalloc: 8 MiB guard hole after lowmem
    vstart = (end + 8 * MB + 8 * MB - 1) & ~(8 * MB - 1) if f.get("vgap", True) is True else end + f["vgap"]
    vfirst = vstart + f.get("first_area_off", pick(rng, [0, 0, 0x8000, 0x2000]))
    nv = rng.randrange(2, 6)
    for i in range(nv):
        tb.map(vfirst + i * 0x1000, rand_ram_page(), "small", xn=1)
    img.regions.append(("vmalloc", vfirst, vfirst + nv * 0x1000 - 1, False))
    nxt = (vfirst + nv * 0x1000 + 0x20000) & ~0xffff
    if rng.random() < 0.5:
        # a 64 KiB large page (ioremap of a device window)
        pa = rand_ram_page(0x10000)
        tb.map(nxt, pa, "large", xn=1)
        img.regions.append(("ioremap64k", nxt, nxt + 0xffff, False))
        nxt += 0x20000
    sva = (nxt + 2 * MB) & ~(MB - 1)
    if rng.random() < 0.6 and sva + MB < 0xfe000000:
        # static device mapping (iotable_init): one section
        pa = pick(rng, [0x10000000, 0x1c000000, 0xf8000000, 0x01c00000])
        if nonlinear(sva, pa) and not (phys_off <= pa < phys_off + lowmem):
            tb.map(sva, pa, "sect", xn=1)
            img.regions.append(("iosect", sva, sva + MB - 1, False))
    uva = (sva + 32 * MB) & ~(16 * MB - 1)
    if rng.random() < 0.4 and uva + 16 * MB <= 0xff000000:
        # a supersection for a 36/40-bit device window
        pa = pick(rng, [0x4_00000000, 0x8_40000000 + 0x1000000, 0xfc_00000000, 0x10000000 + 16 * MB * 3])
        tb.map(uva, pa, "super", xn=1)
        img.regions.append(("iosuper", uva, uva + 16 * MB - 1, False))
    # ---- vectors page, a user page
    tb.map(0xffff0000, rand_ram_page(), "small")
    img.regions.append(("vectors", 0xffff0000, 0xffff0fff, False))
    if rng.random() < 0.3:
        tb.map(0x8000, rand_ram_page(), "small")
        img.regions.append(("user", 0x8000, 0x8fff, False))
    # ---- what the library is told
    rcaps = f.get("rcaps", pick(rng, [3, 3, 1, 2, 7, 7, 4]))
    img.rcaps = rcaps
    d["rcaps"] = rcaps
    for a, v in tb.words():
        img.wphys32(a, v)
        if rcaps & 4:
            img.w32(KV, a - phys_off + page_offset, v)         # lowmem as the kernel sees it
    img.walk = tb.walk
    d["npt"] = 1 + len(tb.l2)
    d["root_pa"] = root_pa
    rootopt = f.get("rootopt", pick(rng, [None, None, None, "kphys", "machphys", "kv"]))
    have_sym = f.get("swapper", rng.random() < 0.7)
    have_stext = f.get("stext", rng.random() < 0.8)
    have_pb = f.get("phys_base_opt", rng.random() < 0.5)
    if rootopt == "kphys":
        img.opts["rootpgt"] = "%d:%d" % (KPHYS, root_pa)
    elif rootopt == "machphys":
        img.opts["rootpgt"] = "%d:%d" % (MACHPHYS, root_pa)
    elif rootopt == "kv":
        img.opts["rootpgt"] = "%d:%d" % (KV, root_va)
    if have_sym:
        img.sym("sym", "swapper_pg_dir", root_va)
    if have_stext:
        img.sym("sym", "_stext", page_offset + text_off + pick(rng, [0, 0x40, 0x1000]))
    if have_pb:
        img.opts["phys_base"] = phys_off
    d.update(rootopt=rootopt, swapper=have_sym, stext=have_stext, phys_base_opt=have_pb)
    d["rootsrc"] = "+".join(x for x, c in (("opt-" + str(rootopt), rootopt), ("sym", have_sym)) if c) or "none"
    # can the library read the tables?  root: the option, else swapper_pg_dir (KVADDR).  Physical tables need a physical read
    # capability; a KVADDR root needs KVADDR reads or the temporary direct map that phys_base + _stext give
    root_as = ("phys" if rootopt in ("kphys", "machphys") else "kv") if (rootopt or have_sym) else None
    d["root_as"] = root_as
    if root_as is None:
        img.root_known = False
        d["osinit_may_fail"] = True
    elif not rcaps & 3:
        img.root_known = False          # KVADDR-only reads: second-level tables are reachable only where a direct map exists
    elif root_as == "phys":
        img.root_known = True
    else:
        img.root_known = bool(rcaps & 4) or (have_pb and have_stext)
    # ---- samples: section / supersection / large-page boundaries inside lowmem, the small-page tail
    for b in (page_offset + MB, page_offset + 16 * MB, (end - 1) & ~(MB - 1), (end - 1) & ~0xffff, page_offset + text_off):
        if page_offset < b < end:
            img.extra_q += [b - 1, b, b + 0xfff, b + 0x1000]
    for a, b in img.ram:
        img.extra_rt += [a, a + 0x1000, b - 0xfff, b, b + 1, (a + b) // 2 & ~3]
    img.extra_rt += [root_pa, phys_off + lowmem - 1, phys_off + lowmem, 0, phys_off - 1 if phys_off else 0, (1 << 32) - 1, 1 << 32, 1 << 36]
    return img


# =========================================================================== histories: one addrxlat_sys_t, several set-ups
class HistoryImg(Img):
    """the images of `stages` are set up one after the other on the SAME addrxlat_sys_t (`reset` replaces memory, symbols and
    the context, not the system); everything the check evaluates is the last stage's"""
    def __init__(self, stages, kind):
        last = stages[-1]
        self.__dict__.update(last.__dict__)
        self.stages = stages
        self.desc = dict(last.desc)
        self.desc["history"] = kind
        self.desc["stages"] = ["%s/%s" % (s.arch, s.os) for s in stages]

    def setup_lines(self):
        L = []
        for i, s in enumerate(self.stages):
            l = s.setup_lines()
            if i:
                assert l[0] == "clr"
                l[0] = "reset"
            L += l
        return L


def strip_for_failure(img, rng):
    """make the set-up of `img` fail: take away what its architecture cannot do without"""
    if img.arch == "x86_64":
        img.syms = [s for s in img.syms if s[1] not in ("cr4", "pgtable_l5_enabled", "_stext")]
        img.opts.pop("virt_bits", None); img.opts.pop("ver", None)
        if img.os == "xen":
            img.opts["virt_bits"] = 50                     # "Unsupported virtual address size"
    elif img.arch == "aarch64":
        img.opts.pop("page_shift", None)
    elif img.arch == "riscv64":
        img.syms = [s for s in img.syms if s[1] != "VA_BITS"]
        img.opts["virt_bits"] = 40
    elif img.arch == "arm":
        img.syms = [s for s in img.syms if s[1] != "swapper_pg_dir"]
        img.opts.pop("rootpgt", None)
    else:
        img.opts["phys_bits"] = 40
    return img


HISTORY_KINDS = ["xen->linux", "linux->xen", "xenxlat->bare", "5level->4level", "4level->5level", "arch->arch", "arch->arch",
                 "failed->good", "same-twice", "three"]


def gen_history(rng, force=None):
    """history class "the same addrxlat_sys_t initialised more than once": after the LAST addrxlat_sys_os_init the property must
    hold exactly as for a fresh system.  force: kind, first / last = (generator name, force dict)"""
    import random
    f = dict(force or {})
    kind = f.get("kind", pick(rng, HISTORY_KINDS))
    gens = ["gen_x86_64_linux", "gen_x86_64_xen", "gen_ia32_linux", "gen_riscv64_linux", "gen_aarch64_linux", "gen_arm_linux"]
    def mk(name, frc=None):
        return globals()[name](random.Random(rng.getrandbits(48)), force=dict(frc) if frc else None)
    if "first" in f or "last" in f:
        stages = [mk(*f[k]) for k in ("first", "middle", "last") if k in f]
    elif kind == "xen->linux":
        stages = [mk("gen_x86_64_xen"), mk("gen_x86_64_linux", dict(levels=4))]
    elif kind == "linux->xen":
        stages = [mk("gen_x86_64_linux"), mk("gen_x86_64_xen")]
    elif kind == "xenxlat->bare":
        a = mk("gen_x86_64_linux", dict(levels=4, xen_xlat0=False))
        a.opts["xen_xlat"] = 1
        if rng.random() < 0.7:
            a.opts["xen_p2m_mfn"] = rng.randrange(1, 1 << 20)
        stages = [a, mk(pick(rng, ["gen_x86_64_linux", "gen_x86_64_linux", "gen_x86_64_xen", "gen_ia32_linux", "gen_arm_linux"]))]
    elif kind == "5level->4level":
        stages = [mk("gen_x86_64_linux", dict(levels=5)), mk("gen_x86_64_linux", dict(levels=4))]
    elif kind == "4level->5level":
        stages = [mk("gen_x86_64_linux", dict(levels=4)), mk("gen_x86_64_linux", dict(levels=5))]
    elif kind == "failed->good":
        stages = [strip_for_failure(mk(pick(rng, gens)), rng), mk(pick(rng, gens))]
    elif kind == "same-twice":
        g, s = pick(rng, gens), rng.getrandbits(48)
        stages = [globals()[g](random.Random(s)), globals()[g](random.Random(s))]
    elif kind == "three":
        stages = [mk(pick(rng, gens)), mk(pick(rng, gens)), mk(pick(rng, gens))]
    else:
        a = pick(rng, gens)
        stages = [mk(a), mk(pick(rng, [g for g in gens if g != a]))]
    if f.get("fail_first"):
        strip_for_failure(stages[0], rng)
    return HistoryImg(stages, kind)
