"""C15 — every path gives back what it took: memory, pins and descriptors.

Three kinds of evidence, all on the real library built from the working tree:

 (1) PROPERTY on the implementation (harness/s_res.c, `> S` lines): after every
     API call  refsum(page cache) + refsum(mmap cache) + refsum(read cache)
     == pages lent to the addrxlat read caches,  no blob stays pinned by the
     library, the application's descriptors are neither closed, repositioned
     nor read; after everything has been freed (in random order) the library
     holds no heap block and no mapping (allocation counter + LeakSanitizer);
     a sanitizer abort is a violation of the operation that triggered it.
     The ledger semantics of the Lean model (`M check`) is run over the
     intercepted cache/allocator trace of every call: nothing is given back
     that is not held, and what stays held equals the change of the reference
     sums read from the live `struct cache`s.
 (2) CORRESPONDENCE: on forced paths of the modelled functions (diskdump read
     path: fcache_get*/pread/get_chunk/put_chunk, diskdump_read_page,
     cache_get_page, read_locked, addrxlat_get_page/put_page) the model's
     event trace is compared with the intercepted one; fault points (n-th
     pread / mmap / malloc) are enumerated from a fault-free dry run.
 (3) THEOREMS (Kdf.Props.C15): each modelled function is balanced on every path.
"""
import base64, json, os, re, struct, zlib
import kdf, dumpgen

THEOREMS = ["Kdf.Props.C15." + t for t in (
    "ledger_sound", "ledger_prefix", "runs_frame",
    "fcacheGet_balanced", "fcachePread_balanced", "fcacheGetChunk_balanced", "fcachePutChunk_balanced",
    "chunk_roundtrip", "diskdumpReadPage_balanced", "cacheGetPage_balanced", "diskdumpGetPage_balanced", "readLocked_balanced",
    "addrxlatGetPage_balanced", "addrxlatPage_roundtrip", "session_balanced",
    "fcacheGetFb_balanced", "fcacheGetFb_roundtrip", "xenMapScan_balanced", "getCacheBuf_balanced", "cleanupCache_balanced",
    "ctxAddCb_balanced", "ctxDelCb_balanced", "axSession_balanced", "axSession_delcb_last", "xenMapScan_balanced_fresh",
    "verifyMagic_balanced", "magicLoop_balanced", "derivedRevalidate_balanced", "derivedRevalidate_short")] + [
    # libaddrxlat's read cache under a RE-ENTRANT get-page callback (model Kdf.Model.RCache, shared with C09)
    "Kdf.Props.C09.read_gives_back", "Kdf.Props.C09.filling_slot_never_chosen", "Kdf.Props.C09.filling_slot_untouched",
    "Kdf.Props.C09.filling_marks_restored"]

WRAP = ("-Wl,--wrap=malloc,--wrap=calloc,--wrap=realloc,--wrap=strdup,--wrap=free," +
        ",".join("--wrap=_kdumpfile_priv_cache_" + n for n in ("get_entry", "put_entry", "insert", "discard", "release")))
POLNAME = {0: "never", 1: "always", 2: "try", 3: "tryonce"}
KNOWN = {
    "clone-dict-new-attrs": "attributes created through a clone made with KDUMP_CLONE_XLAT, clone freed before the original",
    "reopen-open-context": "kdump_open_fd() on a context that already has an open dump",
    "realloc-caches-lent": "cache.size changed while a page is lent to the addrxlat read cache",
}


# ------------------------------------------------------------------ dump files
class Dump:
    """a single-file diskdump with hand-made damage; knows its descriptor table"""
    def __init__(self, R, path, ps=4096, npages=14, flattened=False, vmcoreinfo=None, big=False):
        rng = R.rng
        self.path, self.ps, self.flattened = path, ps, flattened
        self.npages = npages
        kinds = ["raw", "zlib", "snappy", "zstd", "lzo", "zlib-stored"]
        self.excluded = set(p for p in range(1, npages) if rng.random() < 0.12)
        self.stored = [p for p in range(npages) if p not in self.excluded]
        self.methods = {p: rng.choice(kinds) for p in self.stored}
        self.methods[self.stored[0]] = "raw"
        self.maxpfn = npages + 2          # two frames of RAM beyond the last descriptor: excluded
        plain = path + ".plain" if flattened else path
        info = dumpgen.write_diskdump(plain, self.stored, ps=ps, max_mapnr=self.maxpfn, ram=range(self.maxpfn),
                                      methods=self.methods, vmcoreinfo=vmcoreinfo)
        self.pdoff = info["pdoff"]
        img = bytearray(open(plain, "rb").read())
        self.desc = {}
        self.dec = {}
        for i, p in enumerate(self.stored):
            off, size, flags, _ = struct.unpack_from("<QIIQ", img, self.pdoff + 24 * i)
            self.desc[p] = [self.pdoff + 24 * i, off, size, flags]
            self.dec[p] = 0
        # damage: undecodable data, wrong sizes, unknown flags, data beyond the end of the file
        self.damage = {}
        forced = {}
        if big and len(self.stored) > 4:
            a, b = rng.sample(self.stored[1:], 2)
            forced = {a: "huge", b: "far"}
        for p in self.stored[1:]:
            r = rng.random()
            pd = self.desc[p]
            if forced.get(p) == "huge":
                r = 0.27
            elif forced.get(p) == "far":
                # the page's data lives in the second 4 MiB mapping region of the file (the hole in between is sparse)
                data = bytes(img[pd[1]:pd[1] + pd[2]])
                pd[1] = (4 << 20) + rng.choice([0, 100, 4000, 8000])
                if len(img) < pd[1] + len(data):
                    img += bytes(pd[1] + len(data) - len(img))
                img[pd[1]:pd[1] + len(data)] = data
                self.damage[p] = "far"
                struct.pack_into("<QIIQ", img, pd[0], pd[1], pd[2], pd[3], 0)
                continue
            if r < 0.10 and pd[3] in (1, 4, 0x20):
                for k in range(pd[1], pd[1] + min(pd[2], 64)):
                    img[k] = (img[k] * 7 + 0x5b) & 0xff
                self.dec[p] = 1; self.damage[p] = "garbled"
            elif r < 0.16 and pd[3] == 0:
                pd[2] = ps - rng.choice([1, 8, ps // 2]); self.damage[p] = "rawsize"
            elif r < 0.22 and pd[3] == 0:
                pd[3] = rng.choice([1, 4, 0x20, 2, 0x21, 0x6]); self.dec[p] = 1; self.damage[p] = "rawflagged"
            elif r < 0.26:
                pd[1] = (len(img) + 4095) // 4096 * 4096 + rng.choice([0, 1, 5000]); self.dec[p] = 1; self.damage[p] = "beyond-eof"
            elif r < 0.30 and big:
                pd[3] = 1; pd[2] = 18 * 4096 + rng.randint(0, 4000); self.dec[p] = 1; self.damage[p] = "huge"
            elif r < 0.34:
                pd[3] |= 0x40; self.damage[p] = "unknown-flag"
            if p in self.damage:
                struct.pack_into("<QIIQ", img, pd[0], pd[1], pd[2], pd[3], 0)
                if self.damage[p] == "beyond-eof" and pd[3] == 0:
                    self.dec[p] = 0
        img += bytes(-len(img) % 4096)        # whole host pages: a mapping never ends inside the last page
        open(plain, "wb").write(img)
        self.size = len(img)
        if flattened:
            dumpgen.flatten_file(plain, path, chunk=rng.choice([1500, 3000, 4096, 9000]), order=rng.choice(["fwd", "rev"]))
            self.size = os.path.getsize(path)

    def pg_lines(self):
        out = ["M pgclr"]
        for p in range(self.maxpfn + 2):
            if p in self.desc:
                pd = self.desc[p]
                out.append("M pg %d %d %d %d %d %d" % (p, pd[0], pd[1], pd[2], pd[3], self.dec[p]))
            else:
                out.append("M pg %d - 0 0 0 0" % p)
        return out

    def cfg_line(self, sizes, zeroexcl=0):
        return ("M cfg pgsz=%d mmapsz=%d filesz=%d fce=%d pio=%d embed=%d ps=%d maxpfn=%d zeroexcl=%d lzo=%d snappy=%d zstd=%d"
                % (sizes["pgsz"], sizes["pgsz"] << 10, self.size, sizes["fce"], sizes["pio"], sizes["embed"], self.ps,
                   self.maxpfn, zeroexcl, sizes["lzo"], sizes["snappy"], sizes["zstd"]))


def vmcoreinfo_text(rng, bad=False, pagesize=True):
    lines = ["OSRELEASE=5.4.0-verif", "SYMBOL(swapper_pg_dir)=ffffffff81c0a000",
             "SYMBOL(init_uts_ns)=ffffffff81c15480", "SIZE(list_head)=16", "OFFSET(list_head.next)=0",
             "LENGTH(mem_section)=2048", "NUMBER(phys_base)=0", "CRASHTIME=1234567"]
    if pagesize:
        lines.append("PAGESIZE=4096")      # re-allocates the page cache (known finding realloc-caches-lent when pages are lent)
    rng.shuffle(lines)
    if bad:
        lines.insert(rng.randrange(len(lines) + 1), rng.choice(["PAGESIZE=3000", "PAGESIZE=12345", "PAGESIZE=4097"]))
    return ("\n".join(lines) + "\n").encode()


# ------------------------------------------------------------------- scenarios
class Scn:
    """one harness conversation: list of (line, traced?, meta)"""
    def __init__(self, kind, dump=None):
        self.kind, self.dump = kind, dump
        self.ops = []           # dict(line=, traced=, model=None|tuple, key=None)
        self.known_key = None
    def add(self, line, traced=False, model=None):
        self.ops.append(dict(line=line, traced=traced, model=model))
    def text(self):
        return "".join(("" if o["line"].startswith("fail ") else "T ") + o["line"] + "\n" for o in self.ops)


def trace_scenario(R, D, fault=None, plan=None):
    """fresh context on dump D, warm-up reads, then traced calls of the modelled path.
    plan: the random choices (so that the faulted rerun repeats the dry run)"""
    rng = R.rng
    if plan is None:
        plan = dict(pol=rng.choice([0, 0, 0, 1, 2, 2, 3]), cache=rng.choice([None, None, 2, 3]),
                    warm=[], calls=[], nomap=rng.random() < 0.2, zeroexcl=int(rng.random() < 0.3))
        ps = D.ps
        top = D.maxpfn + 1
        for _ in range(rng.choice([0, 1, 3, 6, 10])):
            plan["warm"].append((rng.randrange(top) * ps, rng.choice([8, ps])))
        if plan["cache"] and rng.random() < 0.5:
            # pin every page-cache entry through get_page, so that the next lookup finds the cache fully utilised
            good = [q for q in D.stored if q not in D.damage and D.methods[q] in ("raw", "zlib", "zlib-stored")]
            for q in good[:plan["cache"]]:
                plan["calls"].append(("getpage", q * ps, False))
        special = sorted(D.damage) + [q for q in D.stored if D.methods[q] == "lzo"] + sorted(D.excluded) + [D.maxpfn, D.maxpfn + 1]
        for _ in range(rng.choice([1, 2, 3])):
            p = rng.choice(special) if rng.random() < 0.5 else rng.randrange(top)
            if rng.random() < 0.3:
                # fcache_get_fb: an object of 8/16/.. bytes at, across or just before a boundary of the file cache's entries
                # (host page for the read cache, 4 MiB for mappings), anywhere else, and beyond the end of the file
                unit = rng.choice([4096, 4096, 4096, 4 << 20]) if D.size > (4 << 20) else 4096
                bnd = rng.randrange(1, max(2, min(D.size, 8 << 20) // unit + 1)) * unit
                sz = rng.choice([8, 16, 16, 24, 512])
                pos = rng.choice([bnd - sz + rng.randrange(1, sz), bnd - sz, bnd - 1, bnd, rng.randrange(D.size), D.size - sz,
                                  D.size + rng.randrange(4096)])
                if pos < D.size < pos + sz:
                    pos = D.size - sz      # an object across the end of the file: the model does not clamp a mapping's length at EOF
                plan["calls"].append(("fb", max(pos, 0), sz))
            elif rng.random() < 0.7:
                off = rng.choice([0, 0, 1, ps - 1, rng.randrange(ps)])
                ln = rng.choice([1, 8, ps - off, ps - off + 1, ps, 2 * ps + 3, rng.randint(1, 3 * ps)])
                plan["calls"].append(("read", p * ps + off, ln))
            else:
                plan["calls"].append(("getpage", p * ps + rng.choice([0, 0, 5, ps - 1]), rng.random() < 0.8))
    S = Scn("trace", D)
    S.plan, S.fault = plan, fault
    S.add("new 0")
    if plan.get("nomap"):
        S.add("fail mmap 1")            # the first mapping fails: remembered in the mmap cache as MAP_FAILED
    S.add("open 0 0 1 %s" % D.path)
    S.add("setnum 0 file.mmap_policy %d" % plan["pol"])
    if plan["cache"]:
        S.add("setnum 0 cache.size %d" % plan["cache"])
    if plan.get("zeroexcl"):
        S.add("setnum 0 file.zero_excluded 1")      # excluded frames read as zeroes, through the page cache
    need_ax = any(c[0] == "getpage" for c in plan["calls"])
    if need_ax:
        S.add("setnum 0 addrxlat.default.virt_bits 48")
        S.add("read 0 1 0 8")
        S.add("ax 0 2 3")
    for a, n in plan["warm"]:
        S.add("read 0 1 %d %d" % (a, n))
    for ci, c in enumerate(plan["calls"]):
        S.add("get 0 file.mmap_policy")
        if fault and fault[0] == ci:
            S.add("fail %s %d" % (fault[1], fault[2]))
        if c[0] == "read":
            S.add("read 0 1 %d %d" % (c[1], c[2]), traced=True, model=("read", 1, c[1], c[2]))
        elif c[0] == "fb":
            S.add("fb 0 %d %d" % (c[1], c[2]), traced=True, model=("fb", c[1], c[2]))
        else:
            S.add("getpage 2 1 %d %d" % (c[1], 4 + ci), traced=True, model=("getpage", 1, c[1]))
            if c[2]:
                S.add("drop %d" % (4 + ci), traced=True, model=("putpage", 1, c[1]))
    for ci, c in enumerate(plan["calls"]):
        if c[0] == "getpage" and not c[2]:
            S.add("drop %d" % (4 + ci), traced=True, model=("putpage", 1, c[1]))     # pages kept until the end
    if need_ax:
        S.add("drop 2"); S.add("drop 3")
    S.add("free 0")
    S.add("closefds 0")
    return S


def ax_scenario(R, D):
    """the read cache of the dump's translation context (libaddrxlat get_cache_buf/cleanup_cache) and application callback
    records stacked on the library's record: reads through the cache (hits, evictions, failing pages, failing allocations),
    records added and removed in any order, the dump context freed while records and cached pages are still there"""
    rng = R.rng
    ps = D.ps
    top = D.maxpfn + 1
    S = Scn("trace", D)
    S.plan = dict(zeroexcl=int(rng.random() < 0.3)); S.fault = None
    pol = rng.choice([0, 0, 0, 1, 2, 2, 3])
    S.add("new 0")
    S.add("open 0 0 1 %s" % D.path)
    S.add("setnum 0 file.mmap_policy %d" % pol)
    cache = rng.choice([None, None, 2, 3, 5])
    if cache:
        S.add("setnum 0 cache.size %d" % cache)
    if S.plan["zeroexcl"]:
        S.add("setnum 0 file.zero_excluded 1")
    S.add("setnum 0 addrxlat.default.virt_bits 48")
    S.add("read 0 1 0 8")
    S.add("ax 0 2 3")
    S.add("axstate 2", model=("axinit",))
    good = [q for q in D.stored if q not in D.damage and D.methods[q] in ("raw", "zlib", "zlib-stored")]
    pool = rng.sample(good, min(len(good), rng.choice([2, 5, 7]))) + rng.sample(range(top + 1), 2)
    cbs = []          # (slot, id), in order of creation
    nid = 1
    freed = False
    def polq():
        if not freed:
            S.add("get 0 file.mmap_policy")
    for _ in range(rng.choice([4, 8, 14, 20])):
        r = rng.random()
        if r < 0.55:
            a = rng.choice(pool) * ps + rng.choice([0, 8, ps - 8, rng.randrange(ps // 8) * 8])
            polq()
            if rng.random() < 0.12:
                S.add("fail %s 1" % rng.choice(["malloc", "pread", "mmap"]))
            S.add("axread 2 1 %d" % a, traced=True, model=("axread", 1, a))
        elif r < 0.72 and len(cbs) < 3:
            polq()
            if rng.random() < 0.1:
                S.add("fail malloc 1")
                S.add("addcb 2 %d" % (4 + nid), traced=True, model=("addcb", nid))
            else:
                S.add("addcb 2 %d" % (4 + nid), traced=True, model=("addcb", nid))
                cbs.append((4 + nid, nid))
            nid += 1
        elif r < 0.85 and cbs:
            slot, i = cbs.pop(rng.randrange(len(cbs)))          # not necessarily the top one
            polq()
            S.add("delcb %d" % slot, traced=True, model=("delcb", i))
        elif r < 0.95:
            polq()
            a = rng.randrange(top) * ps + rng.choice([0, 1, ps - 1])
            n = rng.choice([1, 8, ps + 1])
            S.add("read 0 1 %d %d" % (a, n), traced=True, model=("read", 1, a, n))
    # the end: the dump goes away first (records and cached pages still in place) or last
    if rng.random() < 0.7:
        polq()
        S.add("free 0", traced=True, model=("freectx",)); freed = True
        rng.shuffle(cbs)
        for slot, i in cbs:
            S.add("delcb %d" % slot, traced=True, model=("delcb", i))
        S.add("drop 2"); S.add("drop 3")
    else:
        tail = [("delcb %d" % slot, ("delcb", i)) for slot, i in cbs] + [("drop 3", None)]
        rng.shuffle(tail)
        for l, m in tail:
            polq()
            S.add(l, traced=True, model=m)
        polq()
        S.add("free 0", traced=True, model=("freectx",)); freed = True
        S.add("drop 2")
    S.add("closefds 0")
    return S


def api_scenario(R, dumps, elfs, n_ops):
    """random walk over the public API with every error exit we can force"""
    rng = R.rng
    S = Scn("api")
    ctx = {}          # slot -> dict(set=, dump=)
    objs = {}         # slot -> type
    sets = {}
    nset = [0]
    def free_obj():
        for o in range(16):
            if o not in objs:
                return o
        return None
    def new_ctx(c):
        D = rng.choice(dumps + elfs)
        S.add("new %d" % c)
        if rng.random() < 0.2:
            S.add("fail mmap 1")
        s = nset[0]; nset[0] += 1
        if rng.random() < 0.25:
            S.add("setnum %d file.mmap_policy %d" % (c, rng.choice([0, 0, 2, 3])))       # in force while the file is opened
        if rng.random() < 0.12:
            # a failed open first, then the real one on the same context
            S.add("open %d %d 1 %s" % (c, s, rng.choice(R.badfiles))); sets[s] = 1
            s = nset[0]; nset[0] += 1
        S.add("open %d %d 1 %s" % (c, s, D.path)); sets[s] = 1
        ctx[c] = dict(dump=D, ax=False)
        if rng.random() < 0.6:
            S.add("setnum %d file.mmap_policy %d" % (c, rng.choice([0, 0, 1, 2, 3])))
        if rng.random() < 0.3:
            S.add("setnum %d cache.size %d" % (c, rng.choice([1, 2, 4, 9])))
    new_ctx(0)
    dictclone = [False]       # a clone with its own dictionary exists: only reads, gets, clones, frees from now on
    for _ in range(n_ops):
        live = sorted(ctx)
        if not live:
            new_ctx(0); continue
        c = rng.choice(live); D = ctx[c]["dump"]; ps = D.ps
        r = rng.random()
        if dictclone[0] and (0.46 <= r < 0.64 or (0.70 <= r < 0.80 and not ctx[c]["ax"])):
            r = rng.choice([0.1, 0.4, 0.92])
        top = getattr(D, "maxpfn", 40) + 2
        if r < 0.30:
            a = rng.randrange(top) * ps + rng.choice([0, 0, 1, ps - 1, rng.randrange(ps)])
            if rng.random() < 0.25: S.add("fail %s %d" % (rng.choice(["pread", "malloc", "mmap"]), rng.randint(1, 4)))
            S.add("read %d %d %d %d" % (c, rng.choice([1, 1, 1, 0, 2]), a, rng.choice([1, 8, ps, ps + 1, 3 * ps])), traced=True)
        elif r < 0.36:
            S.add("str %d 1 %d" % (c, rng.randrange(top) * ps + rng.randrange(ps)), traced=True)
        elif r < 0.46:
            key = rng.choice(["memory.pagemap", "file.pagemap", "linux.vmcoreinfo.raw", "file.format", "arch.page_size",
                              "cache.size", "linux.uts.release", "no.such.key", "file.set", "addrxlat.default", "cpu.0.reg"])
            o = free_obj()
            if o is not None and key in ("memory.pagemap", "file.pagemap", "linux.vmcoreinfo.raw") and rng.random() < 0.7:
                S.add("get %d %s %d" % (c, key, o), traced=True)
                objs[o] = "bmp" if "pagemap" in key else "blob"
                ctx[c].setdefault("maybe", []).append(o)
            else:
                S.add("get %d %s" % (c, key), traced=True)
        elif r < 0.54:
            # type mismatches, out-of-range values, read-only attributes
            S.add(rng.choice(["setstr %d cache.size big", "setnum %d file.format 3", "setstr %d arch.page_size x",
                              "setnum %d arch.page_size 3000", "setnum %d cache.size 4294967296", "setaddr %d cache.size 7",
                              "setnum %d no.such.key 1", "clear %d cache.size", "setnum %d file.zero_excluded 1",
                              "setnum %d file.zero_excluded 0", "setstr %d addrxlat.ostype linux", "setstr %d addrxlat.ostype nonsense",
                              "setstr %d arch.name x86_64", "setstr %d arch.name pdp11"]) % c)
        elif r < 0.60:
            o = free_obj() if rng.random() < 0.5 else None
            txt = vmcoreinfo_text(rng, bad=rng.random() < 0.6, pagesize=not any(x["ax"] for x in ctx.values())).hex()
            if o is not None:
                S.add("setblob %d linux.vmcoreinfo.raw %s %d" % (c, txt, o)); objs[o] = "blob"
            else:
                S.add("setblob %d linux.vmcoreinfo.raw %s" % (c, txt))
        elif r < 0.64:
            S.add(rng.choice(["vmci %d raw x", "vmci %d line OSRELEASE", "vmci %d line NOSUCH", "vmci %d sym swapper_pg_dir",
                              "vmci %d sym nosuch"]) % c)
        elif r < 0.70 and len(ctx) < 4:
            c2 = min(set(range(8)) - set(ctx))
            fl = rng.choice([0, 0, 1])
            S.add("clone %d %d %d" % (c2, c, fl))
            ctx[c2] = dict(dump=D, ax=False)
            if fl:
                dictclone[0] = True
        elif r < 0.80:
            if not ctx[c]["ax"]:
                o1 = free_obj()
                if o1 is not None:
                    objs[o1] = "pending"
                    o2 = free_obj()
                    if o2 is None:
                        del objs[o1]
                    else:
                        S.add("setnum %d addrxlat.default.virt_bits 48" % c)
                        S.add("read %d 1 0 8" % c)
                        S.add("ax %d %d %d" % (c, o1, o2))
                        objs[o1] = "axctx"; objs[o2] = "axsys"; ctx[c]["ax"] = (o1, o2)
                        w = rng.choice([4, 8])
                        S.add("memarr %d 1 %d 12 %d %d" % (o2, rng.randrange(top) * ps, w, w))
            else:
                o1, o2 = ctx[c]["ax"]
                k = rng.random()
                if k < 0.5:
                    S.add("read %d 2 %d %d" % (c, rng.randrange(64) * ps + rng.randrange(ps), rng.choice([1, 8, ps + 3])), traced=True)
                elif k < 0.7:
                    S.add("xop %d %d %d %d %d" % (o1, o2, rng.choice([0, 1, 2]), rng.randrange(64) * ps, rng.choice([1, 2, 3])), traced=True)
                elif k < 0.76:
                    S.add("axread %d 1 %d" % (o1, rng.randrange(top) * ps + 8 * rng.randrange(ps // 8)), traced=True)
                elif k < 0.82:
                    o = free_obj()
                    if o is not None and sum(t == "cb" for t in objs.values()) < 4:
                        S.add("addcb %d %d" % (o1, o)); objs[o] = "cb"
                elif k < 0.85:
                    S.add("samemap %d %d" % (o2, rng.randrange(5)))
                else:
                    S.add("samemeth %d %d" % (o2, rng.randrange(10)))
        elif r < 0.90 and objs:
            o = rng.choice(sorted(objs)); t = objs[o]
            if t == "bmp":
                S.add(rng.choice(["bits %d %d %d" % (o, 3, 3 + rng.randrange(60)), "fset %d %d" % (o, rng.randrange(80)),
                                  "fclr %d %d" % (o, rng.randrange(80))]))
            elif t == "cb" and rng.random() < 0.5:
                S.add("delcb %d" % o); del objs[o]
            elif t == "blob":
                S.add(rng.choice(["pin %d" % o, "unpin %d" % o, "bset %d %s" % (o, vmcoreinfo_text(rng, True, pagesize=False).hex()), "pin %d" % o]))
        elif r < 0.95 and len(ctx) > 1:
            S.add("free %d" % c); del ctx[c]
        else:
            droppable = [o for o in objs if objs[o] in ("bmp", "blob")]
            if droppable:
                o = rng.choice(droppable)
                S.add("drop %d" % o); del objs[o]
    # give everything back, in random order
    tail = [("free %d" % c) for c in ctx] + [("drop %d" % o) for o in objs]
    rng.shuffle(tail)
    for t in tail:
        S.add(t)
    for s in sorted(sets):
        S.add("closefds %d" % s)
    return S


def directed_scenarios(R, dumps):
    """fixed shapes that must be exercised on every run, whatever the seed"""
    rng = R.rng
    out = []
    D = dumps[0]; ps = D.ps
    # translation objects: re-install the installed map / method at every index, use them, drop in both orders
    for order in (0, 1):
        S = Scn("api", D)
        for l in ("new 0", "open 0 0 1 %s" % D.path, "setnum 0 addrxlat.default.virt_bits 48", "read 0 1 0 8", "ax 0 2 3",
                  "memarr 3 1 0 12 8 8", "read 0 2 %d 8" % ps):
            S.add(l)
        for idx in range(5):
            S.add("samemap 3 %d" % idx)
            S.add("xop 2 3 2 %d 3" % (idx * ps))
        for idx in range(10):
            S.add("samemeth 3 %d" % idx)
        S.add("read 0 2 0 8"); S.add("samemap 3 1"); S.add("read 0 2 %d 8" % (3 * ps))
        for l in (("drop 2", "drop 3", "free 0") if order == 0 else ("free 0", "xop 2 3 2 0 3", "samemap 3 1", "drop 3", "drop 2")):
            S.add(l)
        S.add("closefds 0")
        out.append(S)
    # VMCOREINFO with a rejected line at every position, blob kept by the application
    base = ["OSRELEASE=5.4.0-verif", "SYMBOL(swapper_pg_dir)=ffffffff81c0a000", "CRASHTIME=1234567"]
    for pos in range(len(base) + 1):
        for bad in ("PAGESIZE=3000",):
            lines = base[:pos] + [bad] + base[pos:]
            S = Scn("api", D)
            S.add("new 0"); S.add("open 0 0 1 %s" % D.path)
            S.add("setblob 0 linux.vmcoreinfo.raw %s 1" % ("\n".join(lines) + "\n").encode().hex())
            S.add("bset 1 %s" % b"OSRELEASE=x\n".hex())
            S.add("vmci 0 line OSRELEASE"); S.add("get 0 linux.vmcoreinfo.raw 2"); S.add("pin 2"); S.add("free 0"); S.add("pin 1")
            S.add("drop 1"); S.add("drop 2"); S.add("closefds 0")
            out.append(S)
    # every damaged or unsupported page of every dump, twenty times over with the read cache only, then an intact page
    for D in dumps[:3]:
        S = Scn("api", D)
        S.add("new 0"); S.add("open 0 0 1 %s" % D.path); S.add("setnum 0 file.mmap_policy 0")
        bad = [p for p in D.stored if D.dec[p] or D.methods[p] == "lzo" or p in D.damage] + sorted(D.excluded)[:2] + [D.maxpfn + 1]
        for rep in range(20):
            for p in bad:
                S.add("read 0 1 %d 8" % (p * D.ps))
        S.add("read 0 1 0 8")
        S.add("free 0"); S.add("closefds 0")
        out.append(S)
    # bitmaps and blobs outlive their contexts; clones freed in every order
    D = dumps[0]
    for perm in ((0, 1, 2), (2, 1, 0), (1, 0, 2), (1, 2, 0)):
        S = Scn("api", D)
        for l in ("new 0", "open 0 0 1 %s" % D.path, "clone 1 0 0", "clone 2 1 1", "get 0 memory.pagemap 0", "get 1 file.pagemap 1",
                  "get 2 memory.pagemap 2", "read 2 1 0 8", "read 1 1 %d 8" % D.ps):
            S.add(l)
        for c in perm:
            S.add("free %d" % c); S.add("bits 0 0 20"); S.add("fset 1 3"); S.add("fclr 2 0")
        for o in (2, 0, 1):
            S.add("drop %d" % o)
        S.add("closefds 0")
        out.append(S)
    return out


X64_PRSTATUS_REGS = ["r15", "r14", "r13", "r12", "rbp", "rbx", "r11", "r10", "r9", "r8", "rax", "rcx", "rdx", "rsi", "rdi", "orig_rax", "rip",
                     "cs", "rflags", "rsp", "ss", "fs_base", "gs_base", "ds", "es", "fs", "gs"]       # struct elf_prstatus: pr_reg at 112


def derived_scenarios(R, n):
    """attributes derived from a raw note blob (cpu.N.reg.*, cpu.N.pid over cpu.N.PRSTATUS / cpu.N.XEN_PRSTATUS) while the
    application holds that blob and edits it: notes of a wrong size are refused when the file is opened, so a register read
    that meets a blob shorter than the register's offset+length, an empty one, a cleared or replaced one needs a history.
    Every error exit of the extraction must drop the pin it took (bpin of the `> S` line).  For the ELF PRSTATUS layout the
    generator keeps its own account of the blob the attribute holds (size, application pins) and attaches to each read the
    triple (size | None, offset, length) that the model (lean/Kdf/Model/BlobPin.lean) is asked about."""
    rng = R.rng
    vm = b"OSRELEASE=5.4.0-verif\nPAGESIZE=4096\n"
    pe = R.path("c15-prstatus.elf")
    dumpgen.write_elf(pe, [dict(pfn=1, npages=2, voff=0xffff880000000000)],
                      notes=dumpgen.elf_note(b"CORE", 1, dumpgen.prstatus_x86_64(1)) + dumpgen.elf_note(b"CORE", 1, dumpgen.prstatus_x86_64(2)) +
                      dumpgen.elf_note(b"VMCOREINFO", 0, vm))
    px = R.path("c15-xenprstatus.elf"); dumpgen.write_elf_sections(px)
    kinds = [(pe, "PRSTATUS", 336, ["rip", "rsp", "rax", "r15", "rbp", "cs", "fs_base", "eflags"], 2, True),
             (px, "XEN_PRSTATUS", 5168, ["cr3", "cr0", "cs", "dr0", "rip", "rsp", "rax"], 1, False)]
    out = []
    for k in range(n):
        path, bk, full, regs, ncpu, haspid = kinds[k % 2] if k < 4 else rng.choice(kinds)
        S = Scn("api")
        S.add("new 0"); S.add("open 0 0 1 %s" % path)
        objs = {}                                   # harness object slot -> blob id
        size = {c: full for c in range(ncpu)}       # blob id -> size
        attr = {c: c for c in range(ncpu)}          # cpu -> blob id of cpu.N.<bk> (None: cleared)
        mypins = {}                                 # object slot -> pins the application took through it
        nid = [ncpu]
        def pinned(b):
            return sum(p for o, p in mypins.items() if objs.get(o) == b)
        def blobbytes(ln):
            return bytes(rng.getrandbits(8) for _ in range(ln)).hex() or "-"
        def somelen():
            return rng.choice([0, 1, 8, 31, 32, 35, 36, 111, 112, 119, 120, full - 8, full - 1, full, full + 8, rng.randrange(full + 1)])
        def rd(cpu, reg=None):
            reg = reg or ("pid" if haspid and rng.random() < 0.25 else rng.choice(regs))
            S.add("get 0 cpu.%d.%s" % (cpu, "pid" if reg == "pid" else "reg." + reg), traced=True)
            if bk == "PRSTATUS" and (reg == "pid" or reg in X64_PRSTATUS_REGS):
                off, ln = (32, 4) if reg == "pid" else (112 + 8 * X64_PRSTATUS_REGS.index(reg), 8)
                S.ops[-1]["derived"] = (None if attr[cpu] is None else size[attr[cpu]], off, ln)
        def hold(cpu, o):
            S.add("get 0 cpu.%d.%s %d" % (cpu, bk, o))
            if attr[cpu] is not None:               # (no object is kept when the get fails)
                objs[o] = attr[cpu]; mypins[o] = 0
        def bset(o, ln):
            S.add("bset %d %s" % (o, blobbytes(ln)))
            if not pinned(objs[o]):                 # a pinned blob refuses new data (KDUMP_ERR_BUSY)
                size[objs[o]] = ln
        # the directed core first (k < 4): hold the blob, shorten it, read every kind of derived value, then the random walk
        if k < 4:
            hold(0, 0)
            bset(0, [1, 31, 113, 0][k])
            for r in regs[:3]:
                rd(0, r)
            if haspid:
                rd(0, "pid")
            bset(0, full); rd(0, regs[0])
        for _ in range(rng.randint(8, 30)):
            r = rng.random(); cpu = rng.randrange(ncpu)
            free = [o for o in range(6) if o not in objs]
            if r < 0.30:
                rd(cpu)
            elif r < 0.42 and free:
                hold(cpu, free[0])
            elif r < 0.62 and objs:
                o = rng.choice(sorted(objs))
                bset(o, somelen())
                rd(rng.choice([c for c in attr if attr[c] == objs[o]] or [cpu]))
            elif r < 0.72:
                ln = somelen(); b = nid[0]; nid[0] += 1
                if free and rng.random() < 0.5:
                    S.add("setblob 0 cpu.%d.%s %s %d" % (cpu, bk, blobbytes(ln), free[0])); objs[free[0]] = b; mypins[free[0]] = 0
                else:
                    S.add("setblob 0 cpu.%d.%s %s" % (cpu, bk, blobbytes(ln)))
                size[b] = ln; attr[cpu] = b
                rd(cpu)
            elif r < 0.78:
                S.add("clear 0 cpu.%d.%s" % (cpu, bk)); attr[cpu] = None; rd(cpu)
            elif r < 0.86:
                S.add("setnum 0 cpu.%d.reg.%s %d" % (cpu, rng.choice(regs), rng.getrandbits(rng.choice([8, 32, 64]))))
            elif r < 0.94 and objs:
                o = rng.choice(sorted(objs))
                if rng.random() < 0.5:
                    S.add("pin %d" % o); mypins[o] += 1
                else:
                    S.add("unpin %d" % o); mypins[o] = max(0, mypins[o] - 1)
            elif objs:
                o = rng.choice(sorted(objs)); S.add("drop %d" % o); del objs[o]; mypins.pop(o, None)
        tail = ["free 0"] + ["drop %d" % o for o in objs]
        rng.shuffle(tail)
        for t in tail:
            S.add(t)
        S.add("closefds 0")
        out.append(S)
    return out


def directed_xen_cb(R, dumps, xcs):
    """fixed shapes for fcache_get_fb's bounce-buffer path and for callback records that outlive the dump"""
    out = []
    # a Xen core with a misaligned table, opened with every mmap policy and with a failing first mapping
    for x in xcs:
        for pol, nomap in ((0, False), (2, True), (3, True), (2, False)):
            S = Scn("api", x)
            S.add("new 0"); S.add("setnum 0 file.mmap_policy %d" % pol)
            if nomap:
                S.add("fail mmap 1")
            S.add("open 0 0 1 %s" % x.path)
            S.add("read 0 1 0 8"); S.add("get 0 memory.pagemap 1"); S.add("fset 1 0")
            S.add("free 0"); S.add("drop 1"); S.add("closefds 0")
            out.append(S)
    # an application record (that overrides nothing) on top of the library's; pages cached through both; then the dump
    # is freed first / the record is removed first / a second record is removed from under the first
    D = dumps[0]; ps = D.ps
    for shape in range(4):
        S = Scn("api", D)
        for l in ("new 0", "open 0 0 1 %s" % D.path, "setnum 0 addrxlat.default.virt_bits 48", "read 0 1 0 8", "ax 0 2 3",
                  "memarr 3 1 0 12 8 8", "addcb 2 4"):
            S.add(l)
        if shape >= 2:
            S.add("addcb 2 5")
        S.add("read 0 2 %d 8" % ps); S.add("axread 2 1 %d" % (D.stored[0] * ps))
        if shape == 0:
            tail = ("free 0", "axread 2 1 0", "delcb 4", "drop 2", "drop 3")
        elif shape == 1:
            tail = ("delcb 4", "axread 2 1 0", "free 0", "drop 3", "drop 2")
        elif shape == 2:
            tail = ("delcb 4", "axread 2 1 0", "free 0", "axread 2 1 0", "drop 2", "drop 5", "drop 3")
        else:
            tail = ("free 0", "delcb 4", "drop 3", "drop 2", "drop 5")
        for l in tail:
            S.add(l)
        S.add("closefds 0")
        out.append(S)
    return out


def directed_formats(R, files):
    """every format: open, revalidate both page maps (bits, find set/clear), read, free -- under the leak checker"""
    out = []
    for f in files:
        for keep in (0, 1):
            S = Scn("api", f)
            S.add("new 0"); S.add("open 0 0 1 %s" % f.path)
            S.add("get 0 memory.pagemap 1"); S.add("get 0 file.pagemap 2")
            for l in ("bits 1 0 20", "fset 1 0", "fclr 1 0", "bits 2 0 20", "fset 2 0", "fclr 2 0", "read 0 1 0 8", "read 0 1 %d 16" % (5 * f.ps),
                      "get 0 max_pfn", "get 0 file.format"):
                S.add(l)
            for l in (("drop 1", "drop 2", "free 0") if keep == 0 else ("free 0", "bits 1 0 20", "fset 2 0", "drop 2", "drop 1")):
                S.add(l)
            S.add("closefds 0")
            out.append(S)
    # translation set up on a context that has no dump yet (arch.name given by the application), then used
    for arch in ("x86_64", "aarch64", "s390x", "ppc64", "ia32"):
        S = Scn("api")
        S.add("new 0"); S.add("setstr 0 arch.name %s" % arch); S.add("setnum 0 addrxlat.default.virt_bits 48")
        S.add("setnum 0 addrxlat.default.pagesize 4096")
        for l in ("ax 0 1 2", "read 0 2 4096 8", "axread 1 1 4096", "getpage 1 1 4096 3", "xop 1 2 2 4096 3", "get 0 memory.pagemap", "drop 3", "drop 1", "drop 2", "free 0"):
            S.add(l)
        out.append(S)
    return out


def truncated_files(R):
    """Dump files that END inside or right behind the structures a probe scans: every format's writer reports the offsets
    where its structures begin and end (`bounds`); a file is cut at such an offset, a few bytes before or after it, and at
    the host-page boundaries around it (the units of the file cache).  Returns [(object with .path/.ps/.maxpfn, kind, cut)]."""
    rng = R.rng
    quick = R.tier == "quick"
    bases = []
    def add(nm, info):
        bases.append((nm, R.path("c15-tr-" + nm), info))
    for kind in ("single", "diskset", "media"):
        for bs in ((4096,) if quick else (4096, 8192, 512)):
            nm = "sadump-%s-%d" % (kind, bs)
            add(nm, dumpgen.c03_write_sadump(R.path("c15-tr-" + nm), [1, 2, 5], kind=kind, max_mapnr=16, ram=[0, 1, 2, 3, 5, 6], block_size=bs))
    add("lkcd", dumpgen.c03_write_lkcd(R.path("c15-tr-lkcd"), [0, 1, 2, 5, 6], compress=rng.choice([0, 1, 2])))
    add("s390", dumpgen.c03_write_s390(R.path("c15-tr-s390")))
    out = []
    for nm, path, info in bases:
        img = open(path, "rb").read()
        bounds = [b for b in (info or {}).get("bounds", []) if 0 < b <= len(img)] if isinstance(info, dict) else []
        cuts = set()
        for b in bounds:
            cuts.update((b, b - 1, b - 4, b + 1, b + 4, b + 8))
            cuts.update((b // 4096 * 4096, (b + 4095) // 4096 * 4096))
        cuts.update(range(4096, min(len(img), 10 * 4096) + 1, 4096))
        cuts = sorted(c for c in cuts if 0 < c < len(img))
        # every run: the cuts on host-page boundaries (where the next cache entry lies wholly behind the end of the file)
        aligned = [c for c in cuts if c % 4096 == 0]
        rest = [c for c in cuts if c % 4096]
        if quick:
            aligned = aligned[:6] if nm.startswith("sadump") else rng.sample(aligned, min(len(aligned), 2))
            rest = rng.sample(rest, min(len(rest), 4))
        for c in aligned + rest:
            class F: pass
            f = F(); f.path = "%s.cut%d" % (path, c); f.ps = 4096; f.maxpfn = 16
            open(f.path, "wb").write(img[:c])
            out.append((f, nm, c))
    return out


def directed_truncated(R, cutfiles):
    """probe / open of the truncated files under the read(2) path and the mmap path; whatever the outcome, every cache entry
    obtained on the way is given back exactly once (reference sums, ledger over the intercepted cache calls, leak checker)"""
    out = []
    for f, nm, c in cutfiles:
        for pol in ((0, 2) if (R.tier != "quick" or c % 4096 == 0) else (R.rng.choice([0, 2]),)):
            S = Scn("api", f)
            S.trunc = (nm, c, pol)
            S.add("new 0"); S.add("setnum 0 file.mmap_policy %d" % pol)
            S.add("open 0 0 1 %s" % f.path)
            S.add("read 0 1 0 8"); S.add("get 0 file.pagemap 1"); S.add("fset 1 0"); S.add("read 0 1 %d 16" % (5 * f.ps))
            S.add("open 0 1 1 %s" % f.path)          # probing the same file again on the same context
            S.add("free 0"); S.add("drop 1"); S.add("closefds 0"); S.add("closefds 1")
            out.append(S)
    return out


def known_scenarios(R, D):
    out = []
    S = Scn("known", D); S.known_key = "reopen-open-context"
    for l in ("new 0", "open 0 0 1 %s" % D.path, "read 0 1 0 8", "open 0 1 1 %s" % D.path, "read 0 1 0 8", "free 0", "closefds 0", "closefds 1"):
        S.add(l)
    out.append(S)
    S = Scn("known", D); S.known_key = "clone-dict-new-attrs"
    for l in ("new 0", "open 0 0 1 %s" % D.path, "clone 1 0 1", "setblob 1 linux.vmcoreinfo.raw %s" % b"OSRELEASE=5.4.0-verif\n".hex(),
              "free 1", "free 0", "closefds 0"):
        S.add(l)
    out.append(S)
    S = Scn("known", D); S.known_key = "realloc-caches-lent"
    for l in ("new 0", "open 0 0 1 %s" % D.path, "setnum 0 addrxlat.default.virt_bits 48", "read 0 1 0 8", "ax 0 2 3",
              "memarr 3 1 0 12 4 4", "read 0 2 0 8", "setnum 0 cache.size 8", "read 0 2 4096 8", "drop 2", "drop 3", "free 0", "closefds 0"):
        S.add(l)
    out.append(S)
    # the same with a small cache and more distinct pages than its capacity, so that the lent page (the look-up table at
    # page 3) sits in the second half of the entry array when the cache is replaced
    for cs, pre in ((1, (0,)), (2, (0, 1)), (2, (0, 1, 2)), (3, (0, 1, 2, 4))):
        S = Scn("lent-upper", D)
        for l in ["new 0", "open 0 0 1 %s" % D.path, "setnum 0 cache.size %d" % cs, "setnum 0 addrxlat.default.virt_bits 48"] + \
                 ["read 0 1 %d 8" % (D.ps * pg) for pg in pre] + \
                 ["ax 0 2 3", "memarr 3 1 %d 12 4 4" % (3 * D.ps), "read 0 2 0 8", "setnum 0 cache.size 8", "read 0 2 4096 8", "drop 2", "drop 3", "free 0", "closefds 0"]:
            S.add(l)
        out.append(S)
    return out


# ---------------------------------------------------------------- evaluation
SRE = re.compile(r"S (.*) \| pc=(\d+) fc=(\d+) fb=(\d+) lent=(-?\d+) bpin=(-?\d+) fd=(\S+) live=(-?\d+) maps=(-?\d+) app=(\d+)$")


def canon_trace(t):
    """'> T ev ev | result' -> (canonical string, oracle tokens)"""
    body, _, res = t[2:].partition("|")
    evs, orc = [], []
    for tok in body.split():
        ev, _, ann = tok.partition("@")
        evs.append(ev)
        k = ev.split(":")
        if k[0] == "A":
            orc.append(("h" if ann[0] == "h" else "s") + ("F" if ann[0] == "h" and ann[1:] == "0" else ann[1:]))
        elif k[0] == "B":
            orc.append("b")
        elif k[0] == "p":
            orc.append("io1" if k[2] == "ok" else "io0")
        elif k[0] == "m":
            orc.append(("m" + ann) if k[2] == "ok" else "mF")
        elif k[0] == "M":
            orc.append("a1" if k[2] == "ok" else "a0")
    res = res.split()
    if res and res[0] in ("read", "fb"):
        res = res[:3]
    return "T " + "".join(e + " " for e in evs) + "| " + " ".join(res), orc, evs


def run_scenarios(R, exe, scns, leaks=True):
    """-> per scenario: list of (op, S-tuple or None, T-line or None), crash text"""
    results = []
    env = {"ASAN_OPTIONS": "detect_leaks=%d:abort_on_error=0:allocator_may_return_null=1:handle_segv=1" % (1 if leaks else 0)}
    for S in scns:
        rc, out, err = R.run_harness(exe, stdin_text=S.text(), env=env, timeout=120)
        lines = kdf.obs(out)
        sizes = dict((k, int(v)) for k, v in (x.split("=") for x in lines[0].split()[1:])) if lines and lines[0].startswith("sizes") else {}
        R.sizes = sizes or getattr(R, "sizes", {})
        it = iter(lines[1:])
        per = []
        cur = next(it, None)
        for o in S.ops:
            t = None
            if o["line"].startswith("fail "):
                per.append((o, "skip", None)); continue
            if True:
                if cur is not None and cur.startswith("T "):
                    t = cur; cur = next(it, None)
                else:
                    per.append((o, None, None)); break
            if cur is not None and cur.startswith("S "):
                m = SRE.match(cur)
                per.append((o, m.groups() if m else None, t)); cur = next(it, None)
            else:
                per.append((o, None, t)); break
        crash = None
        if rc != 0 or len(per) < len(S.ops) or any(p[1] is None for p in per):
            crash = (err.strip().split("\n") or [""])
            summ = [l for l in crash if l.startswith("SUMMARY")] or [l for l in crash if "ERROR" in l] or crash[:1]
            crash = "rc=%s %s" % (rc, summ[0][:300] if summ else "")
        results.append((S, per, crash, err))
    return results


def evaluate(R, S, per, crash, err):
    """property (1) on one scenario; returns list of (message, op index, key)"""
    fails = []
    prev = None
    for i, (o, st, t) in enumerate(per):
        if st == "skip":
            continue
        if st is None:
            summ = crash or "no answer"
            kind = "sanitizer/abort" if "Sanitizer" in summ or "rc=-" in summ or "rc=1" in summ else "stopped"
            fails.append(("operation '%s' ended the process (%s): %s" % (o["line"][:80], kind, summ), i, S.known_key))
            return fails
        res, pc, fc, fb, lent, bpin, fd, live, maps, app = st
        pc, fc, fb, lent, bpin, live, maps, app = int(pc), int(fc), int(fb), int(lent), int(bpin), int(live), int(maps), int(app)
        if res.endswith("bad-op"):
            raise kdf.CheckBroken("generator produced an operation the harness rejects: %s" % o["line"])
        if pc + fc + fb != lent:
            fails.append(("after '%s' (%s): %d cache entries stay referenced (page cache %d, mmap cache %d, read cache %d) but %d pages are lent "
                          "to addrxlat read caches" % (o["line"][:80], res, pc + fc + fb, pc, fc, fb, lent), i, S.known_key)); break
        if bpin != 0:
            fails.append(("after '%s' (%s): the library still pins a blob (%d pins)" % (o["line"][:80], res, bpin), i, None)); break
        if fd != "ok":
            fails.append(("after '%s' (%s): descriptor handed to the library is %s" % (o["line"][:80], res, fd), i, None)); break
        prev = (pc + fc + fb, live, maps, app)
    else:
        if prev and prev[3] != 0:
            pass        # the application still holds something (shortened replay): the final state says nothing
        elif prev and (prev[1] != 0 or prev[2] != 0 or prev[0] != 0):
            fails.append(("after all contexts and references were dropped the library still holds %d heap block(s), %d mapping(s), %d cache reference(s)"
                          % (prev[1], prev[2], prev[0]), len(per) - 1, S.known_key))
        elif crash:
            lk = [l for l in err.split("\n") if "LeakSanitizer" in l or l.startswith("SUMMARY")]
            fails.append(("process ended abnormally after the last operation: %s %s" % (crash, " ".join(lk)[:300]), len(per) - 1, S.known_key))
    return fails


FILE_RE = re.compile(r"/var/tmp/kdfverif\.\w+/([\w.\-]+)")


def portable(text):
    """(input with @F@/name instead of scratch paths, {name: base64(zlib(file))}) — makes a replay self-contained"""
    files = {}
    for m in FILE_RE.finditer(text):
        if m.group(1) not in files and os.path.exists(m.group(0)):
            files[m.group(1)] = base64.b64encode(zlib.compress(open(m.group(0), "rb").read(), 9)).decode()
    return FILE_RE.sub(lambda m: "@F@/" + m.group(1), text), files


def replay(R, path):
    """python3 tools/check.py C15 --replay replays/C15-xxxx.json : run the recorded conversation on the current tree"""
    d = json.load(open(path))
    if d.get("stream") == "sys":
        from props import c09
        exe = c09.sys_harness(R)
        rc, out, err = R.run_harness(exe, stdin_text=d["input"], timeout=120, env={"ASAN_OPTIONS": "detect_leaks=1:abort_on_error=0"})
        for o in kdf.obs(out):
            print(o)
        bad = reent_lost(kdf.obs(out))
        if "LeakSanitizer" in err:
            print(err[err.index("LeakSanitizer") - 60:][:1500])
        print("replay: %s" % ("property violated (%d buffer(s) never given back)" % bad[1] if bad else "no violation on this tree"))
        return 1 if bad else 0
    if "input" not in d:
        print("replay has no input (proof or correspondence failure): %s" % d.get("what")); return 2
    for name, b in d.get("files", {}).items():
        open(R.path(name), "wb").write(zlib.decompress(base64.b64decode(b)))
    text = d["input"].replace("@F@/", R.scratch + "/")
    lib, cflags = R.build_lib()
    exe = R.build_harness("s_res", ["s_res.c", "s_res_ax.c"], lib=lib, cflags=cflags + ["-ffunction-sections", "-fdata-sections"],
                          ldflags=["-Wl,--gc-sections", WRAP])
    S = Scn("api")
    for l in text.split("\n"):
        if l:
            S.add(l[2:] if l.startswith("T ") else l)
    (S, per, crash, err), = run_scenarios(R, exe, [S])
    for (o, st, t) in per:
        print("%-60s %s" % (o["line"][:60], " ".join(st) if isinstance(st, tuple) else st))
    fl = evaluate(R, S, per, crash, err)
    for f in fl:
        print("FAILS: " + f[0])
    if crash:
        print(err[-2500:])
    print("replay: %s" % ("property violated" if fl else "no violation on this tree"))
    return 1 if fl else 0


# ---------------------------------------------------------------- (e) read cache under a re-entrant get-page callback
def reent_lost(obs_lines):
    """index and count of the first `newctx` observation that reports buffers never given back"""
    for k, o in enumerate(obs_lines):
        m = re.match(r"newctx lost=(-?\d+)", o)
        if m and int(m.group(1)) != 0:
            return k, int(m.group(1))
    return None


def reent_phase(R, nblocks):
    """the `reent` blocks of the C09 stream (harness/s_sys.c: a get-page callback that reads through the same context before it
    delivers a page; direct reads and conversions; cold and warm cache): when the context is gone every buffer the callback
    delivered must have been given back with put_page.  Returns (failure or None, counters)."""
    from props import c09
    exe = c09.sys_harness(R)
    # corpus first: the script of the defect report (fix: "a nested read must not recycle a read cache slot that is being filled")
    blocks = [["clr", "newsys", "mem 7 4294967295 0 15 0 0", "rcaps 1", "reent 0 32:16640", "newctx", "rd 0 131072", "newctx"]]
    blocks += [c09.block_reent(R.rng, 12) for _ in range(nblocks)]
    lines = [l for b in blocks for l in b]
    rc, out, err = R.run_harness(exe, stdin_text="\n".join(lines) + "\n", timeout=300)
    obs = kdf.obs(out)
    stats = dict(blocks=nblocks, contexts=sum(o.startswith("newctx") for o in obs), reads=sum(o.startswith("rd ") for o in obs),
                 delivered=sum(int(m.group(1)) for o in obs for m in [re.search(r" got=(\d+)", o)] if m),
                 nested=sum(1 for o in obs for m in [re.search(r" nest=(\d+)", o)] if m and int(m.group(1)) >= 2))
    def run1(ls):
        r, o, e = R.run_harness(exe, stdin_text="\n".join(ls) + "\n", timeout=60)
        return reent_lost(kdf.obs(o)), r, e
    for b in blocks:
        bad, r, e = run1(b)
        if bad is None and r == 0:
            continue
        if bad is None:
            why = next((l for l in e.split("\n") if "ERROR" in l or "runtime error" in l), e.strip()[:200])
            return ("libaddrxlat's read cache under a re-entrant get-page callback: the harness did not survive (rc=%s) %s" % (r, why[:200]), b), stats
        # shrink: cut behind the reporting newctx, then drop every line that is not needed
        prod = [i for i, l in enumerate(b) if l.split()[0] in c09.PRODUCES]
        cur = b[:prod[bad[0]] + 1]
        i = len(cur) - 2
        while i >= 0:
            if cur[i].split()[0] in ("rd", "op", "conv", "newctx", "bad", "null", "meth", "map", "reentsys"):
                cand = cur[:i] + cur[i + 1:]
                if run1(cand)[0] is not None:
                    cur = cand
            i -= 1
        n = run1(cur)[0][1]
        return ("a get-page callback that reads through the same context: %d buffer(s) it delivered were never given back with put_page "
                "although the context is gone (libaddrxlat read cache, get_cache_buf)" % n, cur), stats
    if rc != 0:
        return ("the harness did not survive the re-entrant blocks (rc=%s): %s" % (rc, err.strip()[-300:]), lines[:400]), stats
    return None, stats


def fail_sig(msg):
    """class of a failure message: minimisation must keep it"""
    m = re.search(r"(AddressSanitizer|UndefinedBehaviorSanitizer|LeakSanitizer|runtime error)[^/]*", msg)
    if m:
        tail = msg[m.start():]
        tail = re.sub(r"/\S*/", "", tail)
        return re.sub(r"\d+", "N", tail)[:120]
    return re.sub(r"'[^']*'|\([^)]*\)|\d+", "", msg)[:60]


def minimise(R, exe, S, evalfn):
    """greedy removal of operations that are not needed for the failure (bounded effort)"""
    ops = list(S.ops)
    budget = 40
    i = len(ops) - 1
    while i >= 0 and budget > 0:
        if ops[i]["line"].split()[0] in ("new",):
            i -= 1; continue
        T = Scn(S.kind, S.dump); T.known_key = S.known_key
        T.ops = ops[:i] + ops[i + 1:]
        budget -= 1
        try:
            (s2, per, crash, err), = run_scenarios(R, exe, [T])
            if evalfn(R, T, per, crash, err):
                ops = T.ops
        except kdf.CheckBroken:
            pass
        i -= 1
    T = Scn(S.kind, S.dump); T.ops = ops; T.known_key = S.known_key
    return T


def run(R):
    facts, changed = R.extract()
    proof = R.prove(["Kdf.Props.C15", "Kdf.Props.C09Read"], THEOREMS)
    lib, cflags = R.build_lib()
    exe = R.build_harness("s_res", ["s_res.c", "s_res_ax.c"], lib=lib, cflags=cflags + ["-ffunction-sections", "-fdata-sections"],
                          ldflags=["-Wl,--gc-sections", WRAP])
    rng = R.rng
    quick = R.tier == "quick"
    # ---- dump files
    R.badfiles = []
    p = R.path("garbage.bin"); open(p, "wb").write(bytes(rng.randrange(256) for _ in range(5000))); R.badfiles.append(p)
    ndumps = 4 if quick else 24
    dumps = []
    for i in range(ndumps):
        dumps.append(Dump(R, R.path("c15-%d.dump" % i), ps=rng.choice([4096, 4096, 16384]), npages=rng.choice([10, 14, 24]),
                          big=(i % 2 == 1), vmcoreinfo=vmcoreinfo_text(rng) if i % 3 == 0 else None))
    p = R.path("trunc.bin"); open(p, "wb").write(open(dumps[0].path, "rb").read()[:300]); R.badfiles.append(p)
    flat = [Dump(R, R.path("c15-flat-%d.dump" % i), ps=4096, npages=12, flattened=True) for i in range(1 if quick else 4)]
    elfs = []
    for i in range(1 if quick else 3):
        class E: pass
        e = E(); e.path = R.path("c15-%d.elf" % i); e.ps = 4096; e.maxpfn = 24
        segs, pfn = [], rng.randint(0, 2)
        for _ in range(rng.randint(1, 4)):
            n = rng.randint(1, 5); segs.append(dict(pfn=pfn, npages=n, voff=0xffff880000000000)); pfn += n + rng.randint(1, 3)
        dumpgen.write_elf(e.path, segs)
        elfs.append(e)
    # Xen domain cores whose page table (.xen_p2m: 16-byte records, .xen_pfn: 8-byte records) starts at any alignment, so that
    # records straddle the boundaries of the file cache's entries (the only users of fcache_get_fb)
    xcs = []
    for i in range(2 if quick else 8):
        class X: pass
        x = X(); x.path = R.path("c15-%d.xc" % i); x.ps = 4096
        p2m = (i % 2 == 0)
        n = rng.choice([300, 600, 1100])
        x.maxpfn = n
        # .xen_p2m at 8 (mod 16): every 256th record straddles a host-page boundary, yet every load is naturally aligned (a table at
        # an odd offset runs into the recorded C03 finding misaligned-load-of-file-data; 8-byte .xen_pfn records cannot straddle
        # without it, so those tables stay aligned here and the bounce-buffer path of that loop is covered by the `fb` calls only)
        x.map_off = rng.choice([1, 2, 3]) * 4096 - (8 + 16 * rng.randrange(3) if p2m else 8 * rng.randrange(4))
        pf = rng.sample(range(4 * n), n); pf.sort()
        dumpgen.write_xc_core(x.path, [(q, 0x1000 + q) for q in pf], p2m=p2m, map_off=x.map_off)
        xcs.append(x)
    elfs += xcs
    # the other formats: SADUMP (single partition / media), LKCD (raw and compressed), s390
    others = []
    for nm, wr in (("sadump-single", lambda q: dumpgen.c03_write_sadump(q, [1, 2, 5, 9], kind="single", max_mapnr=16, ram=[0, 1, 2, 3, 5, 6, 9])),
                   ("sadump-media", lambda q: dumpgen.c03_write_sadump(q, [0, 3, 4], kind="media", max_mapnr=8, ram=[0, 1, 3, 4])),
                   ("lkcd", lambda q: dumpgen.c03_write_lkcd(q, [0, 1, 2, 5, 6], compress=rng.choice([0, 1, 2]))),
                   ("s390", lambda q: dumpgen.c03_write_s390(q))):
        class F: pass
        f = F(); f.path = R.path("c15-" + nm); f.ps = 4096; f.maxpfn = 16
        wr(f.path)
        others.append(f)
    elfs += others

    # does the data of a page decode?  That is the decompressors' answer (external to the model): discovered once per dump by
    # reading every stored page in a fresh context; the generator's own expectation is kept where the two agree.
    disc = []
    for D in dumps:
        S = Scn("discover", D)
        S.add("new 0"); S.add("open 0 0 1 %s" % D.path)
        for p_ in D.stored:
            S.add("read 0 1 %d 8" % (p_ * D.ps))
        S.add("free 0"); S.add("closefds 0")
        disc.append(S)
    dec_disagree = 0
    for (S, per, crash, err) in run_scenarios(R, exe, disc, leaks=False):
        if crash:
            continue                     # reported by the scenarios below
        k = 0
        for (o, st, t) in per:
            if o["line"].startswith("read "):
                p_ = S.dump.stored[k]; k += 1
                got = 1 if st[0].split()[1] == "corrupt" else 0
                if S.dump.desc[p_][3] & 0x27 and got != S.dump.dec[p_]:
                    dec_disagree += 1
                    S.dump.dec[p_] = got

    violations = []        # (message, scenario, op index, key)
    ntraced = nstate = 0
    kinds = {}
    orckinds = {}
    model_in, impl_t, where = [], [], []
    check_in, check_meta = [], []
    nfault = 0

    def consume(results, with_model=True):
        nonlocal ntraced, nstate
        for (S, per, crash, err) in results:
            fl = evaluate(R, S, per, crash, err)
            for (msg, i, key) in fl[:1]:
                violations.append((msg, S, i, key))
            pol = None
            check_in.append("M checkreset")
            desync = False
            if S.kind == "trace" and with_model:
                model_in.append(S.dump.cfg_line(R.sizes, S.plan.get("zeroexcl", 0))); model_in.extend(S.dump.pg_lines())
            for i, (o, st, t) in enumerate(per):
                if st in (None, "skip"):
                    continue
                nstate += 1
                if o["line"].startswith("get 0 file.mmap_policy") and st[0].startswith("get ok num:"):
                    pol = int(st[0].split(":")[1])
                cur_sum = int(st[1]) + int(st[2]) + int(st[3])
                if t is not None:
                    ntraced += 1
                    canon, orc, evs = canon_trace(t)
                    if ":xx:" in " ".join(evs):
                        desync = True          # cache of a file set without a live context: cannot be named
                    if not desync:
                        check_in.append("M check " + " ".join(evs))
                        check_meta.append((S, i, cur_sum, o["line"]))
                    if o.get("model") and o["model"][0] == "axinit" and with_model:
                        model_in.append("M axinit %d %s" % (R.sizes["cb"], " ".join(st[0].split()[1:])))
                    elif o.get("model") and with_model and pol is not None and not canon.endswith("drop-none"):
                        m = o["model"]
                        if m[0] == "freectx":
                            # kdump_free(): compared is the part that gives the cached pages back (cache reference, then the page
                            # descriptor, per page); the blocks of the context itself that are freed afterwards are not modelled
                            k = 0
                            while k + 1 < len(evs) and evs[k].startswith("R:") and evs[k + 1].startswith("F:"):
                                k += 2
                            canon = "T " + "".join(e + " " for e in evs[:k]) + "| free"
                        model_in.append("M %s %s %s | %s" % ("axcall" if m[0] in ("axread", "addcb", "delcb", "freectx") else "call",
                                                             POLNAME[pol], " ".join(str(x) for x in m), " ".join(orc)))
                        for tok in orc:
                            kk = tok if tok in ("b", "hF", "mF", "io0", "io1", "a0", "a1") else tok[0]
                            orckinds[kk] = orckinds.get(kk, 0) + 1
                        orckinds["pol:" + POLNAME[pol]] = orckinds.get("pol:" + POLNAME[pol], 0) + 1
                        impl_t.append(canon); where.append((S, i))
                        shape = "+".join(sorted({e.split(":")[0] + (":fail" if e.endswith(":fail") else "") for e in evs})) + "/" + (canon.split("|")[1].split() + ["-", "-"])[1]
                        kinds[m[0] + "/" + shape] = kinds.get(m[0] + "/" + shape, 0) + 1

    # ---- (2) forced paths: dry run, then one rerun per chosen fault point
    nsc = 60 if quick else 2500
    base = [trace_scenario(R, rng.choice(dumps)) for _ in range(nsc)]
    res0 = run_scenarios(R, exe, base, leaks=False)
    consume(res0)
    faulted = []
    for (S, per, crash, err) in res0:
        if crash:
            continue
        calls = [(o, t) for (o, st, t) in per if o.get("model") and t and o["model"][0] != "putpage"]
        for ci, (o, t) in enumerate(calls):
            _, _, evs = canon_trace(t)
            pts = [("pread", k + 1) for k in range(sum(e.startswith("p:") for e in evs))] + \
                  [("malloc", k + 1) for k in range(sum(e.startswith("M:") for e in evs))] + \
                  [("mmap", k + 1) for k in range(sum(e.startswith("m:") for e in evs))]
            rng.shuffle(pts)
            for (kind, n) in pts[:(3 if quick else 10)]:
                faulted.append(trace_scenario(R, S.dump, fault=(ci, kind, n), plan=S.plan))
    nfault = len(faulted)
    consume(run_scenarios(R, exe, faulted, leaks=False))
    nax = 40 if quick else 1500
    consume(run_scenarios(R, exe, [ax_scenario(R, rng.choice(dumps)) for _ in range(nax)], leaks=False))

    # ---- (1) API walks on every kind of file, leak checker on
    napi = 40 if quick else 1500
    apis = [api_scenario(R, dumps + flat, elfs, rng.choice([15, 30, 60])) for _ in range(napi)]
    consume(run_scenarios(R, exe, apis), with_model=False)
    consume(run_scenarios(R, exe, directed_scenarios(R, dumps) + directed_xen_cb(R, dumps, xcs) + directed_formats(R, elfs + dumps[:1] + flat[:1])), with_model=False)
    der_res = run_scenarios(R, exe, derived_scenarios(R, 8 if quick else 400))
    consume(der_res, with_model=False)
    # correspondence of derived_attr_revalidate (model lean/Kdf/Model/BlobPin.lean): status and pins left by each register / pid read
    der_in, der_impl, der_where = [], [], []
    for (S, per, crash, err) in der_res:
        for i, (o, st, t) in enumerate(per):
            if o.get("derived") and st not in (None, "skip"):
                raw, off, ln = o["derived"]
                der_in.append("M derived %s %d %d" % ("-" if raw is None else raw, off, ln))
                der_impl.append("D %s %s" % (st[0].split()[1], st[5]))
                der_where.append((S, i))
    cutfiles = truncated_files(R)
    consume(run_scenarios(R, exe, directed_truncated(R, cutfiles)), with_model=False)
    consume(run_scenarios(R, exe, known_scenarios(R, dumps[0])), with_model=False)

    # ---- model: traces of the forced paths, ledger over every intercepted trace
    mout = kdf.obs(R.run_driver("res", "\n".join(model_in + check_in + der_in) + "\n"))
    der_model = [l for l in mout if l.startswith("D ")]
    der_mism = kdf.diff_streams(der_impl, der_model)
    if der_mism is not None and der_mism < len(der_where) and not any(v[1] is der_where[der_mism][0] for v in violations):
        S_, i_ = der_where[der_mism]
        violations.append(("'%s' with the raw blob as this history left it (model line '%s'): implementation status and pins left '%s', model '%s'" % (
            S_.ops[i_]["line"], der_in[der_mism], der_impl[der_mism], der_model[der_mism] if der_mism < len(der_model) else None), S_, i_, None))
    model_t = [l for l in mout if l.startswith("T ")]
    ledger = [l for l in mout if l.startswith("L ")]
    mism = kdf.diff_streams(impl_t, model_t)
    led_bad = None
    if len(ledger) != len(check_meta):
        raise kdf.CheckBroken("ledger check returned %d answers for %d traces" % (len(ledger), len(check_in)))
    for l, (S, i, delta, line) in zip(ledger, check_meta):
        if l.startswith("L VIOLATION") or l.startswith("L BAD"):
            led_bad = (S, i, "the call '%s' gives back a cache entry or block it does not hold: %s" % (line[:80], l)); break
        held = [h for h in l.split()[2].split(",") if h] if len(l.split()) > 2 else []
        pins = sum(h.startswith("pin:") for h in held)
        if pins != delta and not any(v[1] is S for v in violations):
            led_bad = (S, i, "after '%s' the intercepted cache calls of this session leave %d references held, the reference counts in the live caches add up to %d"
                       % (line[:80], pins, delta)); break
    if led_bad and not any(v[1] is led_bad[0] for v in violations):
        violations.append((led_bad[2], led_bad[0], led_bad[1], led_bad[0].known_key))

    # ---- (e) libaddrxlat's read cache under a re-entrant get-page callback
    reent_fail, reent_stats = reent_phase(R, 120 if quick else 2500)
    if reent_fail:
        R.violation(reent_fail[0], dict(stream="sys", input="\n".join(reent_fail[1]) + "\n", kind="reent",
                                        how="python3 tools/check.py C15 --replay <this file> feeds `input` to harness/s_sys.c (counts the "
                                            "callback's deliveries and put_page calls per context; also run under LeakSanitizer)"))

    # ---- verdicts
    reported = set()
    for (msg, S, i, key) in violations:
        if key in KNOWN and key is not None:
            R.violation("%s: %s" % (KNOWN[key], msg), dict(stream="res", input=portable(S.text())[0]), key=key)
            continue
        if len(reported) >= 3 or msg in reported:
            continue
        Smin = S
        if S.kind == "api":
            sig = fail_sig(msg)
            Smin = minimise(R, exe, S, lambda R_, T, per, crash, err: [f for f in evaluate(R_, T, per, crash, err) if fail_sig(f[0]) == sig])
        reported.add(msg)
        txt, files = portable(Smin.text())
        R.violation(msg, dict(stream="res", input=txt, files=files, failing_op=S.ops[i]["line"] if i < len(S.ops) else None, kind=S.kind,
                             how="python3 tools/check.py C15 --replay <this file>  (files: base64 of zlib of the generated dumps)",
                             broken_theorems=proof["broken"]))
    if not [v for v in violations if v[3] not in KNOWN] and (proof["broken"] or mism is not None):
        d = None
        if mism is not None:
            S, i = where[mism] if mism < len(where) else (None, None)
            d = dict(index=mism, impl=impl_t[mism] if mism < len(impl_t) else None, model=model_t[mism] if mism < len(model_t) else None,
                     input=S.text() if S else None, op=S.ops[i]["line"] if S else None)
        R.violation("proof obligation or correspondence broken: theorems %s; first differing trace %s" % (proof["broken"], mism),
                    dict(stream="res", broken_theorems=proof["broken"], lean_log=proof["log"][-1500:], first_diff=d), found_input=False)
    cov = dict(obligations=proof["obligations"], discharged=proof["discharged"],
               checker_cmd="cd lean && lake build Kdf.Props.C15 && #print axioms on each theorem",
               trusted_base=["Lean 4 kernel", "axioms: " + ", ".join(sorted({a for v in proof["axioms"].values() for a in v}) or ["none"]),
                             "harness/s_res.c: link-time wrappers (cache_get_entry/insert/discard/put_entry, malloc/free), interposed pread/mmap/"
                             "close/lseek/read, reference sums read from the live struct cache, addrxlat read-cache slots (s_res_ax.c)",
                             "model parameters: validity/buffer address of each cache entry, outcome of pread/mmap/malloc (taken from the "
                             "intercepted trace), page descriptors and decodability of the data (taken from the generator)",
                             "tools/dumpgen.py writers, gcc + ASan/UBSan/LSan"],
               broken_theorems=proof["broken"], theorems=THEOREMS,
               evaluations=nstate, distinct_nontrivial=len(kinds),
               rule="(a) forced paths: fresh context per scenario on damaged diskdumps (undecodable/zlib/snappy/zstd/lzo data, wrong sizes, unknown "
                    "flags, data beyond EOF, huge chunks, excluded and out-of-range frames; page sizes 4K/16K; mmap policy never/always/try/"
                    "try-once; cache sizes 2,3,default), reads of 1..3 pages and get_page/put_page, each rerun with the n-th pread/mmap/malloc "
                    "failing for points enumerated from the dry run; (b) random API walks (open incl. failed opens, clone, attributes incl. "
                    "type mismatches, VMCOREINFO with rejected lines, bitmaps/blobs kept beyond the context, addrxlat objects, MEMARR "
                    "translations through missing pages, re-installing the same map/method) on diskdump, flattened and ELF files, then "
                    "freeing everything in random order under LeakSanitizer; (c) fcache_get_fb + fcache_put on objects at, across and next "
                    "to the boundaries of read-cache and mmap-cache entries (forced paths, fault reruns); Xen domain cores whose .xen_p2m "
                    "table straddles host pages, opened under every mmap policy and with a failing first mapping; (d) sessions on the "
                    "dump's translation context: reads through libaddrxlat's read cache (hits, evictions, failing pages/allocations), "
                    "application callback records added and removed in any order (not only the top one), the dump freed while records "
                    "and cached pages are still in place -- read-cache slots and MRU ring compared with the model after every call; (e) libaddrxlat's "
                    "read cache under a RE-ENTRANT get-page callback (the `reent` blocks of the C09 stream through harness/s_sys.c: self-hosted "
                    "frame-table entries, chains, mutual pairs, cold and warm cache, direct reads and whole conversions): deliveries and put_page "
                    "calls of the callback are counted per context, nothing may be outstanding once the context is destroyed (model side: "
                    "Kdf.Model.RCache with read_gives_back; the line-by-line correspondence of these blocks is C09's); (f) files that END inside or right behind the structures a probe scans: SADUMP "
                    "(single partition, disk set, media backup), LKCD and s390 files cut at every structure boundary their writer reports, a few bytes "
                    "around it and at the host-page boundaries around it (so that the next file-cache entry lies wholly behind the end of the file, "
                    "e.g. an SADUMP header block whose magic-number sequence runs up to the cut), opened under the read(2) and the mmap policy, probed "
                    "a second time on the same context, then freed -- reference sums, ledger and leak checker as everywhere; "
                    "non-trivial = distinct (call, event-kind set, status) classes "
                    "of the compared traces",
               truncated_files=len(cutfiles),
               reentrant_read_cache=reent_stats,
               traces_validated_against_impl=len(impl_t), correspondence_first_diff=mism, ledger_checked_traces=len(check_in),
               fault_reruns=nfault, api_walks=napi, environment_answers=orckinds, decodability_corrected_by_discovery=dec_disagree, case_kinds=dict(sorted(kinds.items(), key=lambda kv: -kv[1])[:60]),
               samples=[dict(op=where[k][0].ops[where[k][1]]["line"], trace=impl_t[k][:160]) for k in (0, len(impl_t) // 2) if k < len(impl_t)])
    return "proof", cov, ["blob pins: that no pin of the library survives a call is observed on the implementation (pincnt of the blobs the "
                          "application holds, read after every call); the model (Kdf.Model.BlobPin) covers derived_attr_revalidate only, "
                          "tied to the code by status and pins left of every register / pid read of the x86-64 PRSTATUS layout",
                          "single-threaded use; the n-th pread/mmap/malloc fails only where the schedule says",
                          "the modelled path is the single-file, non-flattened diskdump read path; flattened/ELF files and all other API "
                          "calls are covered by the observed invariants and the ledger over their intercepted traces, not by theorems",
                          "distinct live heap and cache buffers have distinct addresses (copy mode of fcache_get_chunk)",
                          "a mapping's length is not clamped at the end of the file in the model (fcache_get_mmap's `avail`): objects that "
                          "cross EOF are not generated for fcache_get_fb",
                          "xenMapScan (the table scan of make_xen_pfn_map_*) is a theorem about the model only: its loop is tied to the "
                          "code through the fcache_get_fb/fcache_put correspondence and the observed invariants on Xen cores, not by a "
                          "trace comparison of its own; .xen_pfn tables that straddle need misaligned loads (C03 finding) and are not generated",
                          "kdump_free: only the give-back of the cached pages is compared with the model (ctxDelCb), not the context's own blocks",
                          "verifyMagic / magicLoop (verify_magic_number of sadump.c) are theorems about the model only: the function is tied to the "
                          "code through the fcache_get correspondence, the ledger over the intercepted cache calls of every open of a truncated "
                          "SADUMP file and the reference sums, not by a trace comparison of its own (an open's trace also holds the other probes)"]
