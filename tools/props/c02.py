"""C02 — address translation equals the architecture's page-table walk."""
import kdf

W = 1 << 64
THEOREMS = ["Kdf.Props.C02." + t for t in ("walk_eq_spec_pgt", "walk_eq_spec_linear", "walk_eq_spec_lookup", "walk_eq_spec_memarr", "noncanonical_invalid", "launch_steps_eq_walk")]
FORMS = {
    "x86_64": [[12, 9, 9, 9, 9], [12, 9, 9, 9, 9, 9]],
    "ia32": [[12, 10, 10]],
    "ia32_pae": [[12, 9, 9, 2]],
    "riscv64": [[12, 9, 9, 9], [12, 9, 9, 9, 9], [12, 9, 9, 9, 9, 9]],
    "pfn32": [[12, 10, 10], [12, 20]],
    "pfn64": [[12, 9, 9, 9], [16, 13]],
    "aarch64": [[12, 9, 9, 9, 9], [14, 11, 11, 11, 1], [16, 13, 13, 6]],
    "aarch64_lpa": [[16, 13, 13, 10]],
    "aarch64_lpa2": [[12, 9, 9, 9, 9, 4], [14, 11, 11, 11, 5]],
    "arm": [[12, 8, 12]],
    "s390x": [[12, 8, 11, 11, 11, 11], [12, 8, 11, 11, 11], [12, 8, 11, 11], [12, 8, 11]],
    "ppc64_linux_rpn30": [[16, 12, 12, 4]],
}
PTE32 = {"ia32", "pfn32", "arm"}
MODELLED = ["x86_64", "ia32", "ia32_pae", "riscv64", "pfn32", "pfn64"]


def boundary_addrs(rng, form):
    vb = sum(form)
    out = {0, 1, W - 1, (1 << vb) - 1, 1 << vb if vb < 64 else 0, (1 << (vb - 1)) - 1, 1 << (vb - 1),
           W - (1 << (vb - 1)), W - (1 << (vb - 1)) - 1}
    acc = 0
    for f in form:
        acc += f
        out |= {(1 << acc) - 1, 1 << acc if acc < 64 else 0}
    return [a % W for a in out]


def rand_addr(rng, form):
    vb = sum(form)
    k = rng.random()
    if k < 0.5:
        a = rng.getrandbits(vb)
        if rng.random() < 0.4 and vb < 64 and a >> (vb - 1):
            a |= (W - 1) & ~((1 << vb) - 1)         # canonical negative
        return a
    if k < 0.7:
        return rng.getrandbits(64)
    return rng.choice(boundary_addrs(rng, form))


def mem_line(rng, fmt, be=None):
    seed = rng.getrandbits(48)
    if be is None:
        be = rng.random() < 0.3
    # cell 0 = even cell. In LE the even cell is the low half of a 64-bit PTE.
    lo_or = 0
    k = rng.random()
    if k < 0.8:
        lo_or |= 1                       # present/valid bit of most formats
    if fmt in ("aarch64", "aarch64_lpa", "aarch64_lpa2") and rng.random() < 0.6:
        lo_or |= 3                       # table/page descriptor
    lo_and = 0xffffffff
    if rng.random() < 0.5:
        lo_and &= ~0x80                  # clear PSE most of the time to get deep walks
    if fmt == "riscv64" and rng.random() < 0.6:
        lo_and &= ~0xe                   # pointer to next level
    hi_and, hi_or = 0xffffffff, 0
    if rng.random() < 0.5:
        hi_and = 0x000000ff              # keep physical addresses small
    if fmt in PTE32:
        a0, o0, a1, o1 = lo_and, lo_or, lo_and, lo_or
    elif be:
        a0, o0, a1, o1 = hi_and, hi_or, lo_and, lo_or
    else:
        a0, o0, a1, o1 = lo_and, lo_or, hi_and, hi_or
    return "mem %d %d %d %d %d %d" % (seed, a0, o0, a1, o1, 1 if be else 0), be


def meth_pgt(rng, fmt, form):
    root_as = rng.choice([0, 1, 2])
    root = rng.getrandbits(rng.choice([20, 32, 40])) & ~0xfff
    t = rng.choice([0, 1])
    k = rng.random()
    mask = 0 if k < 0.6 else (1 << rng.randrange(64)) if k < 0.9 else rng.getrandbits(64) & ~1
    if fmt in PTE32:
        mask &= 0xffffffff
    return "meth pgt %s %d %d %d %d %s" % (fmt, t, root_as, root, mask, ",".join(map(str, form)))


def gen_base(R, formats):
    """list of (setup_lines, fmt, form, be, addr)"""
    rng = R.rng
    n = 250 if R.tier == "quick" else 5000
    cases = []
    for fmt in formats:
        for form in FORMS[fmt]:
            for _ in range(n // len(FORMS[fmt])):
                ml, be = mem_line(rng, fmt)
                cases.append(([ml, "clr", meth_pgt(rng, fmt, form)], fmt, form, be, rand_addr(rng, form)))
            for a in boundary_addrs(rng, form):
                ml, be = mem_line(rng, fmt, be=False)
                cases.append(([ml, "clr", meth_pgt(rng, fmt, form)], fmt, form, be, a))
    return cases


def other_methods(R):
    rng = R.rng
    lines = []
    for _ in range(60 if R.tier == "quick" else 2000):
        k = rng.random()
        if k < 0.3:
            lines.append("meth linear %d %d" % (rng.choice([0, 1, 2]), rng.choice([0, 1, W - 1, rng.getrandbits(64), W - 0x1000])))
            addrs = [rng.getrandbits(64), 0, W - 1]
        elif k < 0.65:
            endoff = rng.choice([0, 0xfff, rng.getrandbits(20)])
            n = rng.randint(0, 6)
            origs = sorted(rng.sample(range(0, 1 << 24), n))
            tbl = ",".join("%d:%d" % (o, rng.getrandbits(40)) for o in origs)
            lines.append(("meth lookup %d %d %s" % (rng.choice([0, 1]), endoff, tbl)).rstrip())
            addrs = [o + d for o in origs for d in (0, endoff, endoff + 1)] + [max(o - 1, 0) for o in origs] + [rng.getrandbits(24)]
        else:
            ml, be = mem_line(rng, "pfn64")
            lines.append(ml); lines.append("clr")
            shift = rng.choice([0, 12, 16, 21])
            valsz = rng.choice([4, 8])
            lines.append("meth memarr %d %d %d %d %d %d" % (rng.choice([0, 1]), rng.choice([0, 1, 2]), rng.getrandbits(30) & ~0xfff, shift, valsz, valsz))
            addrs = [rng.getrandbits(rng.choice([20, 30, 40])) for _ in range(3)] + [0]
        for a in addrs:
            lines.append("walk %d" % (a % W))
    return lines


def run(R):
    facts, changed = R.extract()
    proof = R.prove(["Kdf.Props.C02"], THEOREMS) if THEOREMS else dict(obligations=0, discharged=0, broken=[], axioms={}, log="")
    formats = MODELLED
    base = gen_base(R, formats)
    # phase 1: where does each walk read?  (model only)
    t1 = []
    for setup, fmt, form, be, addr in base:
        t1 += setup + ["twalk %d" % addr]
    reads = kdf.obs(R.run_driver("walk", "\n".join(t1) + "\n"))
    # phase 2: the cases: base walk, then walking-ones over the PTE read at each level
    lines, meta = [], []
    nwalk = 0
    budget = 40 if R.tier == "quick" else 400
    for ci, ((setup, fmt, form, be, addr), rd) in enumerate(zip(base, reads)):
        lines += setup
        lines.append("walk %d" % addr); meta.append((ci, "base"))
        locs = [tuple(int(x) if x != "-1" else -1 for x in t.split(":")) for t in rd.split()[1:]]
        if ci % max(1, len(base) // budget) == 0:
            for (as_, a, sz) in locs:
                if as_ < 0:
                    continue
                for bit in range(8 * sz):
                    # flip one bit of the PTE that the base walk read at this level
                    cellofs = (bit // 32) * 4 if not be or sz == 4 else (4 - (bit // 32) * 4)
                    lines.append("xor %d %d %d" % (as_, a + cellofs, 1 << (bit % 32)))
                    lines.append("walk %d" % addr); meta.append((ci, "flip L@%#x bit %d" % (a, bit)))
                    lines.append("clr")
    lines += other_methods(R)
    text = "\n".join(lines) + "\n"
    exe = R.build_harness("s_walk", ["s_walk.c"])
    rc, out, err = R.run_harness(exe, stdin_text=text)
    impl = kdf.obs(out)
    drv = R.run_driver("walk", text)
    model = kdf.obs(drv)
    spec = [l[7:].strip() for l in drv.split("\n") if l.startswith("# spec ")]
    nexp = 2 * sum(1 for l in lines if l.startswith("walk"))
    fail = None
    if rc != 0 or len(impl) != nexp:
        fail = (len(impl), "harness stopped after %d of %d observations (rc=%s): %s" % (len(impl), nexp, rc, err.strip()[:500]))
    # property on the implementation: one-call walk and launch+steps agree
    kinds = {}
    walks = [l for l in lines if l.startswith("walk")]
    for i in range(0, len(impl) - 1, 2):
        w, s = impl[i].split(), impl[i + 1].split(" ")
        kinds[w[1]] = kinds.get(w[1], 0) + 1
        st_w, st_s = w[1], s[1]
        ok = st_w == st_s
        if ok and st_w == "ok":
            last = s[2].split("|")[-1].split(",")
            ok = (last[0] == "0" and last[1] == w[2] and last[2] == w[3])
        if "C16:" in impl[i]:
            ok = False
        if not ok and fail is None:
            fail = (i, "one-call walk and launch+single-steps disagree (or empty error message) for '%s': %s / %s" % (walks[i // 2], impl[i], impl[i + 1][:300]))
            break
    # property proper: the implementation agrees with the architectural specification
    nspec = 0
    if fail is None:
        for i in range(0, len(impl) - 1, 2):
            sp = spec[i // 2] if i // 2 < len(spec) else "out-of-scope"
            if sp in ("out-of-scope", "notimpl", "unaligned"):
                continue
            nspec += 1
            got = impl[i].split(None, 1)[1].split(" C16")[0]
            if got != sp:
                fail = (i, "translation of '%s' gives '%s', the architecture (resp. the method's definition) says '%s'" % (walks[i // 2], got, sp))
                break
    mism = kdf.diff_streams(impl, model)
    def context(idx):
        """the protocol lines needed to replay observation idx"""
        wi = idx // 2
        k = [j for j, l in enumerate(lines) if l.startswith("walk")][wi]
        j = k
        while j > 0 and not lines[j].startswith("mem "):
            j -= 1
        keep = [l for l in lines[j:k] if l.startswith(("mem ", "meth "))]
        last = lines[k - 1] if lines[k - 1].startswith(("xor", "ovr")) else None
        return "\n".join(keep + ([last] if last else []) + [lines[k]]) + "\n"
    if fail:
        R.violation(fail[1], dict(stream="walk", input=context(min(fail[0], len(impl) - 1)) if impl else "", stderr=err[-1500:], broken_theorems=proof["broken"]))
    elif proof["broken"] or mism is not None:
        R.violation("proof obligation or correspondence broken: theorems %s; first differing observation %s" % (proof["broken"], mism),
                    dict(stream="walk", broken_theorems=proof["broken"], lean_log=proof["log"][-1500:],
                         first_diff=None if mism is None else dict(index=mism, input=context(mism), impl=impl[mism][:600] if mism < len(impl) else None,
                                                                   model=model[mism][:600] if mism < len(model) else None)),
                    found_input=False)
    cov = dict(obligations=max(proof["obligations"], 1), discharged=proof["discharged"],
               checker_cmd="cd lean && lake build Kdf.Props.C02 && #print axioms on each theorem",
               trusted_base=["Lean 4 kernel", "memory is a pure function of (address space, address) served through get_page; reads are naturally aligned",
                             "harness/s_walk.c, gcc + ASan/UBSan"],
               broken_theorems=proof["broken"], theorems=THEOREMS, formats=formats,
               evaluations=len(walks), distinct_nontrivial=len(set(walks)),
               rule="per format and paging form: random and boundary input addresses over a pseudo-random memory steered by and/or masks "
                    "(present bits, huge-page bits, small physical addresses), both byte orders, random roots/address spaces/PTE masks; for a sample "
                    "of walks every single bit of the PTE read at every level is flipped (walking ones); linear, lookup and memory-array methods",
               traces_validated_against_impl=len(impl), compared_with_spec=nspec, correspondence_first_diff=mism, status_histogram=kinds,
               samples=[dict(input=context(i)) for i in (0, (len(impl) // 4) * 2) if impl])
    return "proof", cov, ["architecture specifications are my reading of the manuals", "custom methods are outside the model"]
