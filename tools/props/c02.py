"""C02 — address translation equals the architecture's page-table walk."""
import kdf

W = 1 << 64
# proof modules (lean/Kdf/Props/C02*.lean) -> theorems audited by the check (build + #print axioms)
PROOFS = [
    ("Kdf.Props.C02", ["walk_eq_spec_pgt", "walk_eq_spec_linear", "walk_eq_spec_lookup", "walk_eq_spec_memarr",
                       "noncanonical_invalid", "launch_steps_eq_walk"]),
    ("Kdf.Props.C02Aarch64", ["walk_eq_spec_aarch64"]),
    ("Kdf.Props.C02Arm", ["walk_eq_spec_arm"]),
    ("Kdf.Props.C02S390x", ["walk_eq_spec_s390x", "walk_eq_specWith_library"]),
    ("Kdf.Props.C02Ppc64", ["walk_eq_spec_ppc64"]),
    # the literals of the models equal the macro values regenerated from src/addrxlat/<arch>.c on this run
    ("Kdf.Props.C02Consts", ["consts_x86_64", "consts_ia32", "consts_riscv64", "consts_aarch64", "consts_s390x", "consts_arm", "consts_ppc64"]),
]
PROOF_MODULES = [m for m, _ in PROOFS]
THEOREMS = [m + "." + t for m, ts in PROOFS for t in ts]
FORMS = {
    "x86_64": [[12, 9, 9, 9, 9], [12, 9, 9, 9, 9, 9]],
    "ia32": [[12, 10, 10]],
    "ia32_pae": [[12, 9, 9, 2]],
    "riscv64": [[12, 9, 9, 9], [12, 9, 9, 9, 9], [12, 9, 9, 9, 9, 9]],
    "pfn32": [[12, 10, 10], [12, 20]],
    "pfn64": [[12, 9, 9, 9], [16, 13]],
    # AArch64: [granule, granule-3, ..., top]; VA sizes 48 / 39 / 42 / 25 / 16 (4K), 48 / 47 / 36 / 16 (16K),
    # 48 / 42 / 52 (FEAT_LVA) / 17 (64K); LPA (64K) and LPA2 (4K, 16K) with 52, 49/50 and <= 48 VA bits
    "aarch64": [[12, 9, 9, 9, 9], [12, 9, 9, 9], [12, 9, 9, 9, 3], [12, 9, 4], [12, 4],
                [14, 11, 11, 11, 1], [14, 11, 11, 11], [14, 11, 11], [14, 2],
                [16, 13, 13, 6], [16, 13, 13], [16, 13, 13, 10], [16, 1]],
    "aarch64_lpa": [[16, 13, 13, 10], [16, 13, 13, 7], [16, 13, 13, 6], [16, 13, 13]],
    "aarch64_lpa2": [[12, 9, 9, 9, 9, 4], [12, 9, 9, 9, 9, 1], [12, 9, 9, 9, 9], [12, 9, 9, 9],
                     [14, 11, 11, 11, 5], [14, 11, 11, 11, 2], [14, 11, 11, 11, 1], [14, 11, 11, 11]],
    "arm": [[12, 8, 12 - n] for n in range(8)],          # TTBCR.N = 0..7 (TTBR0 table)
    "s390x": [[12, 8, 11, 11, 11, 11], [12, 8, 11, 11, 11], [12, 8, 11, 11], [12, 8, 11]],
    # Linux 64K pages: <= 3.9 (PTE 12, PMD 12, PGD 4) and 3.10..4.5 (PTE 8, PMD 10, PGD 12)
    "ppc64_linux_rpn30": [[16, 12, 12, 4], [16, 8, 10, 12]],
}
PTE32 = {"ia32", "pfn32", "arm"}
AARCH64 = ("aarch64", "aarch64_lpa", "aarch64_lpa2")
PPC64 = "ppc64_linux_rpn30"
# the formats of Kdf/Model/Pgt.lean first (their part of the random stream does not depend on the others)
MODELLED = ["x86_64", "ia32", "ia32_pae", "riscv64", "pfn32", "pfn64"] + list(AARCH64) + ["arm", "s390x", PPC64]

# Documented deviation classes (knownDeviation in lean/Kdf/Spec/Arch*.lean; tag printed by the driver):
#  genuine low-severity findings, recorded in KNOWN_FINDINGS and reported once per run under their key
DEV_FINDINGS = {
    "aarch64-va-range": "the aarch64 page-table methods (first_step_pgt_generic, no step_check_uaddr/saddr) ignore the "
                        "address bits above the translated range; the architecture translates only the TTBR0 range "
                        "(upper bits all zero) and the TTBR1 range (all one) and faults otherwise",
    "arm-va-range": "the arm page-table method (first_step_pgt_generic, no step_check_uaddr) ignores the address bits "
                    "from 32-N up; the architecture has 32-bit virtual addresses and, for TTBCR.N > 0, translates "
                    "addresses >= 2^(32-N) through TTBR1, not through this table",
}
#  classes that are only counted (not claimed as defects): ppc64-D1 (_PAGE_PRESENT not checked), ppc64-D2 (hugepd
#  encoding) -- the reference is a recollection of Linux sources; s390x-D2 (PTE bit 52 ignored) -- benign, and inside
#  the class the library must still agree with the specification's own prediction (`specWith library`)
DEV_COUNTED = ("ppc64-D1", "ppc64-D2", "s390x-D2")


# ---------------------------------------------------------------- addresses
def boundary_addrs(rng, form):
    vb = sum(form)
    out = {0, 1, W - 1, (1 << vb) - 1, 1 << vb if vb < 64 else 0, (1 << (vb - 1)) - 1, 1 << (vb - 1),
           W - (1 << (vb - 1)), W - (1 << (vb - 1)) - 1}
    acc = 0
    for f in form:
        acc += f
        out |= {(1 << acc) - 1, 1 << acc if acc < 64 else 0}
    return [a % W for a in out]


def rand_addr(rng, form, fmt=None):
    vb = sum(form)
    k = rng.random()
    if fmt in AARCH64:
        # mostly addresses the architecture translates (out-of-range ones are the finding aarch64-va-range)
        if k < 0.8:
            a = rng.getrandbits(vb)
            if rng.random() < 0.4:
                a |= (W - 1) & ~((1 << vb) - 1)     # TTBR1 range: upper bits all ones, bit vb-1 arbitrary
            return a
        if k < 0.9:
            return rng.getrandbits(64)
        return rng.choice(boundary_addrs(rng, form))
    if k < 0.5:
        a = rng.getrandbits(vb)
        if fmt != "arm" and rng.random() < 0.4 and vb < 64 and a >> (vb - 1):
            a |= (W - 1) & ~((1 << vb) - 1)         # canonical negative
        return a
    if k < 0.7:
        return rng.getrandbits(64)
    return rng.choice(boundary_addrs(rng, form))


# ---------------------------------------------------------------- memory
def mem_line(rng, fmt, be=None):
    if fmt == PPC64:
        return mem_line_ppc64(rng, be)
    if fmt == "s390x":
        return mem_line_s390x(rng, be)
    seed = rng.getrandbits(48)
    if be is None:
        be = rng.random() < 0.3
    if fmt == "arm":
        return mem_line_arm(rng, seed, be)
    if fmt in AARCH64:
        return mem_line_aarch64(rng, fmt, seed, be), be
    # cell 0 = even cell. In LE the even cell is the low half of a 64-bit PTE.
    lo_or = 0
    k = rng.random()
    if k < 0.8:
        lo_or |= 1                       # present/valid bit of most formats
    if fmt in ("aarch64", "aarch64_lpa", "aarch64_lpa2") and rng.random() < 0.6:
        lo_or |= 3                       # table/page descriptor
    lo_and = 0xffffffff
    if rng.random() < 0.5:
        lo_and &= ~0x80                  # clear PSE most of the time to get deep walks
    if fmt == "riscv64" and rng.random() < 0.6:
        lo_and &= ~0xe                   # pointer to next level
    hi_and, hi_or = 0xffffffff, 0
    if rng.random() < 0.5:
        hi_and = 0x000000ff              # keep physical addresses small
    if fmt in PTE32:
        a0, o0, a1, o1 = lo_and, lo_or, lo_and, lo_or
    elif be:
        a0, o0, a1, o1 = hi_and, hi_or, lo_and, lo_or
    else:
        a0, o0, a1, o1 = lo_and, lo_or, hi_and, hi_or
    return "mem %d %d %d %d %d %d" % (seed, a0, o0, a1, o1, 1 if be else 0), be


def mem_line_aarch64(rng, fmt, seed, be):
    """descriptor bits 1:0 = valid/type; address bits: 47:g (49:g with LPA2), 15:12 (LPA), 9:8 (LPA2)"""
    lo_and, lo_or, hi_and, hi_or = 0xffffffff, 0, 0xffffffff, 0
    k = rng.random()
    if k < 0.50:
        lo_or |= 3                       # valid table/page descriptors everywhere: deep walks
    elif k < 0.62:
        lo_or |= 1; lo_and &= ~2         # 0b01 everywhere: block at the first level (or reserved there)
    elif k < 0.90:
        lo_or |= 1                       # valid, table-or-block at random: blocks at every level
    # else: valid bit random too
    top = 1 << (49 - 32 if fmt == "aarch64_lpa2" else 47 - 32)    # uppermost bit of the in-place address field
    k = rng.random()
    if k < 0.35:
        hi_and = 0x000000ff              # keep physical addresses small
    elif k < 0.50:
        hi_and = 0xffffffff & ~top       # that bit clear, everything else random
    elif k < 0.65:
        hi_or = top                      # that bit set in every descriptor (table, block and page alike)
    elif k < 0.75:
        hi_and = 0x0000ffff if fmt != "aarch64_lpa2" else 0x0003ffff    # only address bits
    if rng.random() < 0.2:
        lo_and &= ~(0xf000 if fmt == "aarch64_lpa" else 0x300)          # OA[51:48] resp. OA[51:50] zero
    if be:
        a0, o0, a1, o1 = hi_and, hi_or, lo_and, lo_or
    else:
        a0, o0, a1, o1 = lo_and, lo_or, hi_and, hi_or
    return "mem %d %d %d %d %d %d" % (seed, a0, o0, a1, o1, 1 if be else 0)


def mem_line_arm(rng, seed, be):
    """32-bit Arm short descriptors: bits[1:0] = type (00 fault, 01 page table / large page,
    1x section|supersection / small page), bit 18 = supersection."""
    a, o = 0xffffffff, 0
    k = rng.random()
    if k < 0.25:
        pass                              # all four types, both levels
    elif k < 0.45:
        o |= 1                            # L1: table or section/supersection; L2: large or small page
    elif k < 0.60:
        o |= 1; a &= ~2                   # L1: always a page table; L2: always a large page
    elif k < 0.75:
        o |= 2                            # L1: section/supersection (L2 never reached except via flips)
    elif k < 0.85:
        o |= 2; o |= 1 << 18              # L1: supersection
    elif k < 0.95:
        o |= 2; a &= ~(1 << 18)           # L1: section
    else:
        a &= ~3                           # everything faults
    if rng.random() < 0.3:
        a &= 0x000fffff | 0x00f00000 * rng.choice([0, 1])   # small physical addresses
    a1, o1 = a, o
    if rng.random() < 0.3:
        # descriptors at even and odd table indices differ: one parity holds page tables /
        # large pages (01), the other sections / small pages (1x)
        a, o, a1, o1 = (a | 3) & ~2, (o & ~3) | 1, a | 3, (o & ~3) | 2
        if rng.random() < 0.5:
            a, o, a1, o1 = a1, o1, a, o
    return "mem %d %d %d %d %d %d" % (seed, a, o, a1, o1, 1 if be else 0), be


def mem_line_s390x(rng, be):
    """Region/segment-table entry, low word: TL 0x3, TT 0xc, CR 0x10, I 0x20, TF 0xc0, IEP 0x100,
    P 0x200, FC 0x400 (page-table entry: I 0x400, must-be-zero 0x800), origin from 0x1000 up."""
    seed = rng.getrandbits(48)
    if be is None:
        be = rng.random() < 0.7          # the architecture is big-endian
    lo_and, lo_or, hi_and, hi_or = 0xffffffff, 0, 0xffffffff, 0
    if rng.random() < 0.7:
        lo_and &= ~0x20                  # entries valid
    if rng.random() < 0.5:
        lo_and &= ~0x400                 # no large frames, pages valid
    if rng.random() < 0.7:
        lo_and &= ~0x800                 # page-table entry bit 52
    if rng.random() < 0.35:
        lo_and &= ~0xc0                  # table offset 0
    if rng.random() < 0.35:
        lo_or |= 0x3                     # full table length
    if rng.random() < 0.5:
        hi_and = 0x000000ff              # keep physical addresses small
    if be:
        a0, o0, a1, o1 = hi_and, hi_or, lo_and, lo_or
    else:
        a0, o0, a1, o1 = lo_and, lo_or, hi_and, hi_or
    return "mem %d %d %d %d %d %d" % (seed, a0, o0, a1, o1, 1 if be else 0), be


def mem_line_ppc64(rng, be):
    """Linux ppc64 software page tables: bit 63 = kernel virtual address (or PD_HUGE), bits 1:0 != 0 leaf PTE,
    bits 5:2 MMU page size index of a hugepd, bit 0 _PAGE_PRESENT."""
    seed = rng.getrandbits(48)
    if be is None:
        be = rng.random() < 0.6
    lo_and, lo_or, hi_and, hi_or = 0xffffffff, 0, 0xffffffff, 0
    k = rng.random()
    if k < 0.45:                         # pure table pointers: deep walks (leaves are planted by overrides)
        lo_and, hi_or = ~0x3f & 0xffffffff, 0x80000000
    elif k < 0.60:                       # present leaf PTE everywhere
        lo_or = 1
    elif k < 0.68:                       # non-present, non-zero leaf PTE
        lo_and, lo_or = ~1 & 0xffffffff, 2
    elif k < 0.78:                       # hugepd as the library recognises it (bit 63 clear)
        lo_and, lo_or, hi_and = ~0x3f & 0xffffffff, rng.randrange(16) << 2, 0x7fffffff
    elif k < 0.88:                       # hugepd as Linux 3.10+ writes it (kernel virtual address | psize << 2)
        lo_and, lo_or, hi_or = ~0x3f & 0xffffffff, rng.randrange(1, 16) << 2, 0x80000000
    elif k < 0.93:                       # sparse: many zero entries
        lo_and, hi_and = rng.choice([0, 0x40, 0x1]), rng.choice([0, 0x80000000])
    if rng.random() < 0.3:
        hi_and &= 0x800000ff             # small frame numbers
    if be:
        a0, o0, a1, o1 = hi_and, hi_or, lo_and, lo_or
    else:
        a0, o0, a1, o1 = lo_and, lo_or, hi_and, hi_or
    return "mem %d %d %d %d %d %d" % (seed, a0, o0, a1, o1, 1 if be else 0), be


# ---------------------------------------------------------------- ppc64: crafted entries
def ppc64_entry(rng, kind):
    kva = (0xc << 60) | (rng.getrandbits(rng.choice([24, 40, 59])) & ~0x3f)
    if kind == "zero":
        return 0
    if kind == "table":
        return kva
    if kind == "table-lowbits":          # bits 6..14 set: below the alignment of the next table
        return kva | (rng.getrandbits(9) << 6)
    if kind == "leaf":                   # present leaf / last-level PTE
        return (rng.getrandbits(rng.choice([34, 20])) << 30) | (rng.getrandbits(30) & ~3) | rng.choice([1, 3])
    if kind == "leaf-notpresent":
        return (rng.getrandbits(34) << 30) | (rng.getrandbits(30) & ~3) | 2
    if kind == "pte-notpresent":         # only meaningful at the last level
        return ((rng.getrandbits(34) << 30) | rng.getrandbits(30)) & ~1 | 4
    if kind == "hugepd-kernel":
        return kva | (rng.randrange(1, 16) << 2)
    if kind == "hugepd-lib":
        return (kva & ~(1 << 63)) | (rng.randrange(16) << 2)
    if kind == "hugepd-lib-undefined-size":
        return (kva & ~(1 << 63)) | (rng.choice([14, 15]) << 2)
    raise KeyError(kind)


PPC64_KINDS = ["zero", "table", "table-lowbits", "leaf", "leaf", "leaf-notpresent", "pte-notpresent", "hugepd-kernel",
               "hugepd-lib", "hugepd-lib-undefined-size"]


def ovr64(as_, a, val, be):
    lo, hi = val & 0xffffffff, val >> 32
    c0, c1 = (hi, lo) if be else (lo, hi)
    return ["ovr %d %d %d" % (as_, a, c0), "ovr %d %d %d" % (as_, a + 4, c1)]


# ---------------------------------------------------------------- s390x: address steering
def _mix(seed, as_, a4):
    """twin of mix() in harness/s_walk.c and Driver/Walk.lean (used only to steer addresses)"""
    m = W - 1
    z = (seed + 0x9E3779B97F4A7C15 * (a4 // 4 + 1) + as_ * 0xD1B54A32D192ED03) & m
    z = ((z ^ (z >> 30)) * 0xBF58476D1CE4E5B9) & m
    z = ((z ^ (z >> 27)) * 0x94D049BB133111EB) & m
    z ^= z >> 31
    return z & 0xffffffff


def _read64(memcfg, as_, addr):
    seed, a0, o0, a1, o1, be = memcfg
    def cell(a4):
        h = _mix(seed, as_, a4)
        return (h & a0) | o0 if (a4 // 4) % 2 == 0 else (h & a1) | o1
    a, b = cell(addr % W), cell((addr + 4) % W)
    return (a << 32) | b if be else (b << 32) | a


def steer_s390x(rng, ml, meth, form):
    """The table type has to match at every level, which and/or masks common to all levels cannot
    arrange.  Instead the input ADDRESS is chosen level by level such that the entry it selects in
    the (pseudo-random) table looks as wanted.  This only steers the generator; what the entries
    mean is decided by the implementation, the model and the specification."""
    memcfg = tuple(int(x) for x in ml.split()[1:])
    w = meth.split()
    t, as_, tbl, mask = int(w[3]), int(w[4]), int(w[5]), int(w[6])
    n = len(form)
    va = 0
    qlo, qhi = 0, 3
    r = n - 1
    while r >= 1:
        shift, width = sum(form[:r]), form[r]
        go_on = rng.random() < 0.93
        huge = r in (2, 3) and rng.random() < 0.1
        tf0 = rng.random() < 0.3         # insist on table offset 0 (otherwise any TF..TL window will do)
        in_range = rng.random() < 0.85   # next index inside the TF..TL window of the entry chosen here
        z52 = rng.random() < 0.9
        idx = pte = 0
        for _ in range(600 if go_on else 1):
            idx = rng.getrandbits(width)
            if width == 11 and in_range and qlo <= qhi:
                idx = (rng.randint(qlo, qhi) << 9) | (idx & 0x1ff)
            pte = _read64(memcfg, as_, tbl + 8 * idx) & ~mask
            if r == 1:
                good = not pte & 0x400 and (not z52 or not pte & 0x800)
            else:
                good = (not pte & 0x20 and (pte >> 2) & 3 == r - 2 and bool(pte & 0x400) == huge
                        and (r < 3 or huge or ((pte >> 6) & 3 <= pte & 3 and (not tf0 or not pte & 0xc0))))
            if good:
                break
        va |= idx << shift
        if not go_on or huge or r == 1:
            va |= rng.getrandbits(shift)
            break
        qlo, qhi = ((pte >> 6) & 3, pte & 3) if r >= 3 else (0, 3)
        tbl, as_ = (pte & ~0x7ff if r == 2 else pte & ~0xfff), t
        r -= 1
    return va % W


ADDR_STEER = {"s390x": (0.75, steer_s390x)}     # format -> (probability, function)
FLIP_EXTRA = {"s390x": (2, 2)}                  # format -> walks per (form, depth) that get all bit flips (quick, thorough)


# ---------------------------------------------------------------- methods and cases
def meth_pgt(rng, fmt, form):
    root_as = rng.choice([0, 1, 2])
    if fmt in AARCH64 and rng.random() < 0.03:
        root_as = -1                     # ADDRXLAT_NOADDR
    if fmt == "arm" and rng.random() < 0.02:
        root_as = -1                     # ADDRXLAT_NOADDR: "Page table address not specified"
    root = rng.getrandbits(rng.choice([20, 32, 40])) & ~0xfff
    t = rng.choice([0, 1])
    k = rng.random()
    mask = 0 if k < 0.6 else (1 << rng.randrange(64)) if k < 0.9 else rng.getrandbits(64) & ~1
    if fmt in PTE32:
        mask &= 0xffffffff
    return "meth pgt %s %d %d %d %d %s" % (fmt, t, root_as, root, mask, ",".join(map(str, form)))


def gen_base(R, formats):
    """list of (setup_lines, fmt, form, be, addr)"""
    rng = R.rng
    quick = R.tier == "quick"
    n = 250 if quick else 5000
    cases = []
    for fmt in formats:
        for form in FORMS[fmt]:
            per_form = n // len(FORMS[fmt])
            if fmt in AARCH64:
                per_form = max(per_form, 40 if quick else 600)
            for _ in range(per_form):
                ml, be = mem_line(rng, fmt)
                mp = meth_pgt(rng, fmt, form)
                if fmt in ADDR_STEER and rng.random() < ADDR_STEER[fmt][0]:
                    addr = ADDR_STEER[fmt][1](rng, ml, mp, form)
                else:
                    addr = rand_addr(rng, form, fmt)
                cases.append(([ml, "clr", mp], fmt, form, be, addr))
            for a in boundary_addrs(rng, form):
                ml, be = mem_line(rng, fmt, be=False)
                cases.append(([ml, "clr", meth_pgt(rng, fmt, form)], fmt, form, be, a))
    return cases


def same_page_cases(R):
    """Two table levels at the same numeric page address in two different address spaces (the root in
    KVADDR, the next level at the same address in the target space), and consecutive walks that differ
    only in the root's address space: the library's read cache must keep the spaces apart."""
    rng = R.rng
    lines = []
    for _ in range(40 if R.tier == "quick" else 600):
        root = rng.getrandbits(rng.choice([20, 30])) & ~0xfff
        t = rng.choice([0, 1])
        addr = rng.getrandbits(47)
        idx = (addr >> 39) & 0x1ff
        lines.append("mem %d %d %d %d %d 0" % (rng.getrandbits(48), 0xffffff7f, 1, 0xff, 0))
        lines.append("clr")
        lines.append("meth pgt x86_64 %d 2 %d 0 12,9,9,9,9" % (t, root))
        lines.append("ovr 2 %d %d" % (root + idx * 8, (root & 0xffffffff) | 1))
        lines.append("ovr 2 %d %d" % (root + idx * 8 + 4, root >> 32))
        lines.append("walk %d" % addr)
        # same memory, same numeric root, other address spaces, without resetting the context
        for ras in (0, 1, 2):
            lines.append("meth pgt x86_64 %d %d %d 0 12,9,9,9,9" % (t, ras, root))
            lines.append("walk %d" % addr)
    return lines


def other_methods(R):
    rng = R.rng
    lines = []
    for _ in range(60 if R.tier == "quick" else 2000):
        k = rng.random()
        if k < 0.3:
            lines.append("meth linear %d %d" % (rng.choice([0, 1, 2]), rng.choice([0, 1, W - 1, rng.getrandbits(64), W - 0x1000])))
            addrs = [rng.getrandbits(64), 0, W - 1]
        elif k < 0.65:
            endoff = rng.choice([0, 0xfff, rng.getrandbits(20)])
            n = rng.randint(0, 6)
            origs = sorted(rng.sample(range(0, 1 << 24), n))
            kk = rng.random()
            if kk < 0.25:
                origs.append(W - 1 - endoff)               # an element that ends at the top of the address space
            elif kk < 0.35:
                endoff, origs = W - 1, [0]                 # one element that covers everything
            elif kk < 0.45:
                origs.append(W - 1 - endoff - rng.choice([1, 0x1000]))
            tbl = ",".join("%d:%d" % (o, rng.getrandbits(40)) for o in origs)
            lines.append(("meth lookup %d %d %s" % (rng.choice([0, 1]), endoff, tbl)).rstrip())
            addrs = [o + d for o in origs for d in (0, endoff, endoff + 1)] + [max(o - 1, 0) for o in origs] + [rng.getrandbits(24), W - 1]
        else:
            ml, be = mem_line(rng, "pfn64")
            lines.append(ml); lines.append("clr")
            shift = rng.choice([0, 12, 16, 21])
            valsz = rng.choice([4, 8])
            # the array element may be larger than the value read from it (records whose first field is the
            # frame number) or smaller (packed/overlapping); the stride is elemsz, the read width valsz
            elemsz = rng.choice([valsz, valsz, 2 * valsz, 3 * valsz, 4 * valsz, 8, 16, 24])     # multiples of valsz: reads stay aligned
            lines.append("meth memarr %d %d %d %d %d %d" % (rng.choice([0, 1]), rng.choice([0, 1, 2]), rng.getrandbits(30) & ~0xfff, shift, elemsz, valsz))
            # array indices 0, 1, 2 and large ones
            addrs = [rng.getrandbits(rng.choice([20, 30, 40])) for _ in range(3)] + [0, (1 << shift) + rng.getrandbits(shift), (2 << shift) | rng.getrandbits(shift)]
        for a in addrs:
            lines.append("walk %d" % (a % W))
    return lines


def run(R):
    facts, changed = R.extract()
    proof = R.prove(PROOF_MODULES, THEOREMS)
    formats = MODELLED
    quick = R.tier == "quick"
    base = gen_base(R, formats)
    # phase 1: where does each walk read?  (model only)
    t1 = []
    for setup, fmt, form, be, addr in base:
        t1 += setup + ["twalk %d" % addr]
    reads = kdf.obs(R.run_driver("walk", "\n".join(t1) + "\n"))
    # phase 2: the cases: base walk, then walking-ones over the PTE read at each level
    lines, meta = [], []
    seen_depth = {}
    budget = 80 if quick else 800
    for ci, ((setup, fmt, form, be, addr), rd) in enumerate(zip(base, reads)):
        lines += setup
        lines.append("walk %d" % addr); meta.append((ci, "base"))
        locs = [tuple(int(x) if x != "-1" else -1 for x in t.split(":")) for t in rd.split()[1:]]
        extra_flips = False
        if fmt in FLIP_EXTRA:       # also flip the first few walks of every depth of these formats
            dk = (fmt, len(form), len(locs))
            seen_depth[dk] = seen_depth.get(dk, 0) + 1
            extra_flips = seen_depth[dk] <= FLIP_EXTRA[fmt][0 if quick else 1]
        if extra_flips or ci % max(1, len(base) // budget) == 0:
            for (as_, a, sz) in locs:
                if as_ < 0:
                    continue
                for bit in range(8 * sz):
                    # flip one bit of the PTE that the base walk read at this level
                    cellofs = (bit // 32) * 4 if not be or sz == 4 else (4 - (bit // 32) * 4)
                    lines.append("xor %d %d %d" % (as_, a + cellofs, 1 << (bit % 32)))
                    lines.append("walk %d" % addr); meta.append((ci, "flip L@%#x bit %d" % (a, bit)))
                    lines.append("clr")
        if fmt in ("pfn32", "pfn64"):
            # a table entry that consists only of bits the PTE mask removes is "not present", like an all-zero one
            m = int(setup[2].split()[6])
            real = [l for l in locs if l[0] >= 0]
            if m and real:
                lv = R.rng.randrange(len(real))
                for val in sorted({m, m & -m, 0}):
                    lines += ovr64(real[lv][0], real[lv][1], val, be) if real[lv][2] == 8 else ["ovr %d %d %d" % (real[lv][0], real[lv][1], val & 0xffffffff)]
                    lines.append("walk %d" % addr); meta.append((ci, "%s entry %#x under mask %#x at read %d" % (fmt, val, m, lv)))
                    lines.append("clr")
        if fmt == PPC64:
            # plant one crafted entry (every descriptor kind) at one of the levels the base walk read; in the
            # table-pointer memory also complete the deepest walk with a present last-level PTE
            real = [l for l in locs if l[0] >= 0]
            for _ in range(3):
                if not real:
                    break
                lv = R.rng.randrange(len(real))
                kind = R.rng.choice(PPC64_KINDS)
                lines += ovr64(real[lv][0], real[lv][1], ppc64_entry(R.rng, kind), be)
                lines.append("walk %d" % addr); meta.append((ci, "ppc64 %s at read %d" % (kind, lv)))
                lines.append("clr")
            if len(real) == len(form) - 1:
                lines += ovr64(real[-1][0], real[-1][1], ppc64_entry(R.rng, "leaf"), be)
                lines.append("walk %d" % addr); meta.append((ci, "ppc64 present last-level PTE"))
                lines.append("clr")
    lines += same_page_cases(R)
    lines += other_methods(R)
    text = "\n".join(lines) + "\n"
    exe = R.build_harness("s_walk", ["s_walk.c"])
    rc, out, err = R.run_harness(exe, stdin_text=text)
    impl = kdf.obs(out)
    drv = R.run_driver("walk", text)
    model = kdf.obs(drv)
    spec = [l[7:].strip() for l in drv.split("\n") if l.startswith("# spec ")]
    walk_at = [j for j, l in enumerate(lines) if l.startswith("walk")]
    walks = [lines[j] for j in walk_at]
    nexp = 2 * len(walks)
    fail = None
    if rc != 0 or len(impl) != nexp:
        fail = (len(impl), "harness stopped after %d of %d observations (rc=%s): %s" % (len(impl), nexp, rc, err.strip()[:500]))
    # property on the implementation: one-call walk and launch+steps agree
    kinds = {}
    for i in range(0, len(impl) - 1, 2):
        w, s = impl[i].split(), impl[i + 1].split(" ")
        kinds[w[1]] = kinds.get(w[1], 0) + 1
        st_w, st_s = w[1], s[1]
        ok = st_w == st_s
        if ok and st_w == "ok":
            last = s[2].split("|")[-1].split(",")
            ok = (last[0] == "0" and last[1] == w[2] and last[2] == w[3])
        if "C16:" in impl[i]:
            ok = False
        if not ok and fail is None:
            fail = (i, "one-call walk and launch+single-steps disagree (or empty error message) for '%s': %s / %s" % (walks[i // 2], impl[i], impl[i + 1][:300]))
            break
    # property proper: the implementation agrees with the architectural specification
    nspec = 0
    ndev = {}           # tag -> number of inputs inside the documented deviation class
    ndiff = {}          # tag -> how many of them actually give a different result
    first_dev = {}      # tag -> (observation index, got, architecture) of the first input with a different result
    if fail is None:
        for i in range(0, len(impl) - 1, 2):
            sp = spec[i // 2] if i // 2 < len(spec) else "out-of-scope"
            if sp in ("out-of-scope", "notimpl", "unaligned"):
                continue
            got = impl[i].split(None, 1)[1].split(" C16")[0]
            if sp.startswith("known-deviation"):
                # documented deviation class (knownDeviation in the format's spec file): the line is
                # `known-deviation <tag> <what the library is expected to give, or -> | <architecture>`
                tag, rest = sp.split(None, 2)[1:]
                quirk, strict = [x.strip() for x in rest.split("|")]
                if tag not in DEV_FINDINGS and tag not in DEV_COUNTED:
                    fail = (i, "the driver reports an unknown deviation class '%s' for '%s'" % (tag, walks[i // 2]))
                    break
                ndev[tag] = ndev.get(tag, 0) + 1
                if got != strict:
                    ndiff[tag] = ndiff.get(tag, 0) + 1
                    first_dev.setdefault(tag, (i, got, strict))
                if quirk != "-" and got != quirk:
                    fail = (i, "translation of '%s' gives '%s'; inside the documented deviation class %s the library is expected to give '%s' (the architecture says '%s')" % (walks[i // 2], got, tag, quirk, strict))
                    break
                continue
            nspec += 1
            if got != sp:
                fail = (i, "translation of '%s' gives '%s', the architecture (resp. the method's definition) says '%s'" % (walks[i // 2], got, sp))
                break
    mism = kdf.diff_streams(impl, model)
    def context(idx):
        """the protocol lines needed to replay observation idx"""
        k = walk_at[idx // 2]
        j = k
        while j > 0 and not lines[j].startswith("mem "):
            j -= 1
        keep = [l for l in lines[j:k] if l.startswith(("mem ", "meth "))]
        c = k
        while c > j and lines[c - 1].startswith(("xor", "ovr")):
            c -= 1
        return "\n".join(keep + lines[c:k] + [lines[k]]) + "\n"
    # genuine, recorded findings: one report per class and run, the first input with a different result as replay
    for tag in sorted(first_dev):
        if tag in DEV_FINDINGS:
            i, got, strict = first_dev[tag]
            R.violation("translation of '%s' gives '%s', the architecture says '%s': %s (%d inputs of this class in this run, %d with a different result)"
                        % (walks[i // 2], got, strict, DEV_FINDINGS[tag], ndev[tag], ndiff[tag]),
                        dict(stream="walk", input=context(i), deviation_class=tag), key=tag)
    # per format: which descriptor kind ended the walk at which level / how deep the walks got
    akinds, depth = {}, {}
    for wi, (ci, what) in enumerate(meta):
        fmt, form = base[ci][1], base[ci][2]
        if 2 * wi + 1 >= len(impl):
            break
        if fmt in AARCH64:
            # r = field index, lookup level = 4 - r
            st = impl[2 * wi + 1].split(" ")
            rem = [int(x.split(",")[0]) for x in st[2].split("|")] if len(st) > 2 and st[2] else []
            if st[1] == "ok":
                blk = [a for a, b in zip(rem, rem[1:]) if a - b > 1]
                kind = "block@r%d" % (blk[0] - 1) if blk else "page"
            elif rem:
                kind = "%s@r%d" % (st[1], rem[-1] - 1)
            else:
                kind = st[1]
            d = akinds.setdefault("%s %s" % (fmt, ",".join(map(str, form))), {})
            d[kind] = d.get(kind, 0) + 1
        elif fmt in ("s390x", PPC64, "arm"):
            # "<fmt> <base|flip|planted>:<nfields>/<states seen>/<status>"
            st = impl[2 * wi + 1].split(" ")
            k = "%s %s:%d/%d/%s" % (fmt, "base" if what == "base" else "flip" if what.startswith("flip") else "planted",
                                    len(form), len(st[2].split("|")) if len(st) > 2 and st[2] else 0, st[1])
            depth[k] = depth.get(k, 0) + 1
    if fail:
        R.violation(fail[1], dict(stream="walk", input=context(min(fail[0], len(impl) - 1)) if impl else "", stderr=err[-1500:], broken_theorems=proof["broken"]))
    elif proof["broken"] or mism is not None:
        R.violation("proof obligation or correspondence broken: theorems %s; first differing observation %s" % (proof["broken"], mism),
                    dict(stream="walk", broken_theorems=proof["broken"], lean_log=proof["log"][-1500:],
                         first_diff=None if mism is None else dict(index=mism, input=context(mism), impl=impl[mism][:600] if mism < len(impl) else None,
                                                                   model=model[mism][:600] if mism < len(model) else None)),
                    found_input=False)
    per_fmt = {}
    for ci, _ in meta:
        per_fmt[base[ci][1]] = per_fmt.get(base[ci][1], 0) + 1
    cov = dict(obligations=max(proof["obligations"], 1), discharged=proof["discharged"],
               checker_cmd="cd lean && lake build %s && #print axioms on each theorem" % " ".join(PROOF_MODULES),
               trusted_base=["Lean 4 kernel", "memory is a pure function of (address space, address) served through get_page; reads are naturally aligned",
                             "harness/s_walk.c, gcc + ASan/UBSan"],
               broken_theorems=proof["broken"], theorems=THEOREMS, axioms=proof.get("axioms", {}), formats=formats,
               evaluations=len(walks), distinct_nontrivial=len(set(walks)), walks_per_format=per_fmt,
               rule="per format and paging form: random and boundary input addresses over a pseudo-random memory steered by and/or masks "
                    "(present bits, huge-page bits, small physical addresses; per-architecture descriptor-type/address-bit modes), both byte orders, "
                    "random roots/address spaces/PTE masks; for a sample of walks every single bit of the PTE read at every level is flipped (walking "
                    "ones); linear, lookup and memory-array methods; s390x: input addresses steered level by level so that table types match, all bit "
                    "flips for the first walks of every (form, depth); ppc64: memory modes for table pointers / leaf PTEs / both hugepd encodings, plus "
                    "crafted entries of every kind planted (ovr) at each level the base walk reads",
               traces_validated_against_impl=len(impl), compared_with_spec=nspec,
               # inputs inside a documented deviation class (not compared with the architecture) / with a different result
               excluded_known_deviation=ndev, known_deviation_differs=ndiff,
               aarch64_kinds=akinds, depth_histogram=depth,
               correspondence_first_diff=mism, status_histogram=kinds,
               samples=[dict(input=context(i)) for i in (0, (len(impl) // 4) * 2) if impl])
    return "proof", cov, ["architecture specifications are my reading of the manuals", "custom methods are outside the model",
                          "ppc64 (Linux software format): the reference is a recollection of the Linux sources; its deviation classes D1/D2 are excluded and counted, not claimed as defects",
                          "s390x: bit 52 of a valid page-table entry is ignored by the library (class s390x-D2, benign); inside the class the library must match the specification with that one quirk"]
