"""C03 — no byte sequence offered as a dump can crash or corrupt the process.

PARTIAL by nature (a Lean theorem cannot establish memory safety of 12 000 lines
of C).  What is proved: bounds / termination / no-zero-divisor theorems
(`Kdf.Props.C03.*`) about executable models of the parsing steps whose indices
come from the file; the models are tied to the real functions by the `bounds`
stream.  Everything else is *enumerated and fuzzed* under ASan+UBSan by the
`hostile` stream: each input in a forked child with a wall-clock bound, so that
a crash / sanitizer report / time-out is a result.
"""
import base64, concurrent.futures, json, os, re, struct, zlib
import kdf, dumpgen as dg

THEOREMS = ["Kdf.Props.C03." + t for t in (
    "rle_in_bounds", "rle_terminates", "rle_ok_len", "notes_in_bounds", "notes_terminates", "notes_ranges",
    "dd_header_accept", "dd_bitmap_no_overflow", "dd_bitmap_in_bounds", "flat_terminates", "flat_segs",
    "chunk_in_bounds", "cpusz_no_divzero", "pgshift_defined", "pgshift_spec", "hostile_input_safe_partial")]

ASAN = "detect_leaks=0:abort_on_error=0:allocator_may_return_null=1:handle_segv=1:max_allocation_size_mb=256"
UBSAN = "print_stacktrace=1:halt_on_error=0"
TMO_MS = 4000
VOFF = 0xffff880000000000


# ----------------------------------------------------------------------------- bases
class Base:
    """a well-formed dump (one or several files) with its field table and structure boundaries"""
    def __init__(self, name, fmt, paths, layouts, gen):
        self.name, self.fmt, self.paths, self.layouts, self.gen = name, fmt, paths, layouts, gen
        self.ids = []
        self.special = False


def make_bases(R):
    P = lambda n: R.path("c03-" + n)
    B = []
    def add(name, fmt, paths, layouts, gen):
        B.append(Base(name, fmt, paths, layouts, gen))

    notes = dg.std_notes()
    segs = [dict(pfn=2, npages=3, voff=VOFF), dict(pfn=8, npages=2, filepages=1, voff=VOFF)]
    dg.write_elf(P("elf64"), segs, notes=notes)
    add("elf64", "elf", [P("elf64")], [dg.elf_layout(P("elf64"), 64, False, 3, notes)], "write_elf(segs=%r, notes=std_notes())" % segs)

    nbe = dg.std_notes(be=True, prstatus=False)
    dg.write_elf(P("elf32be"), [dict(pfn=1, npages=2, voff=0xc0000000)], machine="ppc64", elfclass=32, be=True, notes=nbe)
    add("elf32be", "elf", [P("elf32be")], [dg.elf_layout(P("elf32be"), 32, True, 2, nbe)], "write_elf(elfclass=32, be=True, machine=ppc64)")

    dg.write_elf(P("elfflat.raw"), segs, notes=notes)
    dg.flatten_file(P("elfflat.raw"), P("elfflat"), chunk=1500)
    add("elfflat", "elf-flattened", [P("elfflat")], [dg.flattened_layout(P("elfflat"))], "flatten_file(write_elf(...), chunk=1500)")

    add("elfsec", "elf-xc_core", [P("elfsec")], [dg.write_elf_sections(P("elfsec"))], "write_elf_sections(p2m=True)")
    add("elfsecpfn", "elf-xc_core", [P("elfsecpfn")], [dg.write_elf_sections(P("elfsecpfn"), p2m=False)], "write_elf_sections(p2m=False)")
    add("elfseclast", "elf-xc_core", [P("elfseclast")], [dg.write_elf_sections(P("elfseclast"), prstatus_last=True)],
        "write_elf_sections(prstatus_last=True): .xen_prstatus ends at the page-aligned end of the file")

    pages = [1, 2, 3, 5, 9]
    info = dg.write_diskdump(P("dd"), pages, methods={2: "zlib", 3: "snappy", 5: "zstd"})
    noff = dg.add_diskdump_notes(P("dd"), notes.ljust((len(notes) + 7) & ~7, b"\0"))
    lay = dg.diskdump_layout(P("dd"), ndesc=len(pages), pdoff=info["pdoff"])
    lay["fields"] += dg.note_fields(noff, notes)
    lay["bounds"] = sorted(set(lay["bounds"]) | {noff, noff + len(notes), info["dataoff"]})
    add("dd", "diskdump", [P("dd")], [lay], "write_diskdump(pages=%r, zlib/snappy/zstd/raw) + add_diskdump_notes" % pages)

    info = dg.write_diskdump(P("ddv3"), [1, 2, 3], version=3, vmcoreinfo=b"OSRELEASE=5.4.0\nPAGESIZE=4096\n")
    add("ddv3", "diskdump", [P("ddv3")], [dg.diskdump_layout(P("ddv3"), ndesc=3, pdoff=info["pdoff"])], "write_diskdump(version=3, vmcoreinfo)")

    info = dg.write_diskdump(P("dd32"), [1, 2, 3], bits=32, machine="i686")
    add("dd32", "diskdump", [P("dd32")], [dg.diskdump_layout(P("dd32"), bits=32, ndesc=3, pdoff=info["pdoff"])], "write_diskdump(bits=32)")

    info = dg.write_diskdump(P("ddbe"), [1, 2, 3], be=True, machine="ppc64")
    add("ddbe", "diskdump", [P("ddbe")], [dg.diskdump_layout(P("ddbe"), be=True, ndesc=3, pdoff=info["pdoff"])], "write_diskdump(be=True)")

    dg.write_diskdump(P("ddflat"), [1, 2, 3, 5], flattened=dict(chunk=3000))
    add("ddflat", "diskdump-flattened", [P("ddflat")], [dg.flattened_layout(P("ddflat"))], "write_diskdump(flattened chunk=3000)")

    sp = [P("dds1"), P("dds2")]
    i1 = dg.write_diskdump(sp[0], range(0, 20), max_mapnr=20, split=(0, 10))
    i2 = dg.write_diskdump(sp[1], range(0, 20), max_mapnr=20, split=(10, 20))
    add("ddsplit", "diskdump-split", sp, [dg.diskdump_layout(sp[0], ndesc=10, pdoff=i1["pdoff"]), dg.diskdump_layout(sp[1], ndesc=10, pdoff=i2["pdoff"])],
        "write_diskdump(split (0,10) / (10,20))")

    for c, nm in ((1, "rle"), (2, "gzip"), (0, "raw")):
        add("lkcd-" + nm, "lkcd", [P("lkcd-" + nm)], [dg.c03_write_lkcd(P("lkcd-" + nm), [0, 1, 2, 5, 6], compress=c)], "write_lkcd(compress=%d)" % c)
    add("lkcd9be", "lkcd", [P("lkcd9be")], [dg.c03_write_lkcd(P("lkcd9be"), [0, 1, 2], version=9, be=True, machine="ppc64", data_offset=8192)],
        "write_lkcd(version=9, be=True, data_offset=8192)")

    for k in ("single", "diskset", "media"):
        add("sadump-" + k, "sadump", [P("sadump-" + k)], [dg.c03_write_sadump(P("sadump-" + k), [1, 2, 5], kind=k, max_mapnr=16, ram=[0, 1, 2, 3, 5, 6])],
            "write_sadump(kind=%s)" % k)
    add("s390", "s390dump", [P("s390")], [dg.c03_write_s390(P("s390"))], "write_s390()")
    add("s390os", "s390dump", [P("s390os")], [dg.c03_write_s390os(P("s390os"))],
        "c03_write_s390os(): s390x dump whose lowcore points to an os_info page and a VMCOREINFO note (parsed when addrxlat.ostype is set)")
    # the legacy path of the same set-up: no os_info, the lowcore points to a VMCOREINFO ELF note in dump memory (stand-alone dump and ELF core)
    add("s390lc", "s390dump", [P("s390lc")], [dg.c03_write_s390os(P("s390lc"), os_info=False)],
        "c03_write_s390os(os_info=False): s390x dump whose lowcore has a NULL os_info pointer and points to a VMCOREINFO note (LC_VMCORE_INFO)")
    add("elfs390lc", "elf", [P("elfs390lc")], [dg.c03_s390x_elf_lowcore(P("elfs390lc"))],
        "c03_s390x_elf_lowcore(): big-endian s390x ELF core without notes whose lowcore (NULL os_info) points to a VMCOREINFO note in a PT_LOAD")
    # ---- hand-made content (no field table: offered as they are, plus truncations of the small ones)
    def special(name, fmt, path, gen, bounds=()):
        size = os.path.getsize(path)
        B.append(Base(name, fmt, [path], [dict(fields=[], bounds=sorted(set(bounds) | {size}), size=size)], gen))
        B[-1].special = True
    one = [dict(pfn=2, npages=1, voff=VOFF)]
    for nm, vm, gen in (("empty", b"", "empty VMCOREINFO note (n_descsz = 0)"), ("nonl", b"X", "VMCOREINFO 'X' without '=' and newline"),
                        ("manyeq", b"====\n=\n\n\n=x\n", "VMCOREINFO made of '=' and empty lines"),
                        ("dots", b"a.b=1\na..b=2\nc.=3\n..=4\n.=5\n.d=6\n", "VMCOREINFO keys with leading, trailing and double dots"),
                        ("pagesize", b"PAGESIZE=0\nPAGESIZE=3\nPAGESIZE=99999999999999999999\nOSRELEASE=\n", "VMCOREINFO with invalid PAGESIZE lines"),
                        ("types", b"SYMBOL(x)=zz\nSYMBOL()=1\nSYMBOL(=1\nNUMBER(phys_base)=-1\nLENGTH(a.b.c)=0x10\nSIZE(a)=1\nSIZE(a.b)=2\nOFFSET(a)=3\n", "VMCOREINFO with odd typed lines"),
                        ("deepkey", b".".join([b"a"] * 30000) + b"=1\n", "VMCOREINFO line whose key has 30000 dot-separated components (60 KB)"),
                        ("bigkey", b"A" * (9 << 20) + b"=1\n", "VMCOREINFO line with a 9 MiB key")):
        dg.write_elf(P("elf-vmci-" + nm), one, notes=dg.std_notes(vmcoreinfo=vm, prstatus=False))
        special("elf-vmci-" + nm, "elf", P("elf-vmci-" + nm), "write_elf(notes=std_notes(vmcoreinfo=<%s>))" % gen, bounds=(5 << 20, (5 << 20) + 4096) if len(vm) > (1 << 20) else () if len(vm) > 4096 else (64, 200, 236))
    ee = bytes([0, 255, 0xee]) * 16                      # 4080 bytes
    streams = {1: ee + bytes([0, 17, 0xdd]),             # run one byte longer than the room left
               2: ee + bytes([0, 16, 0xdd]),             # fills the page exactly
               3: bytes([0x41]) * 4097,                  # one literal too many
               4: ee + bytes([0x41]) * 15 + bytes([0, 2, 0xdd]),
               5: ee + bytes([0, 16]),                   # ends inside the escape
               6: ee + bytes([0, 17, 0xdd]) + bytes([0, 255, 0xcc]) * 300}    # over-long run followed by 76 KB more
    dg.c03_write_lkcd(P("lkcd-rle-edge"), [0, 1, 2, 3, 4, 5, 6], compress=1, streams=streams)
    special("lkcd-rle-edge", "lkcd", P("lkcd-rle-edge"), "write_lkcd(compress=RLE, hand-made streams at the page-size boundary)")
    # LKCD dumps whose header announces 4 KiB pages while the page data are compressed 64 KiB pages (dp_size between the two
    # sizes): unreadable as they are, readable once the application has set arch.page_size (the harness script does)
    import random as _random, zlib as _zlib
    prng = _random.Random(R.rng.getrandbits(48))
    for comp, nm in ((1, "rle"), (2, "gzip")):
        streams = {}
        for f in (0, 1, 2):
            nlit = prng.choice([0x7000, 0x8000, 0x1001, 0xff00])
            lit = bytes(prng.randint(1, 255) for _ in range(nlit))
            rest = 65536 - nlit
            if comp == 1:
                streams[f] = lit + bytes([0, 255, 0xee]) * (rest // 255) + (bytes([0, rest % 255, 0xdd]) if rest % 255 else b"")
            else:
                streams[f] = _zlib.compress(lit + bytes(rest), 1)
        info = dg.c03_write_lkcd(P("lkcd-ps64k-" + nm), [0, 1, 2], ps=65536, compress=comp, streams=streams, data_offset=65536)
        with open(P("lkcd-ps64k-" + nm), "r+b") as fh:
            fh.seek(20); fh.write((4096).to_bytes(4, "little"))
        add("lkcd-ps64k-" + nm, "lkcd", [P("lkcd-ps64k-" + nm)], [info],
            "write_lkcd(ps=65536, compress=%d, streams of %s bytes) with dh_page_size patched to 4096" % (comp, [len(streams[f]) for f in (0, 1, 2)]))
    # ---- file sets that do not belong together (no field table)
    def fileset(name, paths, gen):
        B.append(Base(name, "fileset", paths, [dict(fields=[], bounds=[], size=os.path.getsize(q)) for q in paths], gen))
        B[-1].special = True
    fileset("set-dd-twice", [P("dd"), P("dd")], "the same diskdump file twice")
    fileset("set-split-reversed-dup", [P("dds2"), P("dds1"), P("dds2")], "split diskdump parts 2,1,2")
    fileset("set-split-missing", [P("dds2")], "second part of a split diskdump alone")
    fileset("set-elf-dd", [P("elf64"), P("dd")], "ELF core + diskdump as one set")
    fileset("set-dd-elf", [P("dd"), P("elf64")], "diskdump + ELF core as one set")
    fileset("set-lkcd-twice", [P("lkcd-rle"), P("lkcd-rle")], "the same LKCD file twice")
    fileset("set-sadump-diskset-twice", [P("sadump-diskset"), P("sadump-diskset")], "the same SADUMP disk twice")
    fileset("set-sadump-single-media", [P("sadump-single"), P("sadump-media")], "SADUMP single partition + media backup")
    fileset("set-flat-plain", [P("ddflat"), P("dds1")], "flattened diskdump + split part")
    fileset("set-s390-elf", [P("s390"), P("elf64")], "s390 dump + ELF core")
    bid = 0
    for b in B:
        for _ in b.paths:
            b.ids.append(bid)
            bid += 1
        b.data = [open(p, "rb").read() for p in b.paths]
    return B


def nshards(R):
    """parallel harness processes: few in the quick tier so that the 4 s per-input bound also holds on a loaded machine"""
    return min(kdf.NCPU, 8 if R.tier == "quick" else 16)


def field_values(orig, width):
    m = (1 << (8 * width)) - 1
    vs = [0, 1, m, m >> 1, (m >> 1) + 1, (orig + 1) & m, (orig - 1) & m, (orig * 2) & m]
    out = []
    for v in vs:
        if v != orig and v not in out:
            out.append(v)
    return out


def enc(v, width, be):
    return v.to_bytes(width, "big" if be else "little").hex()


def get_field(data, off, width, be):
    return int.from_bytes(data[off:off + width], "big" if be else "little") if off + width <= len(data) else 0


class Case:
    __slots__ = ("cid", "base", "muts", "kind", "desc")
    def __init__(self, cid, base, muts, kind, desc):
        self.cid, self.base, self.muts, self.kind, self.desc = cid, base, muts, kind, desc
    def line(self, tmo=TMO_MS):
        parts = ["case", self.cid, str(tmo), str(len(self.base.ids))]
        for fi, bid in enumerate(self.base.ids):
            ms = [m for m in self.muts if m[0] == fi]
            parts += [str(bid), str(len(ms))]
            for m in ms:
                parts += [str(x) for x in m[1:]]
        return " ".join(parts)
    def files(self):
        out = []
        for fi, d in enumerate(self.base.data):
            b = bytearray(d)
            for m in self.muts:
                if m[0] != fi:
                    continue
                if m[1] == "p":
                    raw = bytes.fromhex(m[3])
                    if m[2] + len(raw) > len(b):
                        b += bytes(m[2] + len(raw) - len(b))
                    b[m[2]:m[2] + len(raw)] = raw
                elif m[1] == "t":
                    b = b[:m[2]] if m[2] <= len(b) else b + bytes(m[2] - len(b))
                elif m[1] == "a":
                    b += bytes.fromhex(m[2])
            out.append(bytes(b))
        return out


def gen_cases(R, bases):
    rng = R.rng
    cases = []
    n = [0]
    def mk(base, muts, kind, desc):
        n[0] += 1
        cases.append(Case("c%d" % n[0], base, muts, kind, desc))
    # 0. every base unmodified
    for b in bases:
        mk(b, [], "base", "%s unmodified" % b.name)
    # 1. single-field corruption: every field x value class
    singles = []
    for b in bases:
        for fi, lay in enumerate(b.layouts):
            for (name, off, w, be) in lay["fields"]:
                o = get_field(b.data[fi], off, w, be)
                for v in field_values(o, w):
                    singles.append((b, fi, name, off, w, be, o, v))
    for (b, fi, name, off, w, be, o, v) in singles:
        mk(b, [(fi, "p", off, enc(v, w, be))], "single", "%s: %s[file %d @%d,%d] %#x -> %#x" % (b.name, name, fi, off, w, o, v))
    # 2. truncation at every structure boundary (and one byte either side), plus zero-extension by a page
    for b in bases:
        for fi, lay in enumerate(b.layouts):
            if (lay["size"] > (1 << 20) and len(lay["bounds"]) > 8) or b.name.endswith("deepkey"):
                continue            # (every variant of the deep-key input runs into the 4 s bound: once is enough)
            for x in lay["bounds"]:
                for d in (-1, 0, 1):
                    if 0 <= x + d < lay["size"]:
                        mk(b, [(fi, "t", x + d)], "trunc", "%s: file %d truncated to %d bytes (boundary %d%+d)" % (b.name, fi, x + d, x, d))
            mk(b, [(fi, "t", lay["size"] + 4096)], "trunc", "%s: file %d zero-extended by a page" % (b.name, fi))
    # 3. sampled double-field corruption
    ndbl = 1200 if R.tier == "quick" else 60000
    for _ in range(ndbl):
        s1 = rng.choice(singles)
        b = s1[0]
        cand = [(fi, f) for fi, lay in enumerate(b.layouts) for f in lay["fields"]]
        fi2, (name2, off2, w2, be2) = rng.choice(cand)
        o2 = get_field(b.data[fi2], off2, w2, be2)
        v2 = rng.choice(field_values(o2, w2))
        if (fi2, off2) == (s1[1], s1[3]):
            continue
        mk(b, [(s1[1], "p", s1[3], enc(s1[7], s1[4], s1[5])), (fi2, "p", off2, enc(v2, w2, be2))], "double",
           "%s: %s %#x -> %#x and %s %#x -> %#x" % (b.name, s1[2], s1[6], s1[7], name2, o2, v2))
    # 3b. every pair of fields of one small descriptor (both sizes of a note header, size and flags of a page descriptor ...): the
    # layout of what is allocated and read for a descriptor depends on its fields together.  Quick tier: note headers with the
    # value classes {0, 1, orig-1, max}; thorough tier: every descriptor of up to 4 fields with every value class
    for b in bases:
        for fi, lay in enumerate(b.layouts):
            groups = {}
            for f in lay["fields"]:
                if "." in f[0]:
                    groups.setdefault(f[0].split(".")[0], []).append(f)
            for g, fs in groups.items():
                if not 2 <= len(fs) <= 4 or (R.tier == "quick" and not g.startswith("note")):
                    continue
                for i in range(len(fs)):
                    for j in range(i + 1, len(fs)):
                        (n1, o1, w1, e1), (n2, o2, w2, e2) = fs[i], fs[j]
                        v1o, v2o = get_field(b.data[fi], o1, w1, e1), get_field(b.data[fi], o2, w2, e2)
                        def classes(o, w):
                            m = (1 << (8 * w)) - 1
                            return field_values(o, w) if R.tier != "quick" else [v for v in dict.fromkeys([0, 1, (o - 1) & m, m]) if v != o]
                        for v1 in classes(v1o, w1):
                            for v2 in classes(v2o, w2):
                                mk(b, [(fi, "p", o1, enc(v1, w1, e1)), (fi, "p", o2, enc(v2, w2, e2))], "pair",
                                   "%s: %s %#x -> %#x and %s %#x -> %#x" % (b.name, n1, v1o, v1, n2, v2o, v2))
    # 4. field corruption combined with truncation / extension (sampled)
    for _ in range(300 if R.tier == "quick" else 6000):
        s1 = rng.choice(singles)
        b = s1[0]
        lay = b.layouts[s1[1]]
        x = rng.choice(lay["bounds"] + [lay["size"] + 1, lay["size"] + 4096])
        mk(b, [(s1[1], "p", s1[3], enc(s1[7], s1[4], s1[5])), (s1[1], "t", max(x, s1[3] + s1[4]))], "field+trunc",
           "%s: %s %#x -> %#x, file %d cut/extended to %d" % (b.name, s1[2], s1[6], s1[7], s1[1], max(x, s1[3] + s1[4])))
    # 6. regression corpus: minimised inputs of past failures (found by the thorough tier's evolving stream), run on every tier
    try:
        regress = json.load(open(os.path.join(kdf.VERIF, "corpus", "c03_regress.json")))
    except OSError:
        regress = []
    for r in regress:
        for b in bases:
            if b.name == r["base"]:
                mk(b, [tuple(m) for m in r["mutations"]], "regress", "%s: past failure (%s)" % (b.name, r["why"]))
    # 5. degenerate files
    b0 = bases[0]
    for size in (0, 1, 7, 8, 63, 64, 4095, 4096, 4097):
        mk(b0, [(0, "t", 0), (0, "t", size)], "degenerate", "all-zero file of %d bytes" % size)
    for b in bases:
        if b.special:
            continue
        for k in (4, 8, 16, 64, 512):
            mk(b, [(0, "t", min(k, len(b.data[0])))], "degenerate", "%s: only the first %d bytes" % (b.name, k))
    return cases


def preamble(bases):
    lines = []
    for b in bases:
        for fi, (bid, p) in enumerate(zip(b.ids, b.paths)):
            lines.append("base %d %s" % (bid, p))
            for (name, off, w, be) in b.layouts[fi]["fields"]:
                lines.append("field %d %d %d %d" % (bid, off, w, be))
    return lines


RES = re.compile(r"(\S+) (ok|badstatus|timeout|crash) open=(\S+) ops=(\d+) last=(\S+) digest=(\S+)(?: sig=(\S+))?(?: new=(\d+))?")


def run_shards(R, exe, pre, case_lines, nshards, args=(), extra_tail=None, timeout=900):
    shards = [[] for _ in range(nshards)]
    for i, l in enumerate(case_lines):
        shards[i % nshards].append(l)
    def one(k):
        text = "\n".join(pre + shards[k] + (extra_tail(k) if extra_tail else [])) + "\n"
        return R.run_harness(exe, args=args, stdin_text=text, timeout=timeout, env=dict(ASAN_OPTIONS=ASAN, UBSAN_OPTIONS=UBSAN))
    with concurrent.futures.ThreadPoolExecutor(nshards) as ex:
        return list(ex.map(one, range(nshards)))


def pack_files(files):
    return [base64.b64encode(zlib.compress(f, 9)).decode() for f in files]


def finding_key(case_fmt, sig, base=None):
    """stable key of a finding: format + failure signature (kind@function); for the hand-made
    inputs the name of the input + the kind of failure"""
    if base is not None and base.special and not sig.startswith("ubsan-misaligned-address@"):
        return "%s:%s" % (base.name, sig.split("@")[0])
    if sig.startswith("ubsan-misaligned-address@"):
        # one root cause (multi-byte fields are loaded in place from file data at file-controlled
        # offsets), many call sites: a single class
        return "misaligned-load-of-file-data"
    return "%s:%s" % (case_fmt, sig)


def hostile_stream(R, lib, cflags):
    bases = make_bases(R)
    cases = gen_cases(R, bases)
    exe = R.build_harness("s_hostile", ["s_hostile.c"], lib=lib, cflags=cflags)
    pre = preamble(bases)
    nsh = nshards(R)
    outs = run_shards(R, exe, pre, [c.line() for c in cases], nsh)
    byid = {c.cid: c for c in cases}
    results = {}
    broken = []
    for rc, out, err in outs:
        for o in kdf.obs(out):
            m = RES.match(o)
            if m:
                results[m.group(1)] = m
        if rc != 0:
            broken.append((rc, err[-500:]))
    stats = dict(ok=0, badstatus=0, timeout=0, crash=0, missing=0)
    opens = {}
    kinds = {}
    fails = []
    for c in cases:
        m = results.get(c.cid)
        if not m:
            stats["missing"] += 1
            fails.append((c, None))
            continue
        stats[m.group(2)] += 1
        k = "%s/%s/open=%s" % (c.base.fmt, c.kind, m.group(3))
        kinds[k] = kinds.get(k, 0) + 1
        opens[m.group(3)] = opens.get(m.group(3), 0) + 1
        if m.group(2) != "ok":
            fails.append((c, m))
    return bases, cases, results, stats, kinds, opens, fails, broken, exe, pre


FUZZIN = re.compile(r"# input (\S+) (\d+) (.*)")


def parse_fuzz_input(bases, text):
    """'# input' line of the harness (diff against the bases) -> Case"""
    m = FUZZIN.match(text)
    tag, nf, rest = m.group(1), int(m.group(2)), m.group(3).split()
    byid = {}
    for b in bases:
        for fi, bid in enumerate(b.ids):
            byid[bid] = (b, fi)
    muts, i, base = [], 0, None
    for k in range(nf):
        bid, nm = int(rest[i]), int(rest[i + 1])
        i += 2
        b, fi = byid[bid]
        base = base or b
        for _ in range(nm):
            if rest[i] == "p":
                muts.append((fi, "p", int(rest[i + 1]), rest[i + 2])); i += 3
            elif rest[i] == "t":
                muts.append((fi, "t", int(rest[i + 1]))); i += 2
            else:
                muts.append((fi, "a", rest[i + 1])); i += 2
    # truncation first (the harness' diff is relative to the truncated/extended base)
    muts.sort(key=lambda x: (x[0], 0 if x[1] == "t" else 1))
    return tag, base, muts


def fuzz_stream(R, bases, cases, seconds, iters):
    """coverage-guided mutation loop inside the harness (library built with -fsanitize-coverage=trace-pc),
    one independent loop per CPU, seeded from R.rng; corpus = the systematic cases that add coverage"""
    lib, cflags = R.build_lib(extra=["-fsanitize-recover=alignment", "-fsanitize-coverage=trace-pc"], tag="libcov")
    exe = R.build_harness("s_hostile_cov", ["s_hostile.c"], lib=lib, cflags=[c for c in cflags if not c.startswith("-fsanitize-coverage")])
    pre = preamble(bases)
    nsh = nshards(R)
    seeds = [R.rng.getrandbits(48) for _ in range(nsh)]
    basecases = [c for c in cases if c.kind == "base" and not c.base.name.endswith(("deepkey", "bigkey"))]
    others = [c for c in cases if c.kind in ("single", "trunc")]
    def shard_lines(k):
        pick = basecases + [others[i] for i in range(k, len(others), nsh)][:90 if R.tier == "quick" else 1500]
        return [c.line() for c in pick]
    shards = [shard_lines(k) for k in range(nsh)]
    def one(k):
        text = "\n".join(pre + shards[k] + ["fuzz %d %d %d %d" % (seeds[k], iters, TMO_MS, seconds)]) + "\n"
        return R.run_harness(exe, args=["cov"], stdin_text=text, timeout=seconds + 600, env=dict(ASAN_OPTIONS=ASAN, UBSAN_OPTIONS=UBSAN))
    with concurrent.futures.ThreadPoolExecutor(nsh) as ex:
        outs = list(ex.map(one, range(nsh)))
    fails, tot = [], dict(iters=0, corpus=0, edges=0, fails=0)
    for k, (rc, out, err) in enumerate(outs):
        if rc != 0:
            raise kdf.CheckBroken("fuzz harness failed (rc=%s): %s" % (rc, err[-400:]))
        pending = None
        for l in out.split("\n"):
            if l.startswith("# input "):
                pending = l
            elif l.startswith("> f") and pending:
                m = RES.match(l[2:])
                tag, base, muts = parse_fuzz_input(bases, pending)
                if m and base:
                    c = Case("s%d%s" % (k, tag), base, muts, "fuzz", "%s: fuzzer-evolved input (shard %d seed %d, %s), %d byte runs differ from the base" % (base.name, k, seeds[k], tag, len(muts)))
                    fails.append((c, m))
                pending = None
            elif l.startswith("> fuzz-done"):
                for kk, v in re.findall(r"(\w+)=(\d+)", l):
                    tot[kk] = tot.get(kk, 0) + int(v) if kk != "edges" else max(tot.get(kk, 0), int(v))
    return fails, tot, exe, pre, seeds


def report_fails(R, fails, exe, pre, stream="hostile"):
    """one violation per distinct (format, signature); the replay carries the smallest failing input of the class"""
    # a wall-clock time-out observed while 8..16 harness processes (and whatever else the machine runs) compete is re-examined
    # with the input on its own: only a time-out that repeats is reported
    confirmed, retried = [], 0
    for c, m in fails:
        if m and m.group(2) == "timeout" and retried < 24:
            retried += 1
            rc1, out1, _ = R.run_harness(exe, stdin_text="\n".join(pre + [c.line()]) + "\n", timeout=120, env=dict(ASAN_OPTIONS=ASAN, UBSAN_OPTIONS=UBSAN))
            again = [RES.match(o) for o in kdf.obs(out1)]
            again = [a for a in again if a]
            if again and again[-1].group(2) != "timeout":
                R.notes.append("time-out of %s not reproduced when the input ran on its own (%s)" % (c.desc[:80], again[-1].group(2)))
                if again[-1].group(2) == "ok":
                    continue
                m = again[-1]
        confirmed.append((c, m))
    fails = confirmed
    classes = {}
    for c, m in fails:
        sig = m.group(7) if m else "harness-lost-case"
        key = finding_key(c.base.fmt, sig, c.base)
        cur = classes.get(key)
        if cur is None or len(c.muts) < len(cur[0].muts):
            classes[key] = (c, m, (cur[2] if cur else 0) + 1)
        else:
            classes[key] = (cur[0], cur[1], cur[2] + 1)
    for key, (c, m, cnt) in sorted(classes.items()):
        # re-run the representative alone, verbosely, to attach the sanitizer report (a time-out has none)
        rc, out, err = (0, "", "") if (m and m.group(2) == "timeout") else R.run_harness(exe, args=["verbose"], stdin_text="\n".join(pre + [c.line()]) + "\n", timeout=120,
                                     env=dict(ASAN_OPTIONS=ASAN, UBSAN_OPTIONS=UBSAN))
        errl = [l[6:] for l in out.split("\n") if l.startswith("# err ")]
        again = [o for o in kdf.obs(out)]
        what = ("%s: %s -> %s (%d inputs of this class)" % (key, c.desc, (m.group(0).split(" ", 1)[1] if m else "no result line"), cnt))
        R.violation(what, dict(stream=stream, key=key, input=c.desc, base=dict(name=c.base.name, format=c.base.fmt, generator=c.base.gen),
                               mutations=[list(x) for x in c.muts], case_line=c.line(), files_zlib_b64=pack_files(c.files()),
                               result=m.group(0) if m else None, rerun=again[-1:] if again else None, sanitizer_report=errl[:25],
                               how="write the files, kdump_open_fdset(), then the fixed script of harness/s_hostile.c (attr enumeration, page maps, reads)"),
                    key=key)
    return classes


# ----------------------------------------------------------------------------- bounds stream
WRAP = "-Wl,--wrap=_kdumpfile_priv_fcache_get_chunk,--wrap=_kdumpfile_priv_pfn_regions_from_bitmap,--wrap=addrxlat_map_set"
M32, M64 = (1 << 32) - 1, (1 << 64) - 1


def rle_ref(src, cap):
    """independent reference decoder of the LKCD run-length format: ('ok', bytes) | ('err',)"""
    out, i = bytearray(), 0
    while i < len(src):
        b = src[i]; i += 1
        if b == 0:
            if i >= len(src):
                return ("err",)
            n = src[i]; i += 1
            if n:
                if len(out) + n > cap or i >= len(src):
                    return ("err",)
                out += bytes([src[i]]) * n; i += 1
                continue
        if len(out) >= cap:
            return ("err",)
        out.append(b)
    return ("ok", bytes(out))


def gen_rle(rng, n):
    cases = []
    def tok():
        k = rng.random()
        if k < 0.45: return bytes([rng.randint(1, 255)])
        if k < 0.55: return b"\0\0"
        return bytes([0, rng.choice([1, 2, 3, 5, 17, 254, 255, rng.randint(1, 255)]), rng.randint(0, 255)])
    for cap in (0, 1, 2, 3, 7, 16, 40, 300, 4096):
        # boundary family: fill to cap-k, then a run / literals of k-1, k, k+1
        for k in range(0, 5):
            for d in (-1, 0, 1, 2):
                pre = cap - k
                if pre < 0 or k + d < 0:
                    continue
                s = b"".join(bytes([0, min(255, pre - j), 0xee]) for j in range(0, pre, 255))
                cases.append((cap, s + (bytes([0, k + d, 0xdd]) if 0 < k + d < 256 else b"")))
                cases.append((cap, s + bytes([0x41]) * (k + d)))
                cases.append((cap, s + b"\0\0" * (k + d)))
                cases.append((cap, s + bytes([0, k + d, 0xdd]) + bytes([0, 255, 0xcc]) * 3 if 0 < k + d < 256 else s + b"\0"))
                cases.append((cap, s + bytes([0, max(1, (k + d) % 256)])))          # truncated inside the escape
    while len(cases) < n:
        cap = rng.choice([0, 1, 2, 5, 16, 33, 64, 200])
        if rng.random() < 0.7:
            s = b"".join(tok() for _ in range(rng.randint(0, 40)))
        else:
            s = bytes(rng.choice([0, 0, 1, 2, 255, rng.randint(0, 255)]) for _ in range(rng.randint(0, 30)))
        if rng.random() < 0.3 and s:
            s = s[:rng.randrange(len(s))]
        cases.append((cap, s))
    return cases


def notes_ref(data, be):
    """independent reading of the ELF note format: list of (type, nameoff, namesz, descoff, descsz)"""
    out, p, size = [], 0, len(data)
    E = ">" if be else "<"
    while size - p >= 12:
        namesz, descsz, ty = struct.unpack_from(E + "III", data, p)
        descoff = 12 + ((namesz + 3) & ~3)
        if p + descoff + descsz > size:
            break
        out.append((ty, p + 12, namesz, p + descoff, descsz))
        p += descoff + ((descsz + 3) & ~3)
    return out


def gen_notes(rng, n):
    cases = []
    weird = [0, 1, 2, 3, 4, 5, 7, 8, 11, 12, 13, 16, 0x7fffffff, 0x80000000, 0xfffffffc, 0xfffffffd, 0xffffffff]
    while len(cases) < n:
        be = rng.random() < 0.3
        E = ">" if be else "<"
        blob = b""
        for _ in range(rng.randint(0, 4)):
            blob += dg.elf_note(bytes(rng.randint(65, 90) for _ in range(rng.randint(0, 9))), rng.randint(0, 9),
                                bytes(rng.randint(0, 255) for _ in range(rng.randint(0, 21))), be)
        k = rng.random()
        if k < 0.5:                                   # a last note with hostile sizes, truncated anywhere
            namesz = rng.choice(weird + [rng.randint(0, 40)])
            descsz = rng.choice(weird + [rng.randint(0, 40)])
            tail = struct.pack(E + "III", namesz, descsz, 7) + bytes(rng.randint(1, 255) for _ in range(rng.choice([0, 1, 3, 4, 8, 11, 12, 16, 24, 40])))
            blob += tail
        elif k < 0.7 and blob:
            blob = blob[:rng.randrange(len(blob) + 1)]
        elif k < 0.8 and len(blob) >= 12:             # corrupt a size field of the first note
            f = rng.choice([0, 4])
            blob = blob[:f] + struct.pack(E + "I", rng.choice(weird)) + blob[f + 4:]
        cases.append((be, blob))
    return cases


def flat_ref(fsz, body):
    """independent reading of the flattened format; body = file content from offset 4096.
    ('ok', [(pos,size,flatoff)]) | ('corrupt',) | ('readerr',)"""
    bound = max((fsz + 4095) // 4096 * 4096, 4096)     # end of the last block; the first block is always readable
    img = (bytes(4096) + body)[:fsz].ljust(bound, b"\0")
    pos, segs = 4096, []
    while True:
        if pos + 16 > bound:
            return ("readerr",)             # reaches into a block wholly behind the end of the file
        off, size = struct.unpack_from(">qq", img, pos)
        if off == -1:
            return ("ok", segs)
        if off < 0 or size <= 0:
            return ("corrupt",)
        pos += 16
        if size > (1 << 63) - 1 - pos:
            return ("corrupt",)
        segs.append((off, size, pos - off))
        pos += size


def gen_flat(rng, n):
    cases = []
    while len(cases) < n:
        recs, body = [], b""
        for _ in range(rng.randint(0, 6)):
            off = rng.choice([0, 0, 5, 16, 40, 64, 100, rng.randint(0, 200)])
            size = rng.choice([1, 2, 8, 16, 17, 40, rng.randint(1, 64)])
            recs.append((off, size))
            body += struct.pack(">qq", off, size) + bytes(rng.randint(1, 255) for _ in range(size))
        k = rng.random()
        end = struct.pack(">qq", -1, 0)
        if k < 0.55:
            body += end
        elif k < 0.7:
            body += struct.pack(">qq", rng.choice([-2, -(1 << 63), 0, 5]), rng.choice([0, -1, -(1 << 63), (1 << 63) - 1, (1 << 63) - 4200, 1 << 40])) + end
        elif k < 0.8:
            pass                                        # no END record
        else:
            body += end
            body = body[:rng.randrange(len(body) + 1)]  # truncated
        fsz = 4096 + len(body)
        if rng.random() < 0.15:
            fsz = rng.choice([0, 1, 4095, 4096, 4097, 4111, 4112, fsz - 1, fsz + 1, 8192, fsz + 4096])
        cases.append((max(fsz, 0), body))
    return cases


def bounds_stream(R, lib, cflags):
    """the real functions vs (1) independent expectations in Python and (2) the Lean models"""
    rng = R.rng
    q = R.tier == "quick"
    lines, meta = [], []
    def add(line, m):
        lines.append(line); meta.append(m)
    for cap, s in gen_rle(rng, 2500 if q else 40000):
        add("rle %d %s" % (cap, s.hex()), ("rle", cap, s))
    for be, blob in gen_notes(rng, 1500 if q else 30000):
        add("notes %d %s" % (1 if be else 0, blob.hex()), ("notes", be, blob))
    bss = [0, 1, -1, 4095, 4096, 4097, 8192, 12288, 65536, 262144, 262145, 524288, 0x7fffffff, -0x80000000, -4096]
    blks = [0, 1, 2, 3, 0x7fffffff, 0x80000000, M32]
    for bs in bss:
        for bl in blks:
            for mp in sorted({0, 1, M32, (8 * bl * max(bs, 0)) & M32, (8 * bl * max(bs, 0) + 1) & M32, max(0, 8 * bl * max(bs, 0) - 1) & M32}):
                add("ddhdr %d %d %d" % (bs, bl, mp), ("ddhdr", bs, bl, mp))
    subs = [-(1 << 31), -2, -1, 0, 1, 2, 3, 0x7ffffffe, 0x7fffffff]
    for ps in (4096, 8192, 65536, 262144):
        for sub in subs + [rng.randint(0, 1 << 20) for _ in range(2 if q else 20)]:
            for bl in blks + [4, 5, 6, 7] + [rng.randint(0, 1 << 22) for _ in range(2 if q else 20)]:
                full = bl * ps * 8
                for mx in sorted({0, 1, full // 2, full // 2 + 1, max(full // 2 - 1, 0), full, full + 1, max(full - 1, 0), (bl // 2) * ps * 8, (bl // 2) * ps * 8 + 1, M64, rng.getrandbits(40)}):
                    add("ddbmp %d %d %d %d" % (ps, sub, bl, mx & M64), ("ddbmp", ps, sub, bl, mx & M64))
    for fsz, body in gen_flat(rng, 250 if q else 8000):
        add("flat %d %s" % (fsz, body.hex()), ("flat", fsz, body))
        ref = flat_ref(fsz, body)
        if ref[0] == "ok":
            pts = sorted({0, 1} | {x + d for (o, sz, _) in ref[1] for x in (o, o + sz) for d in (-2, -1, 0, 1)} | {250, 1 << 20, (1 << 63) - 5})
            for ppos in pts:
                if ppos < 0:
                    continue
                for ln in (1, 2, 8, 17, 64):
                    add("chunk %d %d" % (ppos, ln), ("chunk", ppos, ln, ref[1]))
    for ps in sorted({0, 1, 2, 3, 4095, 4096, 4097, 12288, 1 << 31, 1 << 32, 1 << 63, (1 << 63) + 1, M64} | {1 << k for k in range(64)} | {(1 << k) + 1 for k in range(2, 64)} | {(1 << k) - 1 for k in range(2, 64)}):
        add("pgshift %d" % ps, ("pgshift", ps))
    text = "\n".join(lines) + "\n"
    exe = R.build_harness("s_bounds", ["s_bounds.c"], lib=lib, cflags=cflags, ldflags=[WRAP])
    rc, out, err = R.run_harness(exe, stdin_text=text, timeout=900, env=dict(ASAN_OPTIONS="detect_leaks=0:allocator_may_return_null=1:max_allocation_size_mb=256"))
    impl = kdf.obs(out)
    notesl = [l for l in out.split("\n") if l.startswith("# ")]
    fail = None
    if rc != 0 or len(impl) != len(lines):
        k = min(len(impl), len(lines) - 1)
        fail = (k, "the real function stopped (rc=%s) on '%s': %s" % (rc, lines[k][:300], " | ".join([l for l in err.split("\n") if "ERROR" in l or "runtime error" in l or " in " in l][:4])[:600]))
    if notesl and not fail:
        fail = (0, notesl[0])
    kinds = {}
    # (1) the property on the implementation's own outputs, against independent expectations
    cur_flat = None
    for i, (m, o) in enumerate(zip(meta, impl)):
        if fail and i >= fail[0]:
            break
        want = None
        if m[0] == "rle":
            r = rle_ref(m[2], m[1])
            want = "rle err" if r[0] == "err" else ("rle ok %d %s" % (len(r[1]), r[1].hex())).rstrip() if r[1] else "rle ok 0"
            o = o.rstrip()
            kinds["rle/" + r[0]] = kinds.get("rle/" + r[0], 0) + 1
        elif m[0] == "notes":
            ns = notes_ref(m[2], m[1])
            want = ("notes %d" % len(ns)) + "".join(" %d:%d:%d:%d:%d" % x for x in ns)
            # the property itself: everything handed out lies inside the buffer
            for t in o.split()[2:]:
                ty, no, nsz, do, dsz = (int(x) for x in t.split(":"))
                if no < 0 or do < 0 or no + nsz > len(m[2]) or do + dsz > len(m[2]):
                    fail = fail or (i, "do_notes handed out a range outside its %d-byte buffer: note %s (input %s)" % (len(m[2]), t, m[2].hex()))
            kinds["notes/%d" % min(len(ns), 4)] = kinds.get("notes/%d" % min(len(ns), 4), 0) + 1
        elif m[0] == "ddhdr":
            bs, bl, mp = m[1:]
            acc = 4096 <= bs <= 262144 and bs & (bs - 1) == 0 and mp <= 8 * bl * bs
            want = "ddhdr accept" if acc else "ddhdr reject"
            kinds[want] = kinds.get(want, 0) + 1
        elif m[0] == "ddbmp":
            t = o.split()
            if t[1] == "req":
                off, ln, descoff, mx, memoff = (int(x) for x in t[2:7])
                ps, sub, bl, mx0 = m[1:]
                bad = None
                if sub < 0: bad = "a negative sub-header size was accepted"
                elif off < 0 or descoff < 0 or memoff != (1 + sub) * ps or descoff != (1 + sub + bl) * ps: bad = "file offsets are not (1+sub_hdr_size[+bitmap_blocks])*page_size"
                elif mx > 8 * ln or mx > mx0: bad = "max_pfn %d exceeds the %d bits of the bitmap chunk" % (mx, 8 * ln)
                elif not (memoff <= off and off + ln <= descoff): bad = "the bitmap chunk [%d,%d) is not between the bitmap start %d and the descriptors %d" % (off, off + ln, memoff, descoff)
                if bad:
                    fail = fail or (i, "read_bitmap(%s): %s -> '%s'" % (lines[i], bad, o))
                kinds["ddbmp/req"] = kinds.get("ddbmp/req", 0) + 1
            elif t[1] == "corrupt":
                if m[2] >= 0:
                    fail = fail or (i, "read_bitmap rejected a non-negative sub-header size: %s" % lines[i])
                kinds["ddbmp/corrupt"] = kinds.get("ddbmp/corrupt", 0) + 1
            else:
                fail = fail or (i, "read_bitmap: unexpected outcome '%s' for %s" % (o, lines[i]))
        elif m[0] == "flat":
            r = flat_ref(m[1], m[2])
            cur_flat = r
            if r[0] == "ok":
                want = ("flat ok %d" % len(r[1])) + "".join(" %d:%d:%d" % x for x in r[1])
                o = o.split(" map")[0]
            else:
                want = "flat " + r[0]
            kinds["flat/" + r[0]] = kinds.get("flat/" + r[0], 0) + 1
        elif m[0] == "chunk":
            ppos, ln, segs = m[1:]
            owner = {}
            for idx, (so, sz, fo) in enumerate(segs):
                for x in range(max(so, ppos), min(so + sz, ppos + ln)):
                    owner[x] = idx
            own = {owner.get(x) for x in range(ppos, ppos + ln)} if ppos < (1 << 62) else {None}
            if len(own) == 1 and None not in own:
                want = "chunk direct %d" % (ppos + segs[own.pop()][2])
            else:
                want = "chunk copy"
            kinds[want.rsplit(" ", 1)[0] if "direct" in want else want] = kinds.get(want.rsplit(" ", 1)[0] if "direct" in want else want, 0) + 1
        elif m[0] == "pgshift":
            ps = m[1]
            want = "pgshift %d" % (ps.bit_length() - 1) if ps and ps & (ps - 1) == 0 else "pgshift corrupt"
        if want is not None and o != want and not fail:
            fail = (i, "'%s' answered '%s'; an independent reading of the input says '%s'" % (lines[i][:400], o[:300], want[:300]))
    # (2) correspondence with the Lean models
    model = kdf.obs(R.run_driver("bounds", text))
    mism = kdf.diff_streams([x.rstrip() for x in impl], [x.rstrip() for x in model[:len(impl)] if True] if fail else [x.rstrip() for x in model])
    return dict(lines=lines, impl=impl, model=model, fail=fail, mism=mism, kinds=kinds, err=err)


def cpusz_stream(R, exe):
    """sadump setup_arch through the public API: SADUMP files whose CPU-state size word and nr_cpus are
    set to generated values; the outcome class is compared with the model's `cpuStateSz` and with Python"""
    p0 = R.path("c03-cpu-base")
    lay = dg.c03_write_sadump(p0, [1, 2], kind="single", max_mapnr=16, nr_cpus=2)
    off = {n: (o, w) for n, o, w, be in lay["fields"]}
    img = open(p0, "rb").read()
    cases = []
    for cpus in (0, 1, 2, 3, 4, 1023, 1024, 1025, 0x7fffffff, 0xffffffff):
        for total in sorted({0, 1, 1023, 1024, 1025, 2047, 2048, 1024 * cpus & M32, (1024 * cpus - 1) & M32, (1024 * cpus + 1) & M32, 0x7fffffff, M32}):
            cases.append((total, cpus))
    hl, ml = [], []
    for i, (t, c) in enumerate(cases):
        b = bytearray(img)
        struct.pack_into("<I", b, off["sub.size"][0], t)
        struct.pack_into("<I", b, off["hdr.nr_cpus"][0], c)
        q = R.path("c03-cpu-%d" % i)
        open(q, "wb").write(b)
        hl.append("open " + q)
        ml.append("cpusz %d %d" % (t, c))
    rc, out, err = R.run_harness(exe, stdin_text="\n".join(hl) + "\n", timeout=300, env=dict(ASAN_OPTIONS="detect_leaks=0:allocator_may_return_null=1:max_allocation_size_mb=256"))
    impl = kdf.obs(out)
    model = kdf.obs(R.run_driver("bounds", "\n".join(ml) + "\n"))
    fail = None
    if rc != 0 or len(impl) != len(cases):
        k = min(len(impl), len(cases) - 1)
        fail = "SADUMP open stopped (rc=%s) for CPU-state size %d, nr_cpus %d: %s" % ((rc,) + cases[k] + (" | ".join([l for l in err.split("\n") if "ERROR" in l or "runtime error" in l][:2]),))
    mism = None
    for i, ((t, c), o) in enumerate(zip(cases, impl)):
        want = "no-cpus" if c == 0 else "cpu-state-too-small" if t // c < 1024 else None
        mwant = "no-cpus" if model[i] == "cpusz corrupt" else "cpu-state-too-small" if model[i].split()[1].isdigit() and int(model[i].split()[1]) < 1024 else None
        got = o.split()[2] if len(o.split()) > 2 else "?"
        got = got if got in ("no-cpus", "cpu-state-too-small") else None
        if got != want and not fail:
            fail = "SADUMP with CPU-state size %d and nr_cpus %d: open answered '%s', expected class %s" % (t, c, o, want or "neither 'no CPUs' nor 'state too small'")
        if want is None and c <= 2 and not o.startswith("open ok") and not fail:
            fail = "SADUMP with CPU-state size %d and nr_cpus %d must open: '%s'" % (t, c, o)
        if got != mwant and mism is None:
            mism = (i, ml[i], o, model[i])
    return dict(n=len(cases), fail=fail, mism=mism, impl=impl)


def replay(R, path):
    """re-run the case stored in a replay file of the hostile stream"""
    rep = json.load(open(path))
    lib, cflags = R.build_lib(extra=["-fsanitize-recover=alignment"], tag="librec")
    exe = R.build_harness("s_hostile", ["s_hostile.c"], lib=lib, cflags=cflags)
    bases = make_bases(R)
    rc, out, err = R.run_harness(exe, args=["verbose"], stdin_text="\n".join(preamble(bases) + [rep["case_line"]]) + "\n", timeout=300,
                                 env=dict(ASAN_OPTIONS=ASAN, UBSAN_OPTIONS=UBSAN))
    print(out[-6000:])
    res = [o for o in kdf.obs(out)]
    return 1 if res and not RES.match(res[-1]).group(2) == "ok" else 0


def run(R):
    import time
    T = {}
    t0 = time.time()
    def lap(name):
        nonlocal t0
        T[name] = round(time.time() - t0, 1)
        t0 = time.time()
    facts, changed = R.extract()
    proof = R.prove(["Kdf.Props.C03"], THEOREMS)
    lap("lean")
    lib, cflags = R.build_lib(extra=["-fsanitize-recover=alignment"], tag="librec")
    lap("build_lib")
    # ---- bounds: real parsing steps vs independent expectation vs Lean model
    b = bounds_stream(R, lib, cflags)
    bexe = R.path("s_bounds")
    cpu = cpusz_stream(R, bexe)
    lap("bounds")
    if b["fail"]:
        i, msg = b["fail"]
        R.violation(msg, dict(stream="bounds", input=b["lines"][min(i, len(b["lines"]) - 1)], impl_output=b["impl"][i] if i < len(b["impl"]) else None,
                              model_output=b["model"][i] if i < len(b["model"]) else None, stderr=b["err"][-1500:], broken_theorems=proof["broken"],
                              how="feed the input line to harness/s_bounds.c (protocol in lean/Driver/Bounds.lean)"))
    if cpu["fail"]:
        R.violation(cpu["fail"], dict(stream="bounds/cpusz", broken_theorems=proof["broken"]))
    if not b["fail"] and not cpu["fail"] and (proof["broken"] or b["mism"] is not None or cpu["mism"] is not None):
        i = b["mism"]
        R.violation("proof obligation or correspondence broken: theorems %s; first differing line %s" % (proof["broken"], i if i is not None else cpu["mism"]),
                    dict(stream="bounds", broken_theorems=proof["broken"], lean_log=proof["log"][-1500:],
                         first_diff=None if i is None else dict(index=i, line=b["lines"][i][:2000], impl=b["impl"][i] if i < len(b["impl"]) else None,
                                                                model=b["model"][i] if i < len(b["model"]) else None),
                         cpusz_diff=cpu["mism"]), found_input=False)
    # ---- hostile: systematic corruption of well-formed dumps, each input in a forked child
    bases, cases, results, stats, kinds, opens, fails, broken, exe, pre = hostile_stream(R, lib, cflags)
    if broken:
        raise kdf.CheckBroken("hostile harness failed: %s" % (broken[0],))
    classes = report_fails(R, fails, exe, pre)
    lap("hostile")
    # ---- coverage-guided mutation loop seeded with the systematic cases
    secs = 4 if R.tier == "quick" else 420
    ffails, ftot, fexe, fpre, fseeds = fuzz_stream(R, bases, cases, secs, 10 ** 9)
    fclasses = report_fails(R, ffails, fexe, fpre, stream="hostile/fuzz")
    lap("fuzz")
    nontriv = len({(c.base.name, tuple(c.muts)) for c in cases if c.muts}) + len({l for l in b["lines"]})
    cov = dict(obligations=max(proof["obligations"], 1), discharged=proof["discharged"],
               checker_cmd="cd lean && lake build Kdf.Props.C03 && #print axioms on each theorem",
               trusted_base=["Lean 4 kernel", "axioms: " + ", ".join(sorted({a for v in proof["axioms"].values() for a in v}) or ["none"]),
                             "gcc 12 ASan+UBSan runtimes (alignment reports recoverable), fork/waitpid/setitimer, memfd",
                             "tools/dumpgen.py writers + field tables", "harness/s_hostile.c, harness/s_bounds.c (link-time interception of fcache_get_chunk, pfn_regions_from_bitmap, addrxlat_map_set)",
                             "models take file bytes, EOF read failures and allocation results as parameters"],
               broken_theorems=proof["broken"], theorems=THEOREMS,
               evaluations=len(results) + len(b["impl"]) + cpu["n"] + ftot.get("iters", 0), distinct_nontrivial=nontriv,
               rule="bounds: uncompress_rle, do_notes, try_header/read_bitmap, flatmap_file_init, flatmap_get_chunk_flat, page_size_pre_hook, sadump setup_arch on "
                    "generated field values / byte strings (boundary families + random), each answer compared with an independent Python reading and with the Lean model; "
                    "hostile: every (field x value class {0,1,max,0x7f..,0x80..,orig+-1,orig*2}) single corruption, sampled double corruptions, truncation at every "
                    "structure boundary +-1, field+truncation, degenerate and hand-made files over %d well-formed bases (ELF64/ELF32-BE/flattened/xc_core sections, diskdump "
                    "v3/v6 32/64 LE/BE split/flattened/compressed, LKCD v8/v9 RLE/gzip/raw, SADUMP single/diskset/media, s390); each input in a forked child under "
                    "ASan+UBSan with a %d ms wall-clock bound running open, attribute enumeration, page-map queries, reads in all address spaces, vmcoreinfo, free; "
                    "then a coverage-guided mutation loop (%d s x %d processes) seeded with those inputs; non-trivial = distinct mutated inputs + distinct bounds lines"
                    % (len(bases), TMO_MS, secs, nshards(R)),
               traces_validated_against_impl=len(b["impl"]) + cpu["n"], correspondence_first_diff=b["mism"],
               hostile_stats=stats, open_status_histogram=opens, case_kinds=dict(sorted(kinds.items())[:60]), bounds_kinds=b["kinds"],
               fuzz=dict(ftot, seconds=secs, seeds=fseeds[:4]), phase_seconds=T,
               failure_classes={k: v[2] for k, v in list(classes.items()) + list(fclasses.items())},
               samples=[dict(case=c.desc) for c in (cases[100], cases[len(cases) // 2], cases[-1])] + [dict(line=b["lines"][0][:120])])
    return "proof", cov, ["PARTIAL: memory safety / termination outside the modelled functions is enumerated and fuzzed under sanitizers, not proved",
                          "allocations above 256 MiB are refused (ASan max_allocation_size_mb), i.e. treated as allocation failures, not attempted",
                          "wall-clock bound %d ms per input stands for 'time proportional to the input' (inputs are < 10 MiB)" % TMO_MS,
                          "models: rd32/rd/EOF behaviour and 32-bit field ranges are parameters (hypotheses of the theorems)",
                          "implementation-only (no model): the page-size history at the end of the harness script (cache.size 8, arch.page_size x16, "
                          "halved, restored, reads after each), the legacy-lowcore s390x bases and the exhaustive pair corruption of small descriptors"]
