"""C08 — OS-level translation shortcuts never contradict the page tables.

Two streams through harness/s_os.c:

* `img`  — synthesized kernel images (tools/props/c08img.py: page tables in a
  pure-function memory, symbols / registers / numbers through the callbacks,
  options through addrxlat_sys_os_init).  After the real set-up every sampled
  virtual address (boundaries +-1 page and interiors of the image's regions and
  of the ranges the library created) goes through addrxlat_fulladdr_conv
  (fast paths, SYS_MAP_KV_PHYS) and through the pure hardware walk
  (SYS_MAP_HW); both are compared with each other and with the image's own
  page-table walk computed in Python.  Physical addresses go through the
  reverse direct map and back.  This is the property evaluation (1).
* `os`   — unit scripts for the generic layout machinery (sys_set_layout,
  act_*, sys_set_physmaps) and the page-table scanners (lowest_mapped,
  highest_mapped, lowest_unmapped, highest_linear): real C against the Lean
  model (Kdf.Model.Layout, Kdf.Model.Scan; driver stream `os`) — the
  correspondence (2) for the code the theorems of Kdf.Props.C08 are about.
"""
import json, os, re
import kdf
from props import c08img as G

W = 1 << 64
FULL = W - 1

THEOREMS = ["Kdf.Props.C08." + t for t in (
    "direct_def", "rdirect_direct_id", "physmaps_ident", "layout_plain", "layout_total", "fast_linear_kv", "fast_linear_kphys",
    "scanner_lowest_mapped", "scanner_lowest_unmapped", "scanner_highest_mapped", "highest_linear_sound",
    "x64_highest_linear_sound", "check_pae_sound", "ia32_root_exact", "xen_text_pick_sound")]


# ------------------------------------------------------------------- img stream
def sample_addrs(img, rng, n_interior=3):
    qs = []
    for name, first, last, _lin in img.regions:
        for a in (first - 0x1000, first - 1, first, first + 1, first + 0xfff, first + 0x1000,
                  last - 0x1000, last - 0xfff, last - 1, last, last + 1, last + 0x1000):
            if 0 <= a < W:
                qs.append(a)
        for _ in range(n_interior):
            qs.append(rng.randrange(first, last + 1))
        # 2M / 1G boundaries inside the region
        for sz in (1 << 21, 1 << 30):
            b = (first + sz) & ~(sz - 1)
            if first < b <= last:
                qs += [b - 1, b, b + 0xfff]
    qs += img.extra_q
    out, seen = [], set()
    for a in qs:
        if a not in seen:
            seen.add(a); out.append(a)
    return out


def img_script(img, rng):
    L = img.setup_lines()
    L.append("probe")
    for a in sample_addrs(img, rng):
        L.append("q %d" % a)
    for p in dict.fromkeys(img.extra_rt):
        if 0 <= p < W:
            L.append("rt %d" % p)
    return L


def parse_triplet(s):
    st, as_, addr = s.split()
    return st, int(as_), int(addr)


def eval_img(img, out_lines):
    """property evaluation (1) on the observations of one image.
    returns (list of (message, failing observation), stats)"""
    fails = []
    stats = dict(q=0, mapped=0, fast_ok=0, hw_ok=0, both_ok=0, rt=0, rt_ok=0, untranslatable=0)
    osinit = None
    maps, meths = {}, {}
    # a history image initialises the same addrxlat_sys_t several times: the property is about the state after the LAST one
    last = max([i for i, o in enumerate(out_lines) if o.startswith("osinit ")] or [0])
    for o in out_lines[:last]:
        if o.startswith("osinit ") and "LEFT" in o:
            fails.append(("in-flight translation list not empty after addrxlat_sys_os_init", o))
    complete = img.root_known          # the library was told enough to read the image's page tables (generator's statement)
    for o in out_lines[last:]:
        w = o.split()
        if w[0] in ("q", "rt") and osinit != "ok":
            # the property is about a system the library HAS set up; what a failed addrxlat_sys_os_init leaves behind is not judged
            stats["after_failed_init"] = stats.get("after_failed_init", 0) + 1
            continue
        if w[0] == "osinit":
            osinit = w[1]
            if "LEFT" in o:
                fails.append(("in-flight translation list not empty after addrxlat_sys_os_init", o))
            if osinit != "ok" and complete:
                # not a violation (the property is conditional on a successful set-up); counted, so that a generator whose
                # "complete" images stop initialising shows up in the evidence
                stats["complete_but_failed"] = 1
        elif w[0] == "map":
            maps[int(w[1])] = w[2]
        elif w[0] == "meth":
            meths[int(w[1])] = w[2:]
        elif w[0] == "q":
            va = int(w[1])
            parts = o.split(" | ")
            fst, fas, fad = parse_triplet(parts[1])
            hst, has_, had = parse_triplet(parts[2])
            exp = img.walk(va)
            stats["q"] += 1
            if exp is not None:
                stats["mapped"] += 1
            if fst == "ok":
                stats["fast_ok"] += 1
            if hst == "ok":
                stats["hw_ok"] += 1
            if fst == "ok" and fas != 0:
                fails.append(("conversion to KPHYSADDR of %#x succeeded with a result in address space %d" % (va, fas), o))
                continue
            if exp is None:
                # the property speaks about addresses the image's page tables map; but a hardware walk that finds a
                # translation the image's page tables do not contain contradicts them just as well
                if hst == "ok" and complete:
                    fails.append(("virtual address %#x is not mapped by the image's page tables, the library's hardware walk "
                                  "(after OS set-up) translates it to %#x%s" %
                                  (va, had, (" and the KV->PHYS conversion to %#x" % fad) if fst == "ok" else ""), o))
                continue
            if fst == "ok" and hst == "ok":
                stats["both_ok"] += 1
                if fad != had:
                    fails.append(("virtual address %#x (mapped by the image's page tables to %#x): fast path gives %#x, "
                                  "hardware walk gives %#x" % (va, exp, fad, had), o))
                    continue
            if fst == "ok" and fad != exp:
                fails.append(("virtual address %#x: the image's page tables map it to %#x, the library's KV->PHYS "
                              "conversion gives %#x" % (va, exp, fad), o))
            elif hst == "ok" and had != exp:
                fails.append(("virtual address %#x: the image's page tables map it to %#x, the library's hardware walk "
                              "(after OS set-up) gives %#x" % (va, exp, had), o))
            elif fst != "ok" and hst == "ok":
                fails.append(("virtual address %#x is mapped (to %#x) and the hardware walk finds it, but the KV->PHYS "
                              "conversion fails with %s" % (va, exp, fst), o))
            elif fst != "ok" and hst != "ok":
                stats["untranslatable"] += 1
                if complete and osinit == "ok":
                    fails.append(("virtual address %#x is mapped by the image's page tables (to %#x) and the library was given a "
                                  "readable root page table, but neither the KV->PHYS conversion (%s) nor the hardware walk (%s) "
                                  "translates it" % (va, exp, fst, hst), o))
        elif w[0] == "rt":
            pa = int(w[1])
            parts = o.split(" | ")
            st1, as1, va = parse_triplet(parts[1])
            stats["rt"] += 1
            if st1 != "ok":
                continue
            if as1 != 2:
                fails.append(("conversion of physical %#x to KVADDR succeeded with a result in address space %d" % (pa, as1), o))
                continue
            st2, as2, pa2 = parse_triplet(parts[2])
            stats["rt_ok"] += 1
            if st2 != "ok" or as2 != 0 or pa2 != pa:
                fails.append(("physical address %#x: the reverse direct map gives virtual %#x, which %s" %
                              (pa, va, ("translates back to %#x" % pa2) if st2 == "ok" else ("does not translate back (%s)" % st2)), o))
    stats["osinit"] = osinit
    stats["maps"] = maps
    stats["meths"] = meths
    return fails, stats


def run_img(R, exe, img, rng, timeout=120):
    L = img_script(img, rng)
    rc, out, err = R.run_harness(exe, stdin_text="\n".join(L) + "\n", timeout=timeout)
    obs = kdf.obs(out)
    return L, obs, rc, err


# ------------------------------------------------------------------- ospick: probing decisions of the set-up, real C vs Lean model
def map_ranges(m):
    out, start = [], 0
    if not m or m in ("none", "empty"):
        return out
    for r in m.split(","):
        e, me = r.split(":")
        out.append((start, start + int(e), int(me)))
        start += int(e) + 1
    return out


def pick_job(gen, img, st):
    """(driver script, what the implementation decided in the same terms) for the decision points of
    Kdf.Model.OsPick this image exercises, or None"""
    if gen not in ("gen_ia32_linux", "gen_x86_64_xen") or len(img.cells) > 6000:
        return None
    base = [l for l in img.setup_lines() if l.split()[0] in ("clr", "mem", "rcaps", "ovr")]
    sym = {(k, n): v for k, n, v in img.syms}
    m0 = st["meths"].get(0)
    ops, impl = [], []
    if gen == "gen_ia32_linux":
        opt = img.opts.get("rootpgt")
        cr3, sw = sym.get(("reg", "cr3")), sym.get(("sym", "swapper_pg_dir"))
        if "phys_bits" not in img.opts and (opt or sw is not None):
            ras, raddr = opt.split(":") if opt else ("2", str(sw))
            ops += ["layout 1 %d:%d:2:1" % (0xc0000000, 0xffffffff), "ospick pae %s %s %d" % (ras, raddr, 0xc0000000)]
            if st["osinit"] == "ok" and m0 and m0[0] == "pgt":
                impl.append("ospick pae %s" % {"ia32_pae": "52", "ia32": "32"}.get(m0[1], m0[1]))
            else:
                impl.append("ospick pae fail" if st["osinit"] != "ok" else "ospick pae ?")
        if st["osinit"] == "ok" and m0 and m0[0] == "pgt":
            oa, ob = opt.split(":") if opt else ("-", "0")
            ops.append("ospick root %s %s %s %s" % (oa, ob, "-" if cr3 is None else cr3, "-" if sw is None else sw))
            impl.append("ospick root %s %s" % (m0[3], m0[4]))
    else:
        d = img.desc
        if not (st["osinit"] == "ok" and img.root_known and d.get("variant") != "bigmem" and m0 and m0[0] == "pgt"):
            return None
        ops += ["physmaps %d" % ((1 << 52) - 1), "meth 0 pgt x86_64 1 1 %d 0 12,9,9,9,9" % d["root_pa"], "ospick xentext 0"]
        rs = map_ranges(st["maps"].get(1))
        kt = [r for r in rs if r[2] == 3 and r[0] >> 47]
        dm = [r for r in rs if r[2] == 2]
        t1 = bool(dm) and dm[0][1] - dm[0][0] + 1 == 1 << 40
        impl.append(("ospick xentext %d %d" % (kt[0][0], 1 if t1 else 0)) if kt else "ospick xentext none" if t1 else "ospick xentext ?")
    if not ops:
        return None
    return base + ops, impl


def run_picks(R, picks):
    """picks: list of (name, gen, seed, force, img, script, impl).  One driver run; returns number compared."""
    kinds = {}
    if not picks:
        return 0, kinds
    text = "\n".join(l for p in picks for l in p[5]) + "\n"
    model = [o for o in kdf.obs(R.run_driver("os", text)) if o.startswith("ospick")]
    k, n = 0, 0
    for name, gen, seed, force, img, script, impl in picks:
        mine = model[k:k + len(impl)]; k += len(impl)
        n += len(impl)
        for a in mine:
            kk = " ".join(a.split()[:2]) + (" " + a.split()[2] if a.split()[1] in ("pae",) or a.endswith("none") else "")
            kinds[kk] = kinds.get(kk, 0) + 1
        # a failed set-up is only comparable when the model says the probe fails (other steps can fail as well)
        cmp_ = [(a, b) for a, b in zip(impl, mine) if not (a == "ospick pae fail" and b != a)]
        bad = [(a, b) for a, b in cmp_ if a != b]
        if bad:
            a, b = bad[0]
            rep = dict(stream="ospick", scenario=name, generator=gen, gen_seed=seed, force=force, params=summarize(img.desc),
                       implementation=a, model=b, options=img.opts, symbols=[(x, y, hex(v)) for x, y, v in img.syms],
                       how="python3 tools/check.py C08 --replay <this file> regenerates the image, runs harness/s_os.c and the driver ops")
            if len(script) <= 6000:
                rep["input"] = "\n".join(script) + "\n"
            R.violation("set-up decision on the image's page tables: the implementation decided `%s`, the model (Kdf.Model.OsPick) `%s`  "
                        "[image: %s %s]" % (a, b, name if name != "random" else gen, summarize(img.desc)), rep)
            break
    return n, dict(sorted(kinds.items()))


# ------------------------------------------------------------------- os stream (unit scripts)
POINTS = [0, 0xfff, 0x1000, 0x200000, 0x3fffffff, 0x40000000, (1 << 32) - 1, 1 << 32, (1 << 40), (1 << 47) - 1, 1 << 47,
          0xffff800000000000 - 1, 0xffff800000000000, 0xffff880000000000, 0xffffc7ffffffffff, 0xffffc80000000000,
          0xffffffff80000000, 0xffffffff9fffffff, W - 0x1000, W - 1, (1 << 52) - 1, 1 << 52]


def block_layout(rng):
    L = ["clr"]
    if rng.random() < 0.5:
        L.append("meth 2 linear %d %d" % (rng.choice((0, 1, 2)), rng.choice([0, W - 0xffff880000000000, 0x1000, rng.getrandbits(64)])))
    if rng.random() < 0.3:
        L.append("meth %d pgt x86_64 1 %d %d 0 12,9,9,9,9" % (rng.choice((0, 1, 3)), rng.choice((0, 1, 2)), rng.choice([0x1000, 0x5000])))
    for _ in range(rng.randint(1, 4)):
        if rng.random() < 0.15:
            L.append("physmaps %d" % rng.choice([(1 << 52) - 1, (1 << 32) - 1, FULL, 0xfff]))
            continue
        idx = rng.randrange(5)
        regs = []
        for _ in range(rng.randint(0, 4)):
            a, b = rng.choice(POINTS) + rng.choice([0, 0, 0x1000]), rng.choice(POINTS) + rng.choice([0, 0, 0xfff])
            a, b = min(a, b) % W, max(a, b) % W
            if a > b:
                a, b = b, a
            act = rng.choice([0, 0, 0, 1, 2, 3, 4])
            if act == 1 and idx == 2:
                act = 0
            meth = rng.randrange(16)
            if act == 1 and meth == 5:
                meth = 2
            regs.append("%d:%d:%d:%d" % (a, b, meth, act))
        L.append("layout %d %s" % (idx, ",".join(regs) if regs else "-"))
    return L


def leaf_intervals(tb):
    """mapped virtual intervals [(first, last, pa_first)] of X64Tables / IA32Tables, sorted"""
    out = []
    if isinstance(tb, G.X64Tables):
        def rec(t, l, base):
            for idx, e in sorted(tb.tables.get(t, {}).items()):
                e &= ~tb.cbit
                if not e & 1:
                    continue
                va = base | (idx << (12 + 9 * (l - 1)))
                if l == 1 or (l in (2, 3) and e & 0x80):
                    span = 1 << (12 + 9 * (l - 1))
                    out.append((va, va + span - 1, (e & 0x000ffffffffff000) & ~(span - 1)))
                else:
                    rec(e & 0x000ffffffffff000, l - 1, va)
        rec(tb.root, tb.levels, 0)
        bits = 12 + 9 * tb.levels
        out2 = []
        for a, b, p in out:
            if a >> (bits - 1):
                a |= FULL >> bits << bits; b |= FULL >> bits << bits
            out2.append((a, b, p))
        return sorted(out2)
    raise NotImplementedError


def scan_oracle(iv, kind, addr, limit, vbits=48):
    """expected (status, addr) of a scanner over mapped intervals `iv` (x86-64, tables all readable), or None"""
    # the scanners are specified inside one canonical half (the callers never cross the hole)
    lo, hi = (limit, addr | 0xfff) if kind == "hm" else (addr & ~0xfff, limit)
    if lo > hi or not (hi < (1 << (vbits - 1)) or lo >= W - (1 << (vbits - 1))):
        return None
    if kind == "lm":
        a = addr & ~0xfff
        c = [max(f, a) for f, l, _ in iv if l >= a]
        c = [x for x in c if x <= limit]
        return ("ok", min(c)) if c else ("notpresent", None)
    if kind == "hm":
        a = addr | 0xfff
        c = [min(l, a) for f, l, _ in iv if f <= a]
        c = [x for x in c if x >= limit]
        return ("ok", max(c)) if c else ("notpresent", None)
    if kind == "lu":
        a = addr & ~0xfff
        while a <= limit:
            nxt = None
            for f, l, _ in iv:
                if f <= a <= l:
                    nxt = l + 1
                    break
            if nxt is None:
                return ("ok", a)
            a = nxt
        return ("notpresent", None)
    return None


def block_scan(rng):
    """random x86-64 tables, then scanner calls around the boundaries of the mapped runs"""
    levels = 5 if rng.random() < 0.25 else 4
    pool = [0x10000]
    def alloc():
        p = pool[0]; pool[0] += 0x1000
        return p
    tb = G.X64Tables(levels, alloc, cbit=(1 << 51) if rng.random() < 0.1 else 0)
    top = 0xffff800000000000 if levels == 4 else 0xff00000000000000
    bases = [top, top + (8 << 40), 0xffffffff80000000, 0, 0x400000, top + rng.randrange(1, 1 << 14) * G.GB,
             0xffffffffc0000000 - 0x200000, W - 0x400000]
    runs = []
    for _ in range(rng.randint(1, 5)):
        base = rng.choice(bases) + rng.choice([0, 0, 0x1000, 0x200000, 0x1ff000, 0x3fe00000])
        gran = rng.choice([1, 1, 2, 3])
        size = rng.choice([0x1000, 0x3000, 0x200000, 0x201000, 0x400000]) if gran < 3 else rng.choice([G.GB, G.GB + 0x200000])
        lin = rng.random() < 0.7
        pa0 = rng.choice([0, 0x100000000, 0x1000000, 0x40000000]) if lin else None
        try:
            if lin:
                # physical alignment follows the virtual one so that large pages are possible
                pa0 = pa0 + (base & ((1 << 30) - 1))
                if base + size > W:
                    continue
                G.map_linear(tb, base, pa0, size, gran)
            else:
                for i in range(min(size // 0x1000, 6)):
                    tb.map(base + i * 0x1000, rng.randrange(1, 1 << 20) * 0x1000, 1)
        except AssertionError:
            continue
        runs.append((base, size, pa0))
    class _I:                       # minimal image to collect the cells
        def __init__(s): s.cells = {}
        def w64(s, as_, a, v): s.cells[(as_, a)] = v & 0xffffffff; s.cells[(as_, a + 4)] = v >> 32
    im = _I()
    tb.store(im)
    rcaps = rng.choice([7, 7, 3, 1, 2])
    L = ["clr", "rcaps %d" % rcaps]
    for (as_, a), v in sorted(im.cells.items()):
        L.append("ovr %d %d %d" % (as_, a, v))
    fields = "12,9,9,9,9" + (",9" if levels == 5 else "")
    L.append("meth 0 pgt x86_64 1 %d %d %d %s" % (rng.choice((0, 1)), tb.root, tb.cbit, fields))
    L.append("physmaps %d" % ((1 << 52) - 1))
    L.append("layout 1 0:%d:0:0" % FULL)
    iv = leaf_intervals(tb)
    pts = []
    for f, l, _ in iv:
        pts += [f, f - 0x1000, f + 0x1000, l, l + 1, l - 0xfff, f + 0x123]
    pts += [rng.choice(bases) for _ in range(3)]
    pts = [p % W for p in pts]
    ops = []
    for _ in range(rng.randint(6, 14)):
        kind = rng.choice(["lm", "lm", "lu", "lu", "hm", "hl"])
        a = rng.choice(pts)
        if kind == "hm":
            lim = rng.choice([p for p in pts if p <= a] or [a])
            if rng.random() < 0.3:
                lim = rng.choice([top, 0, a])
        else:
            lim = rng.choice([p for p in pts if p >= a] or [a])
            if rng.random() < 0.4:
                lim = rng.choice([0xffffc7ffffffffff, 0xffffffffbfffffff, FULL, (1 << 47) - 1, a]) if levels == 4 else rng.choice([FULL, 0xff90ffffffffffff, a])
        if kind == "hl":
            lr = [r for r in runs if r[2] is not None]
            off = ((lr and rng.choice(lr)[2] - rng.choice(lr)[0]) or 0) % W if rng.random() < 0.8 else rng.getrandbits(64)
            if lr and rng.random() < 0.7:
                r = rng.choice(lr); a = r[0]; off = (r[2] - r[0]) % W
            ops.append("scan hl 0 %d %d %d" % (a, lim, off))
        else:
            ops.append("scan %s 0 %d %d" % (kind, a, lim))
    return L + ops, iv, levels


def strip_tail(o):
    return o.split(" | ")[0]


def run_unit(R, exe, blocks):
    """blocks: list of (kind, lines, aux).  Returns first failure or None, plus counters."""
    lines = []
    for _, b, _ in blocks:
        lines += b
    text = "\n".join(lines) + "\n"
    rc, out, err = R.run_harness(exe, stdin_text=text, timeout=600)
    impl = kdf.obs(out)
    model = kdf.obs(R.run_driver("os", text))
    return lines, impl, model, rc, err


# ------------------------------------------------------------------- scenarios and generators
# Forced scenarios run first in every tier: each is a layout a supported kernel really has and that
# exercises one decision of the set-up code.
SCENARIOS = [
    # a Xen-enabled 2.6.18 kernel keeps its direct map at 0xffff880000000000 (mainline: 0xffff810000000000)
    ("x86_64-linux-2.6.18-xen-placement", "gen_x86_64_linux",
     dict(ver=G.VER(2, 6, 18), page_offset=0xffff880000000000, rootsrc="cr3", levels=4, rcaps=3)),
    ("x86_64-linux-2.6.18-mainline", "gen_x86_64_linux", dict(ver=G.VER(2, 6, 18), page_offset=0xffff810000000000, levels=4, rootsrc="sym",
                                                          phys_base_opt=True)),
    ("x86_64-linux-2.6.9", "gen_x86_64_linux", dict(ver=G.VER(2, 6, 9), page_offset=0x0000010000000000, levels=4, rootsrc="cr3")),
    ("x86_64-linux-kaslr-neg-phys-base", "gen_x86_64_linux",
     dict(ver=G.VER(5, 4, 0), levels=4, kaslr_v=400 * G.MB, pload=16 * G.MB, phys_base_opt=True, rootsrc="sym")),
    ("x86_64-linux-5level", "gen_x86_64_linux", dict(levels=5, rootsrc="sym", phys_base_opt=True, l5src="cr4")),
    ("x86_64-linux-1g-directmap", "gen_x86_64_linux", dict(gran=3, rootsrc="cr3")),
    ("x86_64-linux-4k-directmap", "gen_x86_64_linux", dict(gran=1, rootsrc="sym", phys_base_opt=True)),
    ("x86_64-linux-sme", "gen_x86_64_linux", dict(sme=True, rootsrc="sym", phys_base_opt=True)),
    ("x86_64-linux-vmalloc-one-page-gap", "gen_x86_64_linux", dict(vgap=0x1000, ver=None, rootsrc="cr3")),
    ("x86_64-xen-4.6-bigmem", "gen_x86_64_xen", dict(variant="bigmem", ver=G.XENVER(4, 6), rootsrc="cr3")),
    ("x86_64-xen-bigmem-nover", "gen_x86_64_xen", dict(variant="bigmem", ver=None)),
    ("x86_64-xen-4.4", "gen_x86_64_xen", dict(variant="4.4", ver=G.XENVER(4, 4), rootsrc="sym")),
    ("x86_64-xen-3.2", "gen_x86_64_xen", dict(variant="3.2")),
    ("x86_64-xen-4.8-stubs", "gen_x86_64_xen", dict(variant="4.4", ver=G.XENVER(4, 8), stubs=True, rootsrc="cr3")),
    ("ia32-vmap_area_list", "gen_ia32_linux", dict(vsrc="vmap_area_list", first_area_off=0, pae=False, rootsrc="sym")),
    ("ia32-pae-vmap_area_list", "gen_ia32_linux", dict(vsrc="vmap_area_list", first_area_off=0, pae=True, rootsrc="cr3+sym")),
    ("ia32-vmlist", "gen_ia32_linux", dict(vsrc="vmlist", first_area_off=0, rootsrc="sym")),
    ("ia32-no-vmalloc-start", "gen_ia32_linux", dict(vsrc="none", rootsrc="cr3+sym")),
    # ---- ia32 dumps taken in process context: the root is the crashing task's, not swapper_pg_dir
    ("ia32-task-pgd-option-pae-unknown-lookalike", "gen_ia32_linux",
     dict(vsrc="vmap_area_list", pae=False, rootsrc="opt", rootopt_as=G.KPHYS, phys_bits_opt=False, task=True, lookalike=True)),
    ("ia32-task-pgd-option-pae-unknown-lookalike-to-phys-0", "gen_ia32_linux",
     dict(vsrc="vmap_area_list", pae=False, rootsrc="opt", rootopt_as=G.MACHPHYS, phys_bits_opt=False, task=True, lookalike=True, look_word=1)),
    ("ia32-task-pgd-cr3-vmlist-lookalike", "gen_ia32_linux",
     dict(vsrc="vmlist", pae=False, rootsrc="cr3+sym", phys_bits_opt=False, task=True, lookalike=True)),
    ("ia32-pae-task-pdpt-cr3-unaligned-stale-neighbour", "gen_ia32_linux",
     dict(vsrc="vmap_area_list", pae=True, rootsrc="cr3", phys_bits_opt=True, task=True, pdpt_slot=95, slab_neighbours="stale")),
    ("ia32-pae-task-pdpt-cr3-unaligned-alone", "gen_ia32_linux",
     dict(vsrc="vmlist", pae=True, rootsrc="cr3+sym", phys_bits_opt=False, task=True, pdpt_slot=127, slab_neighbours="none")),
    ("ia32-pae-task-pdpt-option-kv-unaligned", "gen_ia32_linux",
     dict(vsrc="vmap_area_list", pae=True, rootsrc="opt", rootopt_as=G.KV, task=True, pdpt_slot=3, slab_neighbours="live")),
    # ---- Xen 3.2-3.4: superpage in the ioremap area at the address a 4.0 development snapshot used for its text
    ("x86_64-xen-3.4-ioremap-superpage-at-4.0dev-text", "gen_x86_64_xen", dict(variant="3.2", ioremap="at-4.0dev", rootsrc="cr3", ver=None)),
    ("x86_64-xen-3.2-ioremap", "gen_x86_64_xen", dict(variant="3.2", ioremap="any", rootsrc="sym", ver=G.XENVER(3, 2))),
    ("riscv64-sv39", "gen_riscv64_linux", dict(levels=3, rootsrc="sym", vb=(True, False))),
    ("riscv64-sv48-1g", "gen_riscv64_linux", dict(levels=4, gran=3, rootsrc="opt", vb=(False, True))),
    ("riscv64-sv57", "gen_riscv64_linux", dict(levels=5, gran=2, rootsrc="sym", vb=(True, True))),
    ("aarch64-4k-48-new", "gen_aarch64_linux", dict(geom=(12, 48), new_layout=True, hsrc="stext", rootsrc="sym", vb=(1, 0, 0))),
    ("aarch64-4k-39-old", "gen_aarch64_linux", dict(geom=(12, 39), new_layout=False, hsrc="ver", rootsrc="opt", vb=(0, 1, 0))),
    ("aarch64-64k-42", "gen_aarch64_linux", dict(geom=(16, 42), new_layout=True, hsrc="both", rootsrc="sym", vb=(0, 0, 1))),
    ("aarch64-16k-47", "gen_aarch64_linux", dict(geom=(14, 47), new_layout=False, hsrc="stext", rootsrc="sym", vb=(1, 1, 1))),
    # ---- 32-bit Arm (short descriptors): with / without the phys_base option, every root source, every page size
    ("arm-sections-physical-root-no-phys_base", "gen_arm_linux",
     dict(dm="sect", rootopt="machphys", swapper=True, stext=True, phys_base_opt=False, rcaps=3, phys_off=0x40000000, page_offset=0xc0000000)),
    ("arm-2.6.24-like-phys_base", "gen_arm_linux",
     dict(dm="sect", rootopt=None, swapper=True, stext=True, phys_base_opt=True, rcaps=3, phys_off=0x40000000, page_offset=0xc0000000,
          text_off=0x208000)),
    ("arm-kvaddr-only-reads", "gen_arm_linux", dict(dm="sect", rootopt="machphys", stext=True, phys_base_opt=True, rcaps=4)),
    ("arm-supersections-kv-root-kv-reads", "gen_arm_linux",
     dict(dm="super", rootopt=None, swapper=True, stext=True, phys_base_opt=False, rcaps=7, phys_off=0x80000000, lowmem=512 << 20)),
    ("arm-small-pages-big-endian", "gen_arm_linux", dict(dm="small", be=True, rootopt="kphys", stext=True, phys_base_opt=False, rcaps=1)),
    ("arm-large-pages", "gen_arm_linux", dict(dm="large", rootopt="kphys", stext=True, phys_base_opt=True, rcaps=3, phys_off=0x10000000)),
    ("arm-mixed-no-stext", "gen_arm_linux", dict(dm="mixed", stext=False, rootopt="kphys", rcaps=3)),
    ("arm-vmsplit-2g-phys-0", "gen_arm_linux", dict(dm="mixed", page_offset=0x80000000, phys_off=0, rootopt="kv", stext=True,
                                                    phys_base_opt=True, rcaps=2)),
    # ---- x86_64: combinations of the optional inputs of get_virt_bits / get_linux_pgt_root
    ("x86_64-linux-5level-stext-and-l5-number-no-cr4", "gen_x86_64_linux",
     dict(levels=5, l5src="num", stext=True, rootsrc="cr3", page_offset=0xff11000000000000, rcaps=3)),
    ("x86_64-linux-5level-every-indication", "gen_x86_64_linux",
     dict(levels=5, in_vbits=True, in_cr4=True, in_num=True, stext=True, rootsrc="sym", phys_base_opt=True)),
    ("x86_64-linux-4level-l5-number-0-and-stext", "gen_x86_64_linux", dict(levels=4, l5src="num", stext=True, rootsrc="opt-phys")),
    ("x86_64-linux-4level-by-version-only", "gen_x86_64_linux", dict(levels=4, l5src="ver", ver=G.VER(4, 12, 14), rootsrc="cr3")),
    ("x86_64-linux-symbol-and-cr3-and-option", "gen_x86_64_linux",
     dict(levels=4, stext=True, in_rootopt="phys", in_top=True, in_l4=True, in_cr3=True, phys_base_opt=False)),
    ("x86_64-linux-xen_xlat-0", "gen_x86_64_linux", dict(xen_xlat0=True, rootsrc="cr3")),
    ("x86_64-linux-2m-directmap-pat-bit", "gen_x86_64_linux", dict(gran=2, pat=1.0, rootsrc="cr3", levels=4, stext=True)),
    ("x86_64-linux-1g-directmap-pat-bit", "gen_x86_64_linux", dict(gran=3, pat=0.5, rootsrc="sym", phys_base_opt=True, levels=4, stext=True)),
    # ---- histories: the same addrxlat_sys_t initialised more than once
    ("history-xen_xlat-then-bare-metal", "gen_history",
     dict(kind="xenxlat->bare", first=("gen_x86_64_linux", dict(levels=4, rootsrc="cr3", xen_xlat1=True, ver=G.VER(4, 4, 0))),
          last=("gen_x86_64_linux", dict(levels=4, rootsrc="cr3", ver=G.VER(4, 4, 0))))),
    ("history-xen-hypervisor-then-linux", "gen_history",
     dict(kind="xen->linux", first=("gen_x86_64_xen", dict(variant="4.4", rootsrc="cr3")), last=("gen_x86_64_linux", dict(levels=4, rootsrc="sym", phys_base_opt=True)))),
    ("history-linux-then-xen-by-version", "gen_history",
     dict(kind="linux->xen", first=("gen_x86_64_linux", dict(levels=4, rootsrc="cr3", phys_base_opt=True)),
          last=("gen_x86_64_xen", dict(variant="4.4", ver=G.XENVER(4, 6), in_none=True)))),
    ("history-5level-then-4level", "gen_history",
     dict(kind="5level->4level", first=("gen_x86_64_linux", dict(levels=5, rootsrc="cr3", l5src="num")),
          last=("gen_x86_64_linux", dict(levels=4, rootsrc="cr3", l5src="stext")))),
    ("history-4level-then-5level", "gen_history",
     dict(kind="4level->5level", first=("gen_x86_64_linux", dict(levels=4, rootsrc="sym", phys_base_opt=True, l5src="cr4")),
          last=("gen_x86_64_linux", dict(levels=5, rootsrc="sym", phys_base_opt=True, l5src="num", stext=True)))),
    ("history-x86_64-then-arm", "gen_history",
     dict(kind="arch->arch", first=("gen_x86_64_linux", dict(rootsrc="cr3")), last=("gen_arm_linux", dict(rootopt="kphys", stext=True, phys_base_opt=False, rcaps=3)))),
    ("history-aarch64-then-ia32", "gen_history",
     dict(kind="arch->arch", first=("gen_aarch64_linux", dict(rootsrc="sym")), last=("gen_ia32_linux", dict(vsrc="vmlist", rootsrc="cr3+sym")))),
    ("history-failed-then-good", "gen_history",
     dict(kind="failed->good", first=("gen_x86_64_linux", dict(levels=4, rootsrc="cr3")), fail_first=True,
          last=("gen_x86_64_linux", dict(levels=4, rootsrc="sym", phys_base_opt=True)))),
    ("history-same-image-twice", "gen_history", dict(kind="same-twice")),
    ("history-three-inits", "gen_history", dict(kind="three")),
]
GENS = [("gen_x86_64_linux", 6), ("gen_x86_64_xen", 3), ("gen_ia32_linux", 3), ("gen_riscv64_linux", 2), ("gen_aarch64_linux", 3),
        ("gen_arm_linux", 4), ("gen_history", 4)]


def known_key(img, msg, obs_line):
    """stable key of a finding listed in KNOWN_FINDINGS, or None"""
    if img.arch in ("ia32", "i386", "i486", "i586", "i686") and img.desc.get("vsrc") == "none" and \
            (obs_line.startswith("rt ") or (img.desc.get("root_as") == "kv" and "but neither the" in msg)):
        # second form of the same finding: with a KVADDR root (swapper_pg_dir / rootpgt=KVADDR) and no cr3 the root itself is
        # only reachable through the direct map that set_linux_directmap() has dropped: nothing translates
        return "ia32-rdirect-without-vmalloc-start"
    if img.desc.get("look_zero") and getattr(img, "pgt_fmt", None) == "ia32_pae" and not img.desc.get("pae"):
        # check_pae took a non-PAE hierarchy for PAE: everything that goes through the page tables is wrong from there on
        return "ia32-pae-probe-ambiguous"
    if img.os == "xen" and img.desc.get("stubs"):
        for name, first, last, _ in img.regions:
            if name == "stubs" and obs_line.startswith("q ") and first <= int(obs_line.split()[1]) <= last:
                return "xen-text-region-stub-pages"
    return None


def meth_of(maps, meths, idx, va):
    m = maps.get(idx)
    if not m or m in ("none", "empty"):
        return None
    start = 0
    for r in m.split(","):
        e, me = r.split(":")
        if va <= start + int(e):
            return int(me)
        start += int(e) + 1
    return None


def make_image(gen, seed, force):
    import random
    rng = random.Random(seed)
    img = getattr(G, gen)(rng, force=dict(force) if force else None)
    if force:
        img.desc.update({k: v for k, v in force.items() if k not in img.desc})
    return img, rng


def shrink_img(R, exe, img, L, fail_obs):
    """setup + the one failing query"""
    w = fail_obs.split()
    q = "%s %s" % (w[0], w[1])
    setup = [l for l in L if l.split()[0] not in ("q", "rt", "probe")]
    small = setup + [q]
    rc, out, err = R.run_harness(exe, stdin_text="\n".join(small) + "\n", timeout=120)
    fails, _ = eval_img(img, kdf.obs(out))
    return small if fails else L


def summarize(desc):
    return {k: (hex(v) if isinstance(v, int) and not isinstance(v, bool) and v > 65536 else v) for k, v in desc.items() if k != "ram"}


# ----------------------------------------------------------------------------- run
def run(R):
    proof = R.prove(["Kdf.Props.C08"], THEOREMS)
    exe = R.build_harness("s_os", ["s_os.c"])
    quick = R.tier == "quick"
    reported = set()
    # ---------------- (2) correspondence: layout machinery and scanners, real C vs Lean model
    nb_layout, nb_scan = (240, 100) if quick else (3000, 800)
    unit_obs = unit_scan_checked = 0
    unit_kinds = {}
    chunk = 70
    done_l = done_s = 0
    unit_fail = False
    while (done_l < nb_layout or done_s < nb_scan) and not unit_fail:
        blocks = []
        for _ in range(min(chunk, nb_layout - done_l)):
            blocks.append(("layout", block_layout(R.rng), None)); done_l += 1
        for _ in range(min(chunk // 2, nb_scan - done_s)):
            l, iv, lv = block_scan(R.rng)
            blocks.append(("scan", l, (iv, lv))); done_s += 1
        lines, impl, model, rc, err = run_unit(R, exe, blocks)
        implh = [strip_tail(o) for o in impl]
        unit_obs += len(impl)
        # (1) on the scanners: independent expectation from the mapped intervals of the generated tables
        pos = 0
        produces = ("layout", "physmaps", "scan", "dump")
        exp_obs = []            # (block index, line) for each observation group
        for bi, (kind, b, aux) in enumerate(blocks):
            for l in b:
                if l.split()[0] in produces:
                    exp_obs.append((bi, l))
        # walk through the observation stream: layout/physmaps/dump produce a group ending in "end"
        oi = 0
        for bi, l in exp_obs:
            if oi >= len(implh):
                break
            w = l.split()
            if w[0] == "scan":
                o = implh[oi]; oi += 1
                t = o.split()
                k = "scan %s %s" % (t[1], t[2])
                unit_kinds[k] = unit_kinds.get(k, 0) + 1
                if "noerr=1" in impl[oi - 1]:
                    R.violation("scanner left ctx->noerr.notpresent set  [input: %s]" % l,
                                dict(stream="os", input="\n".join(blocks[bi][1]) + "\n", failing_line=l, impl_output=impl[oi - 1]))
                    unit_fail = True; break
                iv = blocks[bi][2]
                exp = scan_oracle(iv[0], w[1], int(w[3]), int(w[4]), 12 + 9 * iv[1]) if w[1] != "hl" else None
                rcaps_line = [x for x in blocks[bi][1] if x.startswith("rcaps")][0]
                if exp is not None and t[2] in ("ok", "notpresent"):
                    unit_scan_checked += 1
                    bad = (t[2] != exp[0]) or (exp[0] == "ok" and int(t[3]) != exp[1])
                    if bad:
                        R.violation("%s(addr=%#x, limit=%#x) answers %s %s; the tables map %s  [input: %s]" %
                                    ({"lm": "lowest_mapped", "hm": "highest_mapped", "lu": "lowest_unmapped"}[w[1]], int(w[3]), int(w[4]),
                                     t[2], hex(int(t[3])), exp, l),
                                    dict(stream="os", input="\n".join([x for x in blocks[bi][1] if not x.startswith("scan")] + [l]) + "\n",
                                         failing_line=l, impl_output=o, expected=str(exp)))
                        unit_fail = True; break
            else:
                while oi < len(implh) and implh[oi] != "end":
                    oi += 1
                oi += 1
        if unit_fail:
            break
        k = kdf.diff_streams(implh, model)
        if rc != 0 or k is not None:
            # find the block of the first differing observation
            msg = ("harness exit %s: %s" % (rc, (err.strip().split("\n") or [""])[-1][:200])) if k is None else \
                  "model mismatch at observation %d: implementation %r, model %r" % (k, implh[k] if k < len(implh) else None, model[k] if k < len(model) else None)
            R.violation(msg, dict(stream="os", input="\n".join(lines[:4000]) + "\n", first_diff=k,
                                  impl=implh[max(0, (k or 0) - 2):(k or 0) + 2], model=model[max(0, (k or 0) - 2):(k or 0) + 2],
                                  stderr=err[-1500:]), found_input=(rc != 0))
            unit_fail = True
    # ---------------- (1) property evaluation on synthesized images
    jobs = [(name, gen, 1000 + i, force) for i, (name, gen, force) in enumerate(SCENARIOS)]
    nrand = 420 if quick else 7000
    wsum = sum(w for _, w in GENS)
    for i in range(nrand):
        x = R.rng.randrange(wsum)
        for g, w in GENS:
            if x < w:
                break
            x -= w
        jobs.append(("random", g, R.rng.getrandbits(48), None))
    tot = dict(images=0, q=0, mapped=0, both_ok=0, rt=0, rt_ok=0, untranslatable=0, osinit_fail=0, complete=0, complete_but_failed=0,
               after_failed_init=0)
    per_gen, hist, nontriv = {}, {}, 0
    samples = []
    picks = []
    import time
    t_img = time.time()
    budget = 40 if quick else 700
    for name, gen, seed, force in jobs:
        if name == "random" and time.time() - t_img > budget:
            break
        img, rng = make_image(gen, seed, force)
        L, obs, rc, err = run_img(R, exe, img, rng)
        fails, st = eval_img(img, obs)
        tot["images"] += 1
        per_gen[gen] = per_gen.get(gen, 0) + 1
        for k in ("q", "mapped", "both_ok", "rt", "rt_ok", "untranslatable"):
            tot[k] += st[k]
        if st["osinit"] != "ok":
            tot["osinit_fail"] += 1
        tot["complete"] += 1 if img.root_known else 0
        tot["complete_but_failed"] += st.get("complete_but_failed", 0)
        tot["after_failed_init"] += st.get("after_failed_init", 0)
        for k in ("levels", "gran", "rootsrc", "variant", "pae", "vsrc", "l5src", "rcaps", "sme", "page_bits", "va_bits", "new_layout", "hsrc",
                  "dm", "phys_base_opt", "stext", "vbsrc", "history", "be", "xen_xlat0", "pat", "task", "lookalike", "slab_neighbours", "ioremap"):
            if k in img.desc:
                hk = "%s.%s=%s" % (gen[4:], k, img.desc[k])
                hist[hk] = hist.get(hk, 0) + 1
        # non-trivial evaluations: mapped addresses the library translated through a LINEAR fast path
        for o in obs:
            if o.startswith("q "):
                va = int(o.split()[1])
                mi = meth_of(st["maps"], st["meths"], 1, va)
                if mi is not None and mi >= 0 and st["meths"].get(mi, ["?"])[0] == "linear" and img.walk(va) is not None:
                    nontriv += 1
        pj = pick_job(gen, img, st)
        if pj is not None:
            picks.append((name, gen, seed, force, img, pj[0], pj[1]))
        if len(samples) < 2 and name != "random":
            samples.append(dict(scenario=name, params=summarize(img.desc), osinit=st["osinit"],
                                kv_phys_map=st["maps"].get(1, "")[:160], first_queries=[o for o in obs if o.startswith("q ")][:2]))
        if rc != 0 and not fails:
            first = (err.strip().split("\n") or [""])
            why = next((l for l in first if "ERROR" in l or "runtime error" in l or "TIMEOUT" in l), first[0])
            fails = [("the harness did not survive the image (rc=%s): %s" % (rc, why.strip()[:200]), "crash")]
        img.pgt_fmt = (st["meths"].get(0) or ["", ""])[1]
        for msg, o in fails:
            key = known_key(img, msg, o) if o != "crash" else None
            cls = ("fast-vs-hw" if "fast path gives" in msg else "fast-vs-image" if "KV->PHYS conversion gives" in msg else
                   "hw-vs-image" if "hardware walk (after" in msg else "fast-fails" if "conversion fails" in msg else
                   "roundtrip" if "reverse direct map" in msg else "hw-unmapped" if "is not mapped by the image" in msg else
                   "untranslatable" if "but neither the" in msg else msg[:30])
            tag = key or (gen, cls)
            if tag in reported:
                continue
            reported.add(tag)
            small = shrink_img(R, exe, img, L, o) if o != "crash" else L
            rep = dict(stream="img", scenario=name, generator=gen, gen_seed=seed, force=force, params=summarize(img.desc),
                       failing_observation=o, options=img.opts, symbols=[(k, n, hex(v)) for k, n, v in img.syms],
                       how="python3 tools/check.py C08 --replay <this file> regenerates the image from (generator, gen_seed, force) and "
                           "feeds `input` (or the regenerated script) to harness/s_os.c")
            if len(small) <= 6000:
                rep["input"] = "\n".join(small) + "\n"
            R.violation("%s  [image: %s %s]" % (msg, name if name != "random" else gen, summarize(img.desc)), rep, key=key)
            break
    t_pick = time.time()
    npick, pick_kinds = run_picks(R, picks) if not R.violations else (0, {})
    t_pick = round(time.time() - t_pick, 2)
    if not R.violations and proof["broken"]:
        R.violation("proof obligations broken: %s" % proof["broken"],
                    dict(stream="lean", broken_theorems=proof["broken"], lean_log=proof["log"][-2000:]), found_input=False)
    cov = dict(obligations=max(proof["obligations"], 1), discharged=proof["discharged"],
               checker_cmd="cd lean && lake build Kdf.Props.C08 && #print axioms on each theorem",
               trusted_base=["Lean 4 kernel", "axioms: " + ", ".join(sorted({a for v in proof["axioms"].values() for a in v}) or ["none"]),
                             "harness/s_os.c + gcc + ASan/UBSan", "Python page-table builders and walks of tools/props/c08img.py (independent expectation)",
                             "read cache of ctx.c transparent for a deterministic get_page (observed)"],
               broken_theorems=proof["broken"], theorems=THEOREMS,
               evaluations=tot["q"] + tot["rt"] + unit_scan_checked, distinct_nontrivial=nontriv,
               rule="images (implementation-only: generators + Python walks, no Lean model of addrxlat_sys_os_init): every optional input the "
                    "set-up code reads is present/absent independently (x86_64: rootpgt option, init_top_pgt, init_level4_pgt, cr3, cr4, "
                    "NUMBER(pgtable_l5_enabled), virt_bits, _stext, _text, phys_base, page_offset_base, sme_mask, xen_xlat=0/xen_p2m_mfn, version "
                    "codes on both sides of 2.6.11/2.6.27/2.6.31/4.8.0/4.13.0; Xen: rootpgt, cr3, pgd_l4, phys_base, version or none; ia32: rootpgt, "
                    "cr3, swapper_pg_dir, phys_bits, vmap_area_list/vmlist with each offset missing; riscv64: rootpgt, swapper_pg_dir, "
                    "va_kernel_pa_offset, VA_BITS, virt_bits, PAGE_OFFSET; aarch64: rootpgt, swapper_pg_dir, kimage_voffset, TCR_EL1_T1SZ, VA_BITS, "
                    "virt_bits, _stext, version on both sides of 5.4.0; arm (short descriptors: sections, supersections, large and small pages, "
                    "either endianness): rootpgt KPHYS/MACHPHYS/KVADDR, swapper_pg_dir, _stext, phys_base, read capabilities incl. KVADDR-only); "
                    "large pages with the PAT bit; histories = the same addrxlat_sys_t set up 2-3 times (Xen->Linux, Linux->Xen, xen_xlat->bare "
                    "metal, 5<->4 levels, architecture A->B, failed->good, same twice), judged after the LAST set-up exactly like a fresh system; "
                    "a mapped address that neither path translates although the image supplies a readable root and the paging depth, and a "
                    "hardware walk that translates an address the image does not map, count as violations; nothing is judged after a failed "
                    "osinit.  Also: per-architecture generators (x86_64 Linux 4/5-level, KASLR text/direct-map offsets, phys_base incl. negative, "
                    "version code present/absent, 4K/2M/1G direct map, root via symbol/cr3/option, each VMCOREINFO symbol present/absent, SME mask; "
                    "Xen hypervisor 3.2..4.x incl. BIGMEM; ia32 PAE/non-PAE with vmap_area_list/vmlist/neither; riscv64 Sv39/48/57; aarch64 4K/16K/64K granule, "
                    "39..48 VA bits, linear map in either half) + forced scenarios; queries at +-1 page "
                    "around every region of the image and every range the library created, interiors, 2M/1G boundaries; non-trivial = mapped "
                    "addresses answered by a LINEAR fast path of the library; unit: random layouts for sys_set_layout/sys_set_physmaps and random "
                    "x86-64 tables for the scanners, implementation vs Lean model and vs interval oracle",
               rule_round4="ia32 images taken in process context: CR3 / rootpgt name the crashing task's root (non-PAE page directory with user "
                           "mappings incl. a slot-6 mapping whose bytes parse as a complete PAE walk of 0xc0000000; PAE PDPT at any 32-byte slot of "
                           "a pgd_cache slab page with live / freed / garbage / no neighbours); Xen 3.2-3.4 images with an ioremap area (4K pages "
                           "and 2M superpages, each piece with its own offset, optionally a superpage at the 4.0-dev text address).  ospick: for "
                           "every ia32 and Xen image the decisions check_pae (PAE / non-PAE / fail), get_linux_pgt_root (root handed to the walk) "
                           "and the Xen text probe (text base, 1T/5T direct map) as read from the implementation's final methods and maps are "
                           "compared with Kdf.Model.OsPick run on the same memory cells (driver stream os, ops `ospick ...`)",
               samples=samples, traces_validated_against_impl=unit_obs + npick, setup_decisions_vs_model=npick, setup_decision_kinds=pick_kinds, setup_decisions_wall_s=t_pick, unit_scan_vs_oracle=unit_scan_checked,
               unit_case_kinds=dict(sorted(unit_kinds.items())), images=tot, images_per_generator=per_gen,
               parameter_histogram=dict(sorted(hist.items())), scenarios=[s[0] for s in SCENARIOS])
    return "proof", cov, ["get_page is a deterministic function of the page address",
                          "images are laid out the way the supported kernels lay out memory: linear direct map, linear kernel text, "
                          "holes of at least one page between linear and non-linear areas, fixed placements consistent with the version code "
                          "when the page tables are not reachable",
                          "x86_64 (Linux, Xen hypervisor), ia32 (Linux), riscv64 (Linux), aarch64 (Linux, up to 48 VA bits) and arm (Linux, short "
                          "descriptors, TTBCR.N=0) set-up code is exercised by images; s390x and ppc64 set-up and a real Linux-under-Xen image "
                          "(xen_xlat=1 with machine-address page tables, p2m, m2p) are not covered by this check (xen_xlat=1 occurs only as the first "
                          "stage of a history); KVADDR-only read capabilities only for arm (their hardware walks are proved in C02)",
                          "completeness (a mapped address must be translatable) is judged only for images whose generator states that the library was "
                          "told enough (Img.root_known: a root it can read in the order of precedence the set-up code documents, and the paging "
                          "depth); the arm, ia32, riscv64, aarch64 and history extensions are implementation-only (image generators + Python "
                          "oracle), the theorems are unchanged",
                          "the theorems cover the generic layout machinery and the scanners on the x86-64 paging forms; of the decision logic "
                          "only check_pae, get_linux_pgt_root (ia32.c) and the Xen text probe order of map_xen_x86_64 are modelled "
                          "(Kdf.Model.OsPick; the implementation's decision is read off its final methods/maps, the functions are static); the rest "
                          "of the x86_64.c decision logic is covered by the image stream only",
                          "the task-root and ioremap image extensions are implementation-only as far as the property evaluation goes (generators + "
                          "Python walks); CR3 flag bits PWT/PCD are 0 in ia32 images (Linux never sets them)"]


def replay(R, path):
    rep = json.load(open(path))
    exe = R.build_harness("s_os", ["s_os.c"])
    if rep.get("stream") == "img":
        img, rng = make_image(rep["generator"], rep["gen_seed"], rep.get("force"))
        L = [l for l in rep["input"].split("\n") if l] if rep.get("input") else img_script(img, rng)
        rc, out, err = R.run_harness(exe, stdin_text="\n".join(L) + "\n", timeout=120)
        obs = kdf.obs(out)
        fails, st = eval_img(img, obs)
        for o in obs:
            if o.split()[0] in ("osinit", "q", "rt"):
                print(o)
        for msg, o in fails[:10]:
            print("FAIL:", msg)
        print("no failure" if not fails else "%d failing observations" % len(fails))
        return 1 if fails else 0
    if rep.get("stream") == "ospick":
        img, rng = make_image(rep["generator"], rep["gen_seed"], rep.get("force"))
        L, obs, rc, err = run_img(R, exe, img, rng)
        _, st = eval_img(img, obs)
        pj = pick_job(rep["generator"], img, st)
        model = [o for o in kdf.obs(R.run_driver("os", "\n".join(pj[0]) + "\n")) if o.startswith("ospick")]
        bad = 0
        for a, b in zip(pj[1], model):
            print("impl:", a, "| model:", b)
            bad += a != b and not (a == "ospick pae fail")
        return 1 if bad else 0
    lines = [l for l in rep["input"].split("\n") if l]
    text = "\n".join(lines) + "\n"
    rc, out, err = R.run_harness(exe, stdin_text=text, timeout=120)
    impl = [strip_tail(o) for o in kdf.obs(out)]
    model = kdf.obs(R.run_driver("os", text))
    k = kdf.diff_streams(impl, model)
    for j, o in enumerate(impl[-6:]):
        print("impl:", o)
    print("first difference with the model:", k, "expected:", rep.get("expected"))
    return 1 if (k is not None or rep.get("expected")) else 0
