"""C06 — the page cache never loses, duplicates or recycles a buffer in use."""
import os, subprocess, re
import kdf

THEOREMS = ["Kdf.Props.C06." + t for t in ("inv_flush", "inv_step_partial", "inv_step_weak", "inv_iff_weak", "inv_step_counterexample", "no_ub", "no_ub_weak", "inv_reachable_partial", "inv_reachable_weak", "inv_reachable_counterexample", "busy_iff", "busy_unchanged", "referenced_stable", "cached_stable", "hit_key", "miss_entry", "buffer_addresses_distinct", "life_release_inv", "life_drop_inv", "life_history")]


class Impl:
    """interactive session with harness/s_cache"""
    def __init__(self, exe):
        env = dict(os.environ)
        env["ASAN_OPTIONS"] = "detect_leaks=0:abort_on_error=0"
        env["UBSAN_OPTIONS"] = "print_stacktrace=1:halt_on_error=1"
        self.p = subprocess.Popen([exe], stdin=subprocess.PIPE, stdout=subprocess.PIPE, stderr=subprocess.PIPE,
                                  text=True, bufsize=1, env=env)
    def op(self, line):
        try:
            self.p.stdin.write(line + "\n"); self.p.stdin.flush()
            out = self.p.stdout.readline()
        except BrokenPipeError:
            out = ""
        if not out:
            err = self.p.stderr.read()[-3000:]
            return None, err
        return out[1:].strip(), None
    def close(self):
        try:
            self.p.stdin.close()
        except Exception:
            pass
        self.p.wait(timeout=30)


def parse_state(line):
    """-> dict(res, U, GB, B, P, GP, F, dp, h, m, ents{idx:(key,ref,data,flag)}, ring(next,prev,split)) or None if malformed"""
    if " MALFORMED " in line or line.startswith(("UB", "PROTO", "dead", "bad-op")):
        return None
    st = {}
    parts = line.split(" E=")
    head = parts[0].split()
    st["res"] = head[0]
    for tok in head[1:]:
        k, v = tok.split("=")
        st[k] = [int(x) for x in v.split(",") if x] if k in ("U", "GB", "B", "P", "GP", "F") else int(v)
    rest = parts[1].split(" R=")
    ents = {}
    for t in rest[0].split():
        i, k, r, d = t.split(":")
        flag = ""
        if d and d[-1] in "bpvx":
            flag, d = d[-1], d[:-1]
        ents[int(i)] = (None if k == "_" else int(k), int(r), None if d == "-" else int(d), flag)
    st["ents"] = ents
    if len(rest) > 1:
        sp, pairs = rest[1].split(";")
        np_ = [tuple(int(x) for x in p.split("/")) for p in pairs.split(",") if p]
        st["ring"] = (int(sp), np_)
    return st


def invariant(st, cap, holders, content):
    """The property's executable statement on one state of the implementation.
    holders: list of dict(idx,key,buf) for references currently held."""
    arcs = st["U"] + st["GB"] + st["B"] + st["P"] + st["GP"] + st["F"]
    if sorted(arcs) != list(range(2 * cap)):
        return "ring and in-flight list do not partition the %d entries: %s" % (2 * cap, arcs)
    if "ring" in st:
        sp, np_ = st["ring"]
        infl = set(st["F"])
        for i, (n, p) in enumerate(np_):
            if n >= 2 * cap or p >= 2 * cap or np_[n][1] != i or np_[p][0] != i:
                return "next/prev links inconsistent at entry %d" % i
            if (i in infl) != (n in infl):
                return "in-flight list and ring are linked together at entry %d" % i
    bufs = sorted(e[2] for e in st["ents"].values() if e[2] is not None)
    if bufs != list(range(cap)):
        return "buffers owned by entries are %s, expected each of 0..%d exactly once" % (bufs, cap - 1)
    for i in st["B"] + st["P"] + st["F"]:
        if st["ents"][i][2] is None:
            return "entry %d is cached or in flight but owns no buffer" % i
    for i in st["GB"] + st["GP"]:
        if st["ents"][i][2] is not None:
            return "ghost entry %d owns a buffer" % i
    keys = [st["ents"][i][0] for i in st["B"] + st["P"] + st["F"]]
    if len(set(keys)) != len(keys):
        return "two cached/in-flight entries share a key: %s" % keys
    for i in st["B"] + st["P"]:
        if st["ents"][i][3] != "v":
            return "entry %d is in a cached partition but not valid" % i
    if len(st["B"]) + len(st["P"]) + len(st["F"]) > cap:
        return "more cached + in-flight entries than capacity"
    cnt = {}
    for h in holders:
        cnt[h["idx"]] = cnt.get(h["idx"], 0) + 1
        e = st["ents"][h["idx"]]
        if h["idx"] not in st["B"] + st["P"] + st["F"]:
            return "entry %d is referenced by a caller but was evicted/recycled" % h["idx"]
        if e[0] != h["key"]:
            return "entry %d is referenced for key %d but now has key %s" % (h["idx"], h["key"], e[0])
        if e[2] != h["buf"]:
            return "entry %d is referenced with buffer %s but now owns buffer %s" % (h["idx"], h["buf"], e[2])
    for i, e in st["ents"].items():
        if e[1] != cnt.get(i, 0):
            return "entry %d has reference count %d, callers hold %d" % (i, e[1], cnt.get(i, 0))
    return None


def explore(R, exe, cap, nkeys, nops, maxhold, script=None, release=None):
    """Run one random (or scripted) protocol-respecting history on the implementation.
    Returns (ops, impl_lines, failure message or None)."""
    I = Impl(exe)
    ops, lines = [], []
    holders = []          # dict(idx,key,buf,fill)
    content = {}          # buffer -> key inserted into it
    fail = None
    rng = R.rng
    def do(line):
        out, err = I.op(line)
        ops.append(line)
        if out is None:
            lines.append("CRASH")
            return None, "implementation crashed: " + (err.strip().split("\n")[0] if err.strip() else "no output")
        lines.append(out.split(" R=")[0])
        return out, None
    out, fail = do("new %d" % cap)
    step = 0
    while fail is None and step < nops:
        step += 1
        if script is not None:
            if step > len(script):
                break
            kind, arg = script[step - 1]
        else:
            choices = ["get"] * 3
            if holders:
                choices += ["fin"] * 3
            if len(holders) >= maxhold:
                # mostly give something back; now and then look up once more with every reference out: with all buffers referenced
                # or being filled the answer must be `busy` (and must not be when one is free)
                choices = ["fin"] * 5 + ["get"]
            kind = rng.choice(choices)
            arg = rng.randrange(nkeys) if kind == "get" else rng.randrange(len(holders))
        if kind == "get":
            k = arg
            out, fail = do("get %d" % k)
            if fail:
                break
            st = parse_state(out)
            if st is None:
                fail = "state is malformed after get %d: %s" % (k, out[:200]); break
            if st["res"] == "busy":
                pinned = sum(1 for i in st["B"] + st["P"] if st["ents"][i][1] > 0)
                if pinned + len(st["F"]) < cap:
                    fail = "lookup refused (busy) although only %d entries are referenced and %d in flight (capacity %d)" % (pinned, len(st["F"]), cap)
                    break
            else:
                _, idx, valid = st["res"].split(":")
                idx, valid = int(idx), valid == "1"
                e = st["ents"][idx]
                if e[0] != k:
                    fail = "get %d returned entry %d whose key is %s" % (k, idx, e[0]); break
                if valid:
                    if content.get(e[2]) != k:
                        fail = "hit for key %d returned buffer %s which holds the data inserted for key %s" % (k, e[2], content.get(e[2])); break
                else:
                    same = [h for h in holders if h["idx"] == idx]
                    if not same:
                        if e[2] is not None and any(h["buf"] == e[2] for h in holders):
                            fail = "buffer %s handed to key %d while another caller still references it" % (e[2], k); break
                        content.pop(e[2], None)
                holders.append(dict(idx=idx, key=k, buf=e[2], fill=not valid))
        else:
            h = holders[arg % len(holders)] if holders else None
            if h is None:
                continue
            if h["fill"]:
                if (script is None and rng.random() < 0.7) or (script is not None and kind == "ins"):
                    out, fail = do("insert %d" % h["idx"])
                    h["fill"] = False
                    content[h["buf"]] = h["key"]
                else:
                    out, fail = do("discard %d" % h["idx"])
                    holders.remove(h)
            else:
                out, fail = do("put %d" % h["idx"])
                holders.remove(h)
            if fail:
                break
            st = parse_state(out)
            if st is None:
                fail = "state is malformed: %s" % out[:200]; break
        msg = invariant(st, cap, holders, content)
        if msg:
            fail = msg
            break
    # life cycle: the cache is replaced (cache_release) while `holders` still have pages; it must live exactly until the
    # last of them is put or discarded, whichever half of the entry array they are in
    if fail is None and script is None and (release if release is not None else rng.random() < 0.5):
        def life(out):
            m = re.match(r"(released|orphan) freed=(\d) refs=(\S*)$", out)
            if not m:
                return "unexpected answer in the life cycle of a released cache: %s" % out[:200]
            refs = {int(a): int(b) for a, b in (t.split(":") for t in m.group(3).split(",") if t)}
            cnt = {}
            for h in holders:
                cnt[h["idx"]] = cnt.get(h["idx"], 0) + 1
            if refs != cnt:
                return "released cache: reference counts %s, callers hold %s" % (refs, cnt)
            if m.group(2) == "1" and holders:
                return "released cache was freed while entries %s are still referenced by callers" % sorted(cnt)
            if m.group(2) == "0" and not holders:
                return "released cache is not freed although no entry is referenced any more"
            return None
        out, fail = do("release")
        if fail is None:
            fail = life(out)
        while fail is None and holders:
            h = holders.pop(rng.randrange(len(holders)))
            out, fail = do("%s %d" % ("discard" if h["fill"] or rng.random() < 0.3 else "put", h["idx"]))
            if fail is None:
                fail = life(out)
    I.close()
    return ops, lines, fail


def run(R):
    facts, changed = R.extract()
    proof = R.prove(["Kdf.Props.C06"], THEOREMS) if THEOREMS else dict(obligations=0, discharged=0, broken=[], axioms={}, log="")
    lib, cflags = R.build_lib()
    exe = R.build_harness("s_cache", ["s_cache.c"], lib=lib, cflags=cflags + ["-ffunction-sections", "-fdata-sections"], ldflags=["-Wl,--gc-sections"])
    plans = []
    if R.tier == "quick":
        for cap in (1, 2, 3, 4, 8):
            plans += [(cap, cap + 2, 60, min(cap, 3))] * 300
    else:
        for cap in (1, 2, 3, 4, 5, 8, 16, 64):
            plans += [(cap, cap + 2, 80, min(cap, 4))] * 2000 + [(cap, 2 * cap + 3, 300, cap)] * 300
    allops, allimpl, seqs = [], [], []
    failure = None
    states = set()
    for (cap, nkeys, nops, maxhold) in plans:
        ops, lines, fail = explore(R, exe, cap, nkeys, nops, maxhold)
        seqs.append((len(allops), len(ops)))
        allops += ops; allimpl += lines
        for l in lines:
            states.add(l.split(" dp=")[0])
        if fail:
            failure = (ops, lines, fail)
            break
    model = kdf.obs(R.run_driver("cache", "\n".join(allops) + "\n"))
    mism = kdf.diff_streams(allimpl, model)
    # buffers of a cache larger than 4 GiB (untouched address space; built without sanitizers): each entry of the first half
    # owns data + i * elemsize, the second half owns none (lean: Kdf.Props.C06.buffer_addresses_distinct)
    big = []
    try:
        libp, cfp = R.build_lib(san=False, tag="libplain")
        exeb = R.build_harness("s_cachebig", ["s_cachebig.c"], lib=libp, cflags=cfp + ["-ffunction-sections", "-fdata-sections"], ldflags=["-Wl,--gc-sections"])
        rcb, outb, errb = R.run_harness(exeb, stdin_text="", timeout=120)
        big = kdf.obs(outb)
        badb = [o for o in big if not o.startswith(("big ok", "big skipped"))]
        if (rcb != 0 or badb or len(big) != 3) and not failure:
            R.violation("cache of more than 4 GiB of buffers: %s (rc=%s %s)" % (badb or big, rcb, errb.strip()[:200]),
                        dict(stream="cache/big", how="harness/s_cachebig.c: cache_alloc(5, 1 GiB), cache_alloc(3, 2 GiB + 4096), cache_alloc(65537, 64 KiB); "
                             "entry i must own data + i * elemsize", answers=big, broken_theorems=proof["broken"]))
    except kdf.CheckBroken as e:
        big = ["build failed: " + str(e)[:200]]
    if failure:
        ops, lines, fail = failure
        R.violation(fail, dict(stream="cache", input="\n".join(ops) + "\n", last_states=lines[-3:], broken_theorems=proof["broken"]))
    elif proof["broken"] or mism is not None:
        seq = next(((a, n) for (a, n) in seqs if mism is not None and a <= mism < a + n), None)
        R.violation("proof obligation or correspondence broken: theorems %s; first differing line %s" % (proof["broken"], mism),
                    dict(stream="cache", broken_theorems=proof["broken"], lean_log=proof["log"][-1500:],
                         first_diff=None if mism is None else dict(index=mism, input="\n".join(allops[seq[0]:mism + 1]) + "\n",
                                                                   impl=allimpl[mism] if mism < len(allimpl) else None,
                                                                   model=model[mism] if mism < len(model) else None)),
                    found_input=False)
    cov = dict(obligations=max(proof["obligations"], 1), discharged=proof["discharged"],
               checker_cmd="cd lean && lake build Kdf.Props.C06 && #print axioms on each theorem",
               trusted_base=["Lean 4 kernel", "axioms: " + ", ".join(sorted({a for v in proof["axioms"].values() for a in v}) or ["none"]),
                             "harness/s_cache.c derives the five arcs from split + counters of the real struct cache", "gcc + ASan/UBSan"], big_cache_probe=big,
               broken_theorems=proof["broken"], theorems=THEOREMS,
               evaluations=len(allops), distinct_nontrivial=len(states),
               rule="random protocol-respecting histories (get / insert-or-discard by fillers / put) at capacities %s, keys <= cap+2 (2cap+3 in long runs), "
                    "bounded outstanding references; the invariant (partition, links, buffers, keys, references, busy rule, hit data) is evaluated on the "
                    "implementation's state after every operation; non-trivial = distinct arc configurations reached" % sorted({p[0] for p in plans}),
               traces_validated_against_impl=len(allimpl), correspondence_first_diff=mism,
               samples=[dict(ops=allops[a:a + min(n, 12)]) for (a, n) in seqs[:1] + seqs[-1:]])
    return "proof", cov, ["API protocol of cache_get_page: insert/discard only by holders of a not-yet-valid entry, put only of held references",
                          "entry_cleanup callback not exercised"]
