"""C01 — reads return exactly the memory the dump file encodes, in every format.

(1) property evaluation: generated dumps of every supported format (ELF,
    diskdump/KDUMP, LKCD, SADUMP, s390) are read through the public API
    (every frame, unaligned page-crossing ranges, range ends, both settings
    of file.zero_excluded, the five geometry attributes) and compared with
    the memory image and the layout the generator encoded.
(2) correspondence: the same operation lines go to the Lean model (stream
    `dump`), which answers *where in the file* each page comes from; that
    symbolic answer is evaluated on the file bytes and compared with what the
    implementation delivered.  uncompress_rle() is additionally run directly
    against its Lean model."""
import json, os, random, struct, zlib
import kdf, dumpgen

M64 = (1 << 64) - 1
P = "Kdf.Props.C01."
THEOREMS = [P + t for t in (
    "rle_total", "rle_roundtrip", "rle_short_dst",
    "elf_history_irrelevant", "elf_page_spec",
    "dd_desc_position", "dd_locate_single", "sadump_position", "sadump_walk_spec",
    "lkcd_get_spec", "lkcd_init_inv",
    "elf_counts_plain", "elf_counts_xnum", "elf_loads_all", "elf_xnum_spec",
    "lkcd_fault_spec", "lkcd_fault_silent", "lkcd_fault_recovers")]
GEOM = ["file.format", "arch.byte_order", "arch.ptr_size", "arch.page_size", "max_pfn"]
FAIL_TOKENS = ("nodata", "notimpl", "corrupt", "ioerr", "eof", "xlat", "oob", "no-layout")


# ----------------------------------------------------------------------------- memory image
class Image:
    """sparse memory image with arbitrary page contents; every page carries its frame number so
    that the bytes of one frame can never pass for another"""
    def __init__(self, rng, ps):
        self.ps, self.seed, self.cache = ps, rng.getrandbits(40), {}

    def page(self, pfn):
        b = self.cache.get(pfn)
        if b is None:
            r = random.Random((self.seed << 64) ^ pfn)
            ps, k = self.ps, r.randrange(10)
            if k == 0:
                b = bytearray(ps)                                   # zero page
            elif k == 1:
                b = bytearray([r.randrange(1, 256)]) * ps           # one long run
            elif k in (2, 3):                                       # runs of every length incl. 255/256/257, zeros
                b = bytearray()
                while len(b) < ps:
                    n = r.choice([1, 1, 2, 2, 3, 4, 7, 254, 255, 256, 257, 600, r.randrange(1, 40)])
                    b += bytes([r.choice([0, 0, 1, 0x41, 0xff, r.randrange(256)])]) * n
                b = b[:ps]
            elif k == 4:                                            # text-like, compresses well
                w = [b"kernel ", b"panic ", b"\0\0\0\0", b"page ", b"0123456789", b"\n"]
                b = bytearray()
                while len(b) < ps:
                    b += r.choice(w)
                b = b[:ps]
            else:
                b = bytearray(r.randbytes(ps))                      # incompressible
            if k != 0:
                b[8:16] = struct.pack("<Q", pfn ^ 0x5a5a5a5a5a5a5a5a)
                b[ps - 16:ps - 8] = struct.pack(">Q", pfn)
            b = self.cache[pfn] = bytes(b)
        return b

    def byte(self, pa):
        return self.page(pa // self.ps)[pa % self.ps]


class patched:
    """route the page contents of the existing writers (write_elf, write_diskdump) through an Image"""
    def __init__(self, img):
        self.img = img

    def __enter__(self):
        self.saved = dumpgen.page_bytes, dumpgen.content_byte
        img = self.img
        dumpgen.page_bytes = lambda pfn, ps, nuls=(): img.page(pfn)
        dumpgen.content_byte = img.byte

    def __exit__(self, *a):
        dumpgen.page_bytes, dumpgen.content_byte = self.saved


def rand_runs(rng, top, start=None):
    runs, p = [], rng.randint(0, 5) if start is None else start
    while p < top:
        n = rng.choice([1, 1, 2, 3, 5, 8, rng.randint(1, 12)])
        runs.append((p, min(n, top - p)))
        p += n + rng.choice([1, 1, 2, 3, 7, 8, 9, rng.randint(1, 20)])
    return runs


def runs_to_list(runs):
    return [p for a, n in runs for p in range(a, a + n)]


# ----------------------------------------------------------------------------- layouts
class Layout:
    """spaces(): [(as, [page addresses])]; expect(as, pageaddr, zx) -> ('ok', bytes) | ('fail', {statuses} | None)
    (None = any failure status)"""
    def describe(self):
        def san(v):
            if isinstance(v, (set, frozenset)):
                return sorted(san(x) for x in v)
            if isinstance(v, (list, tuple)):
                return [san(x) for x in v]
            if isinstance(v, dict):
                return {str(k): san(x) for k, x in v.items() if k != "data"}
            if isinstance(v, (bytes, bytearray)):
                return "<%d bytes>" % len(v)
            return v
        return {k: san(v) for k, v in self.__dict__.items()
                if isinstance(v, (int, str, bool, list, tuple, dict, set, type(None))) and k not in ("filebytes", "pageset", "present")}


ELF_ARCHS = [("x86_64", 64, False, 4096, 8), ("x86_64", 64, False, 4096, 8), ("i386", 32, False, 4096, 4),
             ("s390x", 64, True, 4096, 8), ("ppc64", 64, True, 65536, 8), ("aarch64", 64, False, 65536, 8),
             ("aarch64", 64, False, 4096, 8), ("arm", 32, False, 4096, 4), ("riscv64", 64, False, 4096, 8)]
VOFFS64 = [0xffff880000000000, 0xffffffff80000000, 0xffffc90000000000, 0x1000000000]
VOFFS32 = [0xc0000000, 0x80000000, 0x40000000]


def vmcoreinfo_note(ps, be, elfclass):
    E = ">" if be else "<"
    desc = b"OSRELEASE=5.4.0-verif\nPAGESIZE=%d\n" % ps
    name = b"VMCOREINFO\0"
    pad = lambda b: b + b"\0" * (-len(b) % 4)
    return struct.pack(E + "III", len(name), len(desc), 0) + pad(name) + pad(desc)


class ElfL(Layout):
    kind = "elf"

    def __init__(self, R, idx, seq=0):
        rng = R.rng
        # every third ELF dump: 32-bit class with program header entries larger than Elf32_Phdr
        self.machine, self.elfclass, self.be, self.ps, self.ptr = rng.choice(ELF_ARCHS if seq % 3 != 1 else [a for a in ELF_ARCHS if a[1] == 32])
        ps = self.ps
        self.img = Image(rng, ps)
        voffs = VOFFS64 if self.elfclass == 64 else VOFFS32
        self.mode = ["pages", "bytes", "straddle", "tail"][seq % 4]
        top = rng.choice([12, 24, 40])
        segs, p = [], rng.randint(0, 3)
        while p < top:
            n = rng.randint(1, 5)
            fp = n if rng.random() < 0.6 else rng.randint(0, n)
            segs.append(dict(paddr=p * ps, filesz=fp * ps, memsz=n * ps))
            p += n + rng.choice([1, 1, 2, 3, 7])
        if self.mode == "bytes":
            for s in segs:
                cut0 = rng.choice([0, 0, 0x800, 0x10, ps - 1])
                s["paddr"] += cut0
                s["memsz"] = max(1, s["memsz"] - cut0 - rng.choice([0, 0, 0x800, 1, ps - 1]))
                s["filesz"] = rng.choice([s["memsz"], s["memsz"], max(0, s["memsz"] - 0x800), s["memsz"] // 2, 0])
        elif self.mode == "straddle":
            # consecutive segments that meet or nearly meet inside one page
            out, pa = [], rng.randint(0, 3) * ps + rng.choice([0, 0x300])
            for _ in range(rng.randint(2, 5)):
                memsz = rng.choice([ps // 2, ps, ps + 0x123, 2 * ps - 0x40, 3 * ps + 8])
                filesz = rng.choice([memsz, memsz, memsz - 0x20, memsz // 3])
                out.append(dict(paddr=pa, filesz=filesz, memsz=memsz))
                pa += memsz + rng.choice([0, 0, 0x10, 0x7f0, ps, 3 * ps + 0x20])
            segs = out
        elif self.mode == "tail":
            # a segment whose zero-filled tail (memsz > filesz) runs over a page boundary and ends inside a page in
            # which the next segment begins
            out, pa = [], rng.randint(0, 3) * ps + rng.choice([0, 0x300, ps // 2])
            for _ in range(rng.randint(2, 4)):
                filesz = rng.choice([0x800, ps // 2 + 0x123, ps, ps + 0x40, 0])
                memsz = filesz + ps * rng.randint(1, 2) + rng.choice([0x400, 0x123, ps // 2, 8])
                out.append(dict(paddr=pa, filesz=filesz, memsz=memsz))
                pa += memsz + rng.choice([0, 0, 0x10, 0x100])
                n = rng.choice([ps // 4, ps, ps + 0x80])
                out.append(dict(paddr=pa, filesz=n, memsz=n))
                pa += n + rng.choice([0, 0x20, ps, 2 * ps + 0x20])
            segs = out
        # virtual layout: blocks of segments in different regions so that virtual order != physical order
        for s in segs:
            s["voff"] = rng.choice(voffs)
        if self.elfclass == 32:
            segs = [s for s in segs if s["paddr"] + s["memsz"] + s["voff"] < (1 << 32)]
        if not any(s["paddr"] for s in segs):
            segs.append(dict(paddr=(top + 3) * ps, filesz=ps, memsz=ps, voff=voffs[0]))
        # virtual extents must not overlap either
        segs.sort(key=lambda s: s["paddr"])
        keep = []
        for s in segs:
            v = (s["paddr"] + s["voff"]) & M64
            if all(v + s["memsz"] <= (t["paddr"] + t["voff"]) & M64 or ((t["paddr"] + t["voff"]) & M64) + t["memsz"] <= v
                   for t in keep) and v + s["memsz"] <= M64:
                keep.append(s)
        self.segs = keep
        order = list(self.segs)
        rng.shuffle(order)
        self.path = R.path("c01-%d.elf" % idx)
        notes = vmcoreinfo_note(ps, self.be, self.elfclass)
        # program header entries larger than the structure (e_phentsize > sizeof(Elf*_Phdr)), both ELF classes
        self.phpad = R.rng.choice([0, 0, 0, 8, 24, 40] if seq % 3 != 1 else [8, 24, 40])
        with patched(self.img):
            dumpgen.write_elf(self.path, order, ps=ps, machine=self.machine, elfclass=self.elfclass, be=self.be,
                              notes=notes, phpad=self.phpad)
        self.paths = [self.path]
        # file offsets as write_elf assigned them (program-header order); the padding behind each segment's file
        # data is filled with junk that no program header refers to
        off = (((64 if self.elfclass == 64 else 52) + (len(order) + 1) * ((56 if self.elfclass == 64 else 32) + self.phpad) + len(notes))
               + ps - 1) // ps * ps
        with open(self.path, "r+b") as f:
            for s in order:
                s["off"] = off
                nxt = off + (s["filesz"] + ps - 1) // ps * ps
                f.seek(off + s["filesz"])
                f.write(b"\xee" * (nxt - off - s["filesz"]))
                off = nxt
            f.seek(0, 2)
            f.write(b"\xee" * ps)
        self.filebytes = {0: open(self.path, "rb").read()}
        ends = [(s["paddr"] + s["memsz"]) for s in self.segs]
        self.geom = {"file.format": {"str:elf"}, "arch.byte_order": {"num:%d" % (0 if self.be else 1)},
                     "arch.ptr_size": {"num:%d" % self.ptr}, "arch.page_size": {"num:%d" % ps},
                     "max_pfn": {"num:%d" % (max(ends) // ps), "num:%d" % ((max(ends) + ps - 1) // ps)}}

    def spaces(self):
        ps, pa, va = self.ps, set(), set()
        for s in self.segs:
            lo, hi = s["paddr"] // ps, (s["paddr"] + s["memsz"] - 1) // ps
            for p in range(max(0, lo - 2), hi + 3):
                pa.add(p * ps)
                v = p * ps + s["voff"]
                if 0 <= v <= M64 - ps:
                    va.add(v)
        return [(1, sorted(pa)), (2, sorted(va))]

    def expect(self, as_, addr, zx):
        ps = self.ps
        buf, filehit, memhit = bytearray(ps), False, False
        for s in self.segs:
            base = s["paddr"] if as_ == 1 else (s["paddr"] + s["voff"]) & M64
            lo, hi = max(base, addr), min(base + s["memsz"], addr + ps)
            if lo < hi:
                memhit = True
            hi = min(base + s["filesz"], addr + ps)
            if lo < hi:
                filehit = True
                for a in range(lo, hi):
                    buf[a - addr] = self.img.byte(a - base + s["paddr"])
        if filehit or (zx and memhit):
            return ("ok", bytes(buf))
        return ("fail", {"nodata"} if as_ == 1 else None)

    def model_lines(self):
        out = ["L elf %d" % self.ps]
        for s in self.segs:
            out.append("L seg %d %d %d %d %d" % (s["off"], s["filesz"], s["paddr"], s["memsz"], (s["paddr"] + s["voff"]) & M64))
        return out


class ElfXL(ElfL):
    """ELF core with so many program headers that the gABI extended numbering is needed (e_phnum = PN_XNUM, the real
    number in sh_info of section header 0), as the kernel and makedumpfile -E write for a very fragmented memory map:
    one-page LOAD segments in any table order, most of them without file data (memsz > filesz = 0: zero-filled or
    missing), some with data on both sides of the 65535th table entry."""
    kind = "elf"

    def __init__(self, R, idx, seq=0):
        rng = R.rng
        self.machine, self.elfclass, self.be, self.ps, self.ptr = rng.choice([a for a in ELF_ARCHS if a[3] == 4096])
        ps = self.ps
        self.img = Image(rng, ps)
        self.mode = "xnum"
        # number of program headers incl. the NOTE entry: at the limit, just beyond, well beyond; below the limit the
        # escape value may still be used (force)
        self.nph = rng.choice([0xffff, 0x10000, 65600, 65600, 66000, 0xfffe if R.tier != "quick" else 65600])
        self.shnum_field = rng.choice([1, 1, 0])
        n = self.nph - 1
        self.base = base = rng.randint(0, 3)
        voff = rng.choice(VOFFS64 if self.elfclass == 64 else VOFFS32[:1])
        self.voff = voff
        tabpos = list(range(n))                    # tabpos[k] = position in the table of the segment at pfn base + 2k
        if rng.random() < 0.5:
            rng.shuffle(tabpos)
        elif rng.random() < 0.5:
            tabpos.reverse()
        self.tabpos = tabpos
        lim = 0xffff - 1                           # table position (among the LOADs) of the first entry beyond PN_XNUM
        bypos = {tp: k for k, tp in enumerate(tabpos)}
        want = {bypos[t] for t in range(max(0, lim - 3), min(n, lim + 4))} | {bypos[n - 1], bypos[0], n - 1, 0}
        want |= {rng.randrange(n) for _ in range(30)}
        self.datasegs = want
        table = [None] * n
        for k in range(n):
            d = self.img.page(base + 2 * k) if k in want else None
            table[tabpos[k]] = dict(paddr=(base + 2 * k) * ps, filesz=ps if d is not None else 0, memsz=ps, voff=voff, data=d)
        self.path = R.path("c01-%d.elf" % idx)
        self.info = dumpgen.write_elf_table(self.path, table, ps=ps, machine=self.machine, elfclass=self.elfclass, be=self.be,
                                            notes=vmcoreinfo_note(ps, self.be, self.elfclass), shnum_field=self.shnum_field,
                                            force_xnum=True)
        self.table = table
        self.nseg = n
        self.paths = [self.path]
        self.filebytes = {0: open(self.path, "rb").read()}
        self.geom = {"file.format": {"str:elf"}, "arch.byte_order": {"num:%d" % (0 if self.be else 1)},
                     "arch.ptr_size": {"num:%d" % self.ptr}, "arch.page_size": {"num:%d" % ps},
                     "max_pfn": {"num:%d" % (base + 2 * (n - 1) + 1)}}
        self.segs = []                              # (describe() only)
        ks = set(want) | {rng.randrange(n) for _ in range(40)}
        self.read_ks = sorted(ks)

    def describe(self):
        return dict(kind="elf", mode="xnum", machine=self.machine, elfclass=self.elfclass, be=self.be, ps=self.ps,
                    program_headers=self.nph, header=self.info, first_pfn=self.base,
                    note="LOAD segment k covers frame first_pfn + 2k (memsz = one page); table position tabpos[k] + 1",
                    segments_with_file_data={str(k): self.tabpos[k] + 1 for k in sorted(self.datasegs)})

    def spaces(self):
        ps, pa = self.ps, set()
        for k in self.read_ks:
            p = self.base + 2 * k
            pa |= {p * ps, (p + 1) * ps}
        pa = sorted(pa)
        return [(1, pa), (2, [a + self.voff for a in pa if a + self.voff <= M64 - ps])]

    def expect(self, as_, addr, zx):
        ps = self.ps
        pa = addr if as_ == 1 else addr - self.voff
        p = pa // ps - self.base
        if pa >= 0 and p >= 0 and p % 2 == 0 and p // 2 < self.nseg:
            if p // 2 in self.datasegs:
                return ("ok", self.img.page(pa // ps))
            if zx:
                return ("ok", bytes(ps))
        return ("fail", {"nodata"} if as_ == 1 else None)

    def model_lines(self):
        out = ["L elf %d" % self.ps]
        mask = M64 if self.elfclass == 64 else 0xffffffff
        for t, s in enumerate(self.table):
            out.append("L seg %d %d %d %d %d %d" % (s["off"], s["filesz"], s["paddr"], s["memsz"], (s["paddr"] + s["voff"]) & mask, t + 1))
        i = self.info
        out.append("L ehdr %d %d %d %d %d" % (i["e_phnum"], i["e_shnum"], i["e_shoff"], i["sh_size"], i["sh_info"]))
        return out


DD_ARCHS = [("x86_64", 64, False, 8), ("x86_64", 64, False, 8), ("i686", 32, False, 4), ("s390x", 64, True, 8),
            ("ppc64", 64, True, 8), ("aarch64", 64, False, 8), ("ppc64le", 64, False, 8), ("ppc", 32, True, 4),
            ("s390", 32, True, 4), ("armv7l", 32, False, 4), ("armv7l", 32, False, 4)]
# (header version, number of split files, word size or 0 = any)
DD_STRATA = [(6, 1, 0), (2, 2, 64), (6, 3, 0), (2, 3, 32), (5, 2, 0), (3, 1, 0), (1, 1, 0), (6, 2, 32), (4, 2, 64), (2, 1, 0)]
DD_METHODS = ["raw", "raw", "zlib", "zlib", "zlib-stored", "snappy", "zstd", "lzo"]


class DdL(Layout):
    kind = "diskdump"

    def __init__(self, R, idx, seq=0):
        rng = R.rng
        self.version, nsplit, want_bits = DD_STRATA[seq % len(DD_STRATA)]
        self.machine, self.bits, self.be, self.ptr = rng.choice([a for a in DD_ARCHS if want_bits in (0, a[1])])
        self.ps = ps = 4096 if self.machine in ("x86_64", "i686", "s390x", "s390") or seq % 5 == 2 else rng.choice([4096, 65536, 16384])
        self.img = Image(rng, ps)
        top = rng.choice([20, 40, 64, 130])
        self.pages = runs_to_list(rand_runs(rng, top))
        self.ram = sorted(set(self.pages) | set(runs_to_list(rand_runs(rng, top))))
        self.max_mapnr = top + rng.choice([0, 0, 3])
        if seq % 5 == 2:
            self.max_mapnr = [ps * 8, ps * 8 + 1, ps * 8 - 1][(seq // 5) % 3]   # capacity boundary of the bitmap
            hi = runs_to_list([(self.max_mapnr - 9, 4), (self.max_mapnr - 3, 3)])
            self.pages = sorted(set(self.pages) | set(hi))
            self.ram = sorted(set(self.ram) | set(hi))
        self.methods = {p: rng.choice(DD_METHODS) for p in self.pages}
        cuts = sorted(rng.sample(range(1, top), nsplit - 1)) if nsplit > 1 else []
        self.windows = list(zip([0] + cuts, cuts + [max(top, self.max_mapnr)]))
        self.flat = [rng.random() < 0.25 for _ in self.windows]
        self.subhdr = None
        if self.bits == 32 and self.version >= 3:
            self.subhdr = "pad" if self.machine.startswith("arm") else rng.choice([None, "pack"])
        self.paths_by_window, self.twin = [], []
        for k, (a, b) in enumerate(self.windows):
            p = R.path("c01-%d-%d.kdump" % (idx, k))
            kw = dict(ps=ps, max_mapnr=self.max_mapnr, ram=self.ram, version=self.version, machine=self.machine,
                      split=(a, b) if nsplit > 1 else None, methods=self.methods, be=self.be, bits=self.bits)
            with patched(self.img):
                info = dumpgen.write_diskdump(p, self.pages, **kw)
            if self.subhdr:
                # 32-bit sub-header flavours: VMCOREINFO inside the sub-header block; packed (IA-32) or padded (ARM) layout
                dumpgen.diskdump_sub_header_32(p, ps, be=self.be, pad=self.subhdr == "pad",
                                               vmcoreinfo=b"OSRELEASE=5.4.0-verif\nPAGESIZE=%d\n" % ps)
            t = p
            if self.flat[k]:
                p = p + ".flat"
                dumpgen.flatten_file(t, p, chunk=rng.choice([4096, 1000, 70000]), order=rng.choice(["fwd", "rev", "shuffle"]), rng=rng)
            self.paths_by_window.append(p)
            self.twin.append(t)
            self.pdoff = info["pdoff"]
        self.order = list(range(len(self.windows)))
        rng.shuffle(self.order)
        self.paths = [self.paths_by_window[i] for i in self.order]
        self.filebytes = {fi: open(self.twin[w], "rb").read() for fi, w in enumerate(self.order)}
        self.geom = {"file.format": {"str:diskdump"}, "arch.byte_order": {"num:%d" % (0 if self.be else 1)},
                     "arch.ptr_size": {"num:%d" % self.ptr}, "arch.page_size": {"num:%d" % ps},
                     "max_pfn": {"num:%d" % self.max_mapnr}}
        self.pageset = set(self.pages)

    def spaces(self):
        ps = self.ps
        fr = set(range(0, min(self.max_mapnr, 140) + 3))
        if self.max_mapnr > 140:
            fr |= set(range(self.max_mapnr - 12, self.max_mapnr + 3))
        return [(1, [p * ps for p in sorted(fr)])]

    def expect(self, as_, addr, zx):
        p = addr // self.ps
        if p >= self.max_mapnr:
            return ("fail", {"nodata"})
        if p in self.pageset:
            if self.methods[p] == "lzo":
                return ("fail", {"notimpl"})
            return ("ok", self.img.page(p))
        return ("ok", bytes(self.ps)) if zx else ("fail", {"nodata"})

    def model_lines(self):
        nb = (self.max_mapnr + 7) // 8
        b2 = bytearray(nb)
        for p in self.pages:
            b2[p >> 3] |= 1 << (p & 7)
        out = ["L dd %d %d %d" % (self.ps, 1 if self.be else 0, self.max_mapnr)]
        for fi, w in enumerate(self.order):
            a, b = self.windows[w]
            out.append("L ddfile %d %s %d %d %d %d %s" % (fi, self.twin[w], a, b if len(self.windows) > 1 else M64,
                                                          nb * 8, self.pdoff, bytes(b2).hex()))
        return out


LK_VARIANTS = [(9, 64, False, "x86_64", 8), (9, 64, False, "x86_64", 8), (10, 64, False, "x86_64", 8),
               (8, 64, False, "x86_64", 8), (8, 64, True, "ppc64", 8), (7, 64, True, "s390x", 8),
               (7, 32, False, "i686", 4), (5, 32, False, "i386", 4), (5, 64, False, "x86_64", 8),
               (3, 32, False, "i686", 4), (2, 64, False, "x86_64", 8), (1, 32, False, "i686", 4),
               (1, 64, False, "x86_64", 8), (9, 64, True, "ppc64", 8)]


class LkL(Layout):
    kind = "lkcd"
    # the format has no notion of excluded pages: a missing frame is NODATA whatever zero_excluded says

    def __init__(self, R, idx, seq=0):
        rng = R.rng
        self.version, self.bits, self.be, self.machine, self.ptr = rng.choice(LK_VARIANTS)
        self.ps = ps = rng.choice([4096, 4096, 4096, 8192, 65536]) if self.machine in ("ppc64",) else 4096
        self.compression = [1, 2, 0, 1][seq % 4] if self.version >= 5 else 1
        self.img = Image(rng, ps)
        self.end_marker = True        # a stream without END marker is not a well-formed dump (reads beyond EOF see zero descriptors)
        self.far = ["16g", "none", "4t"][seq % 3]
        self.read_order = [1, 0, 2, 1][seq % 4]
        self.shuffle_ok = False
        # several passes over memory, each ascending, with gaps up to and beyond MAX_PFN_GAP
        pfns = []
        for _ in range(rng.randint(1, 4)):
            pfns += runs_to_list(rand_runs(rng, rng.choice([30, 60, 5000]), start=rng.randint(0, 40)))[:rng.randint(3, 25)]
        self.big = seq % 6 == 5
        if self.big:
            # a file larger than one file-cache window (4 MiB) of raw pages at unaligned offsets: some page data straddles
            # the window boundary
            self.ps = ps = 4096
            self.img = Image(rng, ps)
            self.far, self.read_order = "none", 0
            pfns = list(range(rng.randint(0, 9), rng.randint(1080, 1200)))
        elif seq % 2 == 0:
            # back-fill pattern: a run with a hole, then the frame right below the run, a far frame, then the hole
            b = rng.randint(20, 45)
            pat = [b, b + 1, b + rng.randint(4, 9), b - 1, b + rng.choice([40, 200, 5000]), b + rng.randint(2, 3)]
            k = rng.randint(0, len(pfns))
            pfns[k:k] = pat
        seen, order = set(), []
        for p in pfns:
            if p not in seen:
                seen.add(p); order.append(p)
        if self.far != "none":
            base = 0x400000 if self.far == "16g" else 1 << 32
            low = [p for p in order if p < 0x1000][:6]
            extra = [base * rng.choice([1, 2, 3]) + p + rng.choice([1, 1, 2]) for p in low]
            extra = [p for k, p in enumerate(extra) if p not in seen and p not in extra[:k]]
            pos = rng.randint(0, len(order))
            order[pos:pos] = extra
            seen |= set(extra)
        if rng.random() < 0.3:
            rng.shuffle(order)
        # a frame stored twice (same contents): the stream is inconsistent; the library may deliver the frame
        # or report corruption once its scan has reached the second copy -- never other bytes
        self.dup = seq % 6 == 4 and len(order) > 3
        if self.dup:
            k = rng.randrange(len(order) - 1)
            order.insert(rng.randint(k + 1, len(order)), order[k])
        self.order_pfns = order
        stream = []
        for p in order:
            rec = dict(pfn=p, data=self.img.page(p), kind="raw" if self.big and rng.random() < 0.95 else
                       rng.choice(["auto", "auto", "auto", "raw", "compressed"]))
            if rec["kind"] == "compressed" and self.compression and self.version >= 5 or rec["kind"] == "compressed" and self.version < 5:
                c = dumpgen.rle_encode(rec["data"]) if (self.compression == 1 or self.version < 5) else zlib.compress(rec["data"])
                if len(c) + rec.get("skip", 0) > ps:      # a page that does not fit the compressed-data buffer is stored raw
                    rec["kind"] = "raw"
            if rec["kind"] == "raw" and "skip" in rec:
                del rec["skip"]                            # raw pages must have dp_size == page size
            if rec["kind"] == "auto" and "skip" in rec:
                del rec["skip"]
            stream.append(rec)
        self.path = R.path("c01-%d.lkcd" % idx)
        self.info = dumpgen.write_lkcd(self.path, stream, ps=ps, version=self.version, be=self.be, bits=self.bits,
                                       compression=self.compression, machine=self.machine, end_marker=self.end_marker,
                                       data_offset=rng.choice([None, 65536, 4096 * 5]))
        self.paths = [self.path]
        self.filebytes = {0: open(self.path, "rb").read()}
        self.present = set(order)
        self.geom = {"file.format": {"str:lkcd"}, "arch.byte_order": {"num:%d" % (0 if self.be else 1)},
                     "arch.ptr_size": {"num:%d" % self.ptr}, "arch.page_size": {"num:%d" % ps},
                     "max_pfn": {"num:%d" % (max(order) + 1 if order else 0)}}
        if self.dup:
            self.geom["max_pfn"].add("attr corrupt -")

    def spaces(self):
        fr = set()
        for p in self.present:
            fr |= {p, p + 1, max(0, p - 1), p ^ 0x400000, p ^ 0x800000, (p + (1 << 32)), p % (1 << 32)}
        fr |= set(range(0, 12))
        fr = sorted(p for p in fr if p * self.ps <= M64 - self.ps)
        # the order of the reads decides whether a descriptor is found by the stream scan or through the index:
        # ascending / stored frames first in stream order (each found by the scan) / in reverse stream order
        if self.read_order == 1:
            fr = self.order_pfns + [p for p in fr if p not in self.present]
        elif self.read_order == 2:
            fr = self.order_pfns[::-1] + [p for p in fr if p not in self.present]
        return [(1, [p * self.ps for p in fr])]

    def expect(self, as_, addr, zx):
        p = addr // self.ps
        if p in self.present:
            return ("ok", self.img.page(p), {"corrupt"}) if self.dup else ("ok", self.img.page(p))
        return ("fail", {"nodata", "corrupt"}) if self.dup else ("fail", {"nodata"})

    def model_lines(self):
        return ["L lkcd %s %d %d %d %d 0" % (self.path, self.ps, 1 if self.be else 0, self.info["data_offset"],
                                             self.compression if self.version >= 5 else 1)]


class SaL(Layout):
    kind = "sadump"

    def __init__(self, R, idx, seq=0):
        rng = R.rng
        self.ps = ps = 4096
        self.img = Image(rng, ps)
        self.sakind = ["diskset", "single", "diskset", "media", "diskset"][seq % 5]
        self.ndisks = [2, 1, 3, 1, 4][seq % 5] if self.sakind == "diskset" else 1
        top = rng.choice([24, 50, 100])
        self.pages = runs_to_list(rand_runs(rng, top))
        self.ram = sorted(set(self.pages) | set(runs_to_list(rand_runs(rng, top))))
        self.max_mapnr = top + rng.choice([0, 0, 5])
        self.header_version = [1, 0, 1][seq % 3]
        self.nr_cpus = rng.choice([1, 1, 2, 4])
        self.long_mode = rng.random() < 0.75
        n = len(self.pages)
        self.ndisks = max(1, min(self.ndisks, n))
        # every disk after the first holds at least one page (a disk file that ends with its header block
        # is not a well-formed dump device; the library reads past its end: robustness, property C03)
        cuts = sorted(rng.sample(range(0, n), self.ndisks - 1)) if self.ndisks > 1 else []
        self.cuts = [b - a for a, b in zip([0] + cuts, cuts + [n])]
        self.disk_paths = [R.path("c01-%d-%d.sadump" % (idx, k)) for k in range(self.ndisks)]
        self.info = dumpgen.write_sadump(self.disk_paths, {p: self.img.page(p) for p in self.pages}, ram=self.ram,
                                         max_mapnr=self.max_mapnr, kind=self.sakind, ndisks=self.ndisks, cuts=self.cuts,
                                         header_version=self.header_version, nr_cpus=self.nr_cpus,
                                         long_mode=self.long_mode, cpu_extra=rng.choice([0, 0, 64]))
        self.order = list(range(self.ndisks))
        rng.shuffle(self.order)
        self.paths = [self.disk_paths[d] for d in self.order]
        self.filebytes = {fi: open(self.disk_paths[d], "rb").read() for fi, d in enumerate(self.order)}
        self.pageset = set(self.pages)
        self.geom = {"file.format": {"str:sadump"}, "arch.byte_order": {"num:1"},
                     "arch.ptr_size": {"num:%d" % (8 if self.long_mode else 4)}, "arch.page_size": {"num:4096"},
                     "max_pfn": {"num:%d" % self.max_mapnr}}

    def spaces(self):
        return [(1, [p * self.ps for p in range(self.max_mapnr + 3)])]

    def expect(self, as_, addr, zx):
        p = addr // self.ps
        if p >= self.max_mapnr:
            return ("fail", {"nodata"})
        if p in self.pageset:
            return ("ok", self.img.page(p))
        return ("ok", bytes(self.ps)) if zx else ("fail", {"nodata"})

    def model_lines(self):
        nb = (self.max_mapnr + 7) // 8
        b = bytearray(nb)
        for p in self.pages:
            b[p >> 3] |= 0x80 >> (p & 7)
        out = ["L sadump %d %d %d %s" % (self.ps, self.max_mapnr, nb * 8, bytes(b).hex())]
        for d in range(self.ndisks):
            out.append("L ext %d %d %d" % (self.info["data_pos"][d], self.cuts[d] * self.ps, self.order.index(d)))
        return out


class S3L(Layout):
    kind = "s390"

    def __init__(self, R, idx, seq=0):
        rng = R.rng
        self.ps = ps = 4096
        self.img = Image(rng, ps)
        self.npages = rng.choice([1, 2, 7, 16, 33])
        self.arch = rng.choice([1, 2, 2])
        self.hdr_size = [4096, 8192, 4096, 12288][seq % 4]
        self.path = R.path("c01-%d.s390" % idx)
        dumpgen.write_s390(self.path, {p: self.img.page(p) for p in range(self.npages)}, self.npages, ps=ps,
                           arch=self.arch, hdr_size=self.hdr_size, mem_pad=rng.choice([0, 16, 3 * ps]))
        self.paths = [self.path]
        self.filebytes = {0: open(self.path, "rb").read()}
        self.geom = {"file.format": {"str:s390dump"}, "arch.byte_order": {"num:0"},
                     "arch.ptr_size": {"num:%d" % (8 if self.arch == 2 else 4)}, "arch.page_size": {"num:4096"},
                     "max_pfn": {"num:%d" % self.npages}}

    def spaces(self):
        return [(1, [p * self.ps for p in range(self.npages + 4)] + [(1 << 40), M64 - self.ps + 1])]

    def expect(self, as_, addr, zx):
        p = addr // self.ps
        return ("ok", self.img.page(p)) if p < self.npages else ("fail", {"nodata"})

    def model_lines(self):
        return ["L s390 %d %d %d" % (self.hdr_size, self.npages, self.ps)]


KINDS = [ElfL, DdL, LkL, SaL, S3L, DdL, ElfL, LkL, SaL, DdL]


# ----------------------------------------------------------------------------- oracle for ranges
def expect_range(L, as_, addr, length, zx):
    """what kdump_read may report for [addr, addr+length): list of acceptable (set of statuses | None, delivered
    bytes); the first entry is the regular answer, further entries exist only where the dump itself is
    inconsistent (LKCD stream with a duplicated frame: the duplicate may be reported as corruption)"""
    ps, out, a, remain, alts = L.ps, bytearray(), addr, length, []
    while remain:
        r = L.expect(as_, a - a % ps, zx)
        if len(r) > 2:
            alts.append((r[2], bytes(out)))
        if r[0] != "ok":
            return [(r[1], bytes(out))] + alts
        n = min(ps - a % ps, remain)
        out += r[1][a % ps:a % ps + n]
        a += n
        remain -= n
    return [({"ok"}, bytes(out))] + alts


# ----------------------------------------------------------------------------- evaluating the model's symbolic answers
def snappy_decode(b):
    i, n, sh = 0, 0, 0
    while True:
        c = b[i]; i += 1
        n |= (c & 0x7f) << sh; sh += 7
        if not c & 0x80:
            break
    out = bytearray()
    while i < len(b):
        t = b[i]; i += 1
        if t & 3 == 0:
            ln = t >> 2
            if ln >= 60:
                k = ln - 59
                ln = int.from_bytes(b[i:i + k], "little"); i += k
            ln += 1
            out += b[i:i + ln]; i += ln
        else:
            if t & 3 == 1:
                ln, off = ((t >> 2) & 7) + 4, ((t >> 5) << 8) | b[i]; i += 1
            elif t & 3 == 2:
                ln, off = (t >> 2) + 1, int.from_bytes(b[i:i + 2], "little"); i += 2
            else:
                ln, off = (t >> 2) + 1, int.from_bytes(b[i:i + 4], "little"); i += 4
            for _ in range(ln):
                out.append(out[-off])
    return bytes(out) if len(out) == n else None


def zstd_raw_decode(b):
    if len(b) < 12 or struct.unpack("<I", b[:4])[0] != 0xFD2FB528 or b[4] != 0x60:
        return None
    n = struct.unpack("<H", b[5:7])[0] + 256
    bh = int.from_bytes(b[7:10], "little")
    if bh & 7 != 1 or bh >> 3 != n:
        return None
    return b[10:10 + n]


def decode(blob, meth, ps):
    try:
        if meth == "raw":
            return blob
        if meth in ("zlib", "gzip"):
            return zlib.decompress(blob)
        if meth == "snappy":
            return snappy_decode(blob)
        if meth == "zstd":
            return zstd_raw_decode(blob)
        if meth == "rle":
            return dumpgen.rle_decode(blob, ps)
    except Exception:
        return None
    return None


def eval_model(L, line, addr, length):
    """model answer (symbolic pages) -> canonical 'status len crc' as the harness prints it"""
    ps = L.ps
    status, data = "ok", bytearray()
    for tok in line.split(";") if line else []:
        if tok in FAIL_TOKENS:
            status = tok
            break
        if tok == "zero":
            data += bytes(ps)
        elif tok.startswith("data:"):
            _, f, o, sz, m = tok.split(":")
            fb = L.filebytes.get(int(f), b"")
            o, sz = int(o), int(sz)
            pg = decode(fb[o:o + sz], m, ps) if o + sz <= len(fb) else None
            if pg is None or len(pg) != ps:
                status = "corrupt"
                break
            data += pg
        elif tok.startswith("chunk:"):
            o = int(tok[6:])
            fb = L.filebytes[0]
            if o + ps > len(fb):
                status = "eof"
                break
            data += fb[o:o + ps]
        elif tok.startswith("pieces:"):
            pg = bytearray()
            for pc in tok[7:].split(","):
                if pc.startswith("z"):
                    pg += bytes(int(pc[1:]))
                else:
                    o, n = pc[1:].split("+")
                    pg += L.filebytes[0][int(o):int(o) + int(n)].ljust(int(n), b"\0")
            if len(pg) != ps:
                status = "oob"
                break
            data += pg
        else:
            status = "model-bad-token:" + tok
            break
    got = bytes(data[addr % ps:addr % ps + length])
    return status, len(got), zlib.crc32(got)


# ----------------------------------------------------------------------------- RLE, called directly
def rle_cases(R):
    rng = R.rng
    n = 300 if R.tier == "quick" else 6000
    lines, want = [], []
    for i in range(n):
        k = rng.random()
        if k < 0.45:
            src = bytes(rng.choice([0, 0, 0, 1, 2, 3, 255, rng.randrange(256)]) for _ in range(rng.randint(0, 24)))
            dst = rng.randint(0, 40)
        else:
            x = bytearray()
            for _ in range(rng.randint(0, 6)):
                x += bytes([rng.choice([0, 0, 7, 255, rng.randrange(256)])]) * rng.choice([1, 1, 2, 3, 4, 254, 255, 256, 257, 300])
            x = bytes(x)
            src = dumpgen.rle_encode(x)
            dst = len(x) + rng.choice([0, 0, 0, -1, 1, 5, -len(x)])
            dst = max(dst, 0)
            if k > 0.9 and src:
                src = src[:rng.randrange(len(src))]          # truncated stream
            elif k > 0.55:
                # property: decode(encode(x)) == x and never more than dst bytes
                lines.append("rle %d %s" % (dst, src.hex() or "-"))
                want.append(("ok", x) if dst >= len(x) else ("err", None))
                continue
        lines.append("rle %d %s" % (dst, src.hex() or "-"))
        d = dumpgen.rle_decode(src, dst)
        want.append(("ok", d) if d is not None else ("err", None))
    return lines, want


# ----------------------------------------------------------------------------- the check
def build_ops(R, L, zx):
    """operation lines for one context on layout L with zero_excluded = zx, with the query metadata"""
    rng = R.rng
    ps = L.ps
    ops = [("open", "open %d %s" % (len(L.paths), " ".join(L.paths)))]
    ops += [("layout", l) for l in L.model_lines()]
    ops.append(("set", "setnum file.zero_excluded %d" % zx))
    geom = [("attr", "attr " + k, k) for k in GEOM]
    frames = []
    for as_, addrs in L.spaces():
        fr = [("frame", "rdc %d %d %d" % (as_, a, ps), as_, a, ps) for a in addrs]
        if rng.random() < 0.3 and getattr(L, "shuffle_ok", True):
            rng.shuffle(fr)
        frames += fr
        if addrs:
            lo, hi = min(addrs), max(addrs) + ps
            cand = [a for a in addrs]
            for _ in range(10 if R.tier == "quick" else 40):
                a = rng.choice(cand) + rng.choice([0, 1, 7, ps // 2, ps - 1, ps - 7]) - rng.choice([0, 0, 3])
                ln = rng.choice([1, 2, 13, ps - 1, ps, ps + 1, 2 * ps, 2 * ps + 13, 3 * ps - 5, 5 * ps])
                a = max(0, min(a, M64 - ln))
                frames.append(("range", "rdc %d %d %d" % (as_, a, ln), as_, a, ln))
            # range ends: up to / across the end of the last frame, zero length
            frames.append(("range", "rdc %d %d %d" % (as_, max(0, hi - ps - 5), ps + 5), as_, max(0, hi - ps - 5), ps + 5))
            frames.append(("range", "rdc %d %d %d" % (as_, max(0, hi - 9), 9), as_, max(0, hi - 9), 9))
            frames.append(("range", "rdc %d %d %d" % (as_, lo, 0), as_, lo, 0))
    # geometry before or after the reads (LKCD: max_pfn indexes the whole stream)
    k = rng.choice([0, len(frames) // 2, len(frames)]) if L.kind != "lkcd" else rng.choice([0, 7, len(frames) // 2, len(frames)])
    body = frames[:k] + geom + frames[k:]
    if L.kind == "lkcd" and not L.dup and L.info["recs"]:
        body = fault_episodes(R, L, body)
    return ops + body


def fault_episodes(R, L, body):
    """LKCD: transient failures of a descriptor read (EIO from pread -> KDUMP_ERR_SYSTEM, or KDUMP_ERR_BUSY) while the
    stream is being indexed: `fault <descriptor offset>`, the operation during which it may strike (a read of a frame
    that was not read before, or max_pfn), `unfault`, and the same operation again.  Everything after the failed call
    must be answered as if nothing had happened."""
    rng, ps = R.rng, L.ps
    desc = {r["pfn"]: r["desc_off"] for r in L.info["recs"]}
    offs = [r["desc_off"] for r in L.info["recs"]] + [L.info["end"]]
    out, touched, n, first = [], set(), 0, True
    maxep = 3 if R.tier == "quick" else 6
    for op in body:
        cand = None
        if op[0] == "frame" and op[4] == ps and op[3] % ps == 0 and op[3] // ps in desc and op[3] // ps not in touched:
            cand = desc[op[3] // ps] if rng.random() < 0.6 else rng.choice(offs)
        elif op[0] == "attr" and op[2] == "max_pfn":
            cand = rng.choice(offs)
        if cand is not None and n < maxep and rng.random() < (0.5 if first else 0.1):
            n += 1
            out.append(("fault", "fault %d %d" % (cand, rng.randrange(2))))
            out.append(op + (True,))
            out.append(("unfault", "unfault"))
        if cand is not None:
            first = False
        out.append(op)
        if op[0] in ("frame", "range"):
            touched |= set(range(op[3] // ps, (op[3] + max(op[4], 1) - 1) // ps + 1))
    return out


class Stats:
    def __init__(self):
        self.kinds, self.nontrivial, self.nev, self.traces, self.per_kind, self.samples = {}, 0, 0, 0, {}, []
        self.faults = {}


def run_batch(R, exe, first, count, seq, S):
    """generate `count` dumps, run implementation and model on them; returns (fail, mismatch) where
    fail = (message, replay) for a failed property evaluation, mismatch = replay dict of the first model/implementation
    difference"""
    rng = R.rng
    layouts, lines, meta = [], [], []
    # one dump per batch with more program headers than e_phnum can hold
    for li in list(range(first, first + count)) + [100000 + first]:
        cls = KINDS[li % len(KINDS)] if li < 100000 else ElfXL
        seq[cls] = seq.get(cls, -1) + 1
        L = cls(R, li, seq[cls])
        L.li = len(layouts)
        layouts.append(L)
        S.per_kind[L.kind] = S.per_kind.get(L.kind, 0) + 1
        if len(S.samples) < 5:
            S.samples.append(dict(kind=L.kind, **{k: v for k, v in L.describe().items()
                                                   if k in ("version", "bits", "be", "ps", "machine", "sakind", "ndisks", "mode")}))
        zxs = (0, 1) if rng.random() < 0.5 else (1, 0)
        if cls is ElfXL and R.tier == "quick":
            zxs = zxs[:1]                    # 65 600 layout lines per context: one setting per run in the quick tier
        for zx in zxs:
            for op in build_ops(R, L, zx):
                lines.append(op[1])
                meta.append((L.li, zx) + op)
    text = "\n".join(lines) + "\nclose\n"
    rc, out, err = R.run_harness(exe, stdin_text=text, timeout=1500)
    impl = [o.split(" C16:")[0] for o in kdf.obs(out)]
    obs_meta = [m for m in meta if m[2] != "layout"]
    fail = None
    if rc != 0 or len(impl) != len(obs_meta):
        k = min(len(impl), len(obs_meta) - 1)
        fail = (k, "harness stopped after %d of %d observations (rc=%s) at '%s': %s" %
                (len(impl), len(obs_meta), rc, obs_meta[k][3], (err.strip().split("\n") or [""])[0][:300]))
    # ---- (1) the property on the implementation's answers
    for i, (m, o) in enumerate(zip(obs_meta, impl)):
        if fail and i >= fail[0]:
            break
        li, zx, typ = m[0], m[1], m[2]
        L = layouts[li]
        what = None
        if typ == "open":
            if o != "open ok":
                what = "cannot open the generated %s dump: %s" % (L.kind, o)
        elif typ == "set":
            if o != "set ok":
                what = "cannot set file.zero_excluded: " + o
        elif typ == "fault":
            if o != "fault ok":
                what = "harness cannot arm the fault: " + o
        elif typ == "unfault":
            if o not in ("fault fired", "fault pending"):
                what = "harness out of step at unfault: " + o
        elif typ == "attr" and len(m) > 5 and i + 1 < len(impl) and impl[i + 1] == "fault fired":
            # the scan for max_pfn was hit by the transient failure: the call must fail (the value cannot be known yet)
            S.nev += 1
            S.faults["attr"] = S.faults.get("attr", 0) + 1
            if o.startswith("attr ok"):
                what = "lkcd dump: max_pfn was delivered ('%s') although the descriptor read at %s failed during the scan" % (o, obs_meta[i - 1][3])
        elif typ == "attr":
            key = m[4]
            val = (o.split(" ", 2)[2] if o.startswith("attr ok ") else o).strip()
            S.nev += 1
            if val not in L.geom[key]:
                what = "geometry: %s of the %s dump is reported as '%s', the file encodes %s" % (key, L.kind, val, sorted(L.geom[key]))
        else:
            as_, a, ln = m[4], m[5], m[6]
            outcomes = expect_range(L, as_, a, ln, zx)
            st, data = outcomes[0]
            parts = o.split()
            if len(parts) != 3 or not parts[1].isdigit() or not parts[2].isdigit():
                fail = fail or (i, "observation stream out of step at '%s': got '%s'" % (m[3], o))
                break
            got_st, got_len, got_crc = parts[0], int(parts[1]), int(parts[2])
            S.nev += 1
            kk = "%s/%s/%s" % (L.kind, typ, "ok" if st == {"ok"} else "miss")
            S.kinds[kk] = S.kinds.get(kk, 0) + 1
            ok = any((got_st in s_ if s_ is not None else got_st != "ok") and got_len == len(d_) and got_crc == zlib.crc32(d_)
                     for s_, d_ in outcomes)
            if len(m) > 7 and i + 1 < len(impl) and impl[i + 1] == "fault fired":
                # the injected failure struck during this call: it is reported as such, nothing is delivered
                kind = ["system", "busy"][int(obs_meta[i - 1][3].split()[2])]
                ok = got_st == kind and got_len == 0
                st, data = {kind}, b""
                S.faults["read"] = S.faults.get("read", 0) + 1
            elif len(m) > 7:
                S.faults["pending"] = S.faults.get("pending", 0) + 1
            if st == {"ok"} and ln:
                S.nontrivial += 1
            if not ok:
                what = ("%s dump: read of address space %d, address 0x%x, length %d with zero_excluded=%d returned '%s'; the file encodes "
                        "status %s, %d bytes, crc32 %d" % (L.kind, as_, a, ln, zx, o, sorted(st) if st else "any error", len(data), zlib.crc32(data)))
        if what and fail is None:
            fail = (i, what)
    # ---- (2) correspondence with the model
    drv = kdf.obs(R.run_driver("dump", text))
    dm = [m for m in obs_meta if m[2] != "attr"]
    impl_na = [o for m, o in zip(obs_meta, impl) if m[2] != "attr"]
    mism, model_canon = None, []
    for m, d in zip(dm, drv):
        if m[2] in ("open", "set", "fault", "unfault"):
            model_canon.append(d)
        else:
            st, n, crc = eval_model(layouts[m[0]], d, m[5], m[6])
            model_canon.append("%s %d %d" % (st, n, crc))
    for j, (m, c) in enumerate(zip(dm, model_canon)):
        if j >= len(impl_na):
            break
        o = impl_na[j]
        same = o == c
        if not same and m[2] in ("frame", "range"):
            ps_, pc = o.split(), c.split()
            # statuses the model leaves to the environment: address translation, I/O errors
            if pc[0] in ("xlat", "ioerr") and ps_[0] != "ok" and ps_[1:] == pc[1:]:
                same = True
        if not same:
            mism = j
            break
    if mism is None and len(drv) != len(dm) and not fail:
        mism = min(len(drv), len(dm))
    S.traces += len(model_canon)
    fail_out = mism_out = None
    if fail:
        i, msg = fail
        m = obs_meta[min(i, len(obs_meta) - 1)]
        L = layouts[m[0]]
        # the transient failures injected earlier in the same context (with the call each one was armed for)
        hist, mi = [], min(i, len(obs_meta) - 1)
        for j in range(mi):
            q = obs_meta[j]
            if q[0] == m[0] and q[1] == m[1] and q[2] == "fault":
                hist.append("%s ; %s -> %s ; %s" % (q[3], obs_meta[j + 1][3], impl[j + 1] if j + 1 < len(impl) else "?",
                                                    impl[j + 2] if j + 2 < len(impl) else "?"))
        if hist:
            msg += " [after a transient failure of a descriptor read earlier in this context: %s]" % ([h for h in hist if h.endswith("fault fired")] or hist)[-1]
        fail_out = (msg, dict(stream="fmt/dump", layout=L.describe(), zero_excluded=m[1], query=m[3], files=L.paths,
                              injected_faults=hist,
                              model_answer=(model_canon[dm.index(m)] if m in dm and dm.index(m) < len(model_canon) else None),
                              stderr=err[-1500:]))
    elif mism is not None:
        m = dm[min(mism, len(dm) - 1)]
        mism_out = dict(index=mism, query=m[3], zero_excluded=m[1], layout=layouts[m[0]].describe(),
                        impl=impl_na[mism] if mism < len(impl_na) else None,
                        model=model_canon[mism] if mism < len(model_canon) else None,
                        model_symbolic=drv[mism] if mism < len(drv) else None)
    for L in layouts:                       # keep the scratch directory small
        for pth in set(L.paths) | set(getattr(L, "twin", [])) | set(getattr(L, "disk_paths", [])):
            if os.path.exists(pth):
                os.remove(pth)
        L.filebytes = None
    return fail_out, mism_out


def run(R):
    facts, changed = R.extract()
    proof = R.prove(["Kdf.Props.C01"], THEOREMS)
    nlay = 30 if R.tier == "quick" else 1500
    lib, cflags = R.build_lib()
    exe = R.build_harness("s_fmt", ["s_fmt.c"], lib=lib, cflags=cflags + ["-DFMT_FAULT"],
                          ldflags=["-Wl,--wrap=_kdumpfile_priv_fcache_pread"])
    S, seq, fail, mism = Stats(), {}, None, None
    for first in range(0, nlay, 150):
        fail, mism = run_batch(R, exe, first, min(150, nlay - first), seq, S)
        if fail or mism:
            break
    # ---- uncompress_rle directly
    rl, rwant = rle_cases(R)
    exe2 = R.build_harness("s_dump", ["s_dump.c"], lib=lib, cflags=cflags)
    rc2, out2, err2 = R.run_harness(exe2, stdin_text="\n".join(rl) + "\n")
    rimpl = kdf.obs(out2)
    rmodel = kdf.obs(R.run_driver("dump", "\n".join(rl) + "\n"))
    rfail = None
    if rc2 != 0 or len(rimpl) != len(rl):
        k = min(len(rimpl), len(rl) - 1)
        rfail = (k, "uncompress_rle harness stopped after %d of %d (rc=%s) at '%s': %s" % (len(rimpl), len(rl), rc2, rl[k], err2.strip()[:400]))
    else:
        for k, (l, o, w) in enumerate(zip(rl, rimpl, rwant)):
            exp = "rle err" if w[0] == "err" else "rle ok " + (w[1].hex() or "-")
            if o != exp:
                rfail = (k, "uncompress_rle: '%s' answered '%s'; the run-length code says '%s'" % (l, o[:200], exp[:200]))
                break
    rmism = kdf.diff_streams(rimpl, rmodel) if not rfail else None
    # ---- verdicts
    if fail:
        R.violation(fail[0], dict(fail[1], broken_theorems=proof["broken"], tier=R.tier))
    if rfail:
        R.violation(rfail[1], dict(stream="dump/rle", case=rl[rfail[0]], broken_theorems=proof["broken"], stderr=err2[-800:]))
    if not fail and not rfail and (proof["broken"] or mism is not None or rmism is not None):
        fd = mism
        if fd is None and rmism is not None:
            fd = dict(index=rmism, case=rl[min(rmism, len(rl) - 1)], impl=rimpl[rmism] if rmism < len(rimpl) else None,
                      model=rmodel[rmism] if rmism < len(rmodel) else None)
        R.violation("proof obligation or correspondence broken: theorems %s; first differing operation %s" % (proof["broken"], fd and fd.get("query", fd.get("case"))),
                    dict(stream="dump", broken_theorems=proof["broken"], lean_log=proof["log"][-1500:], first_diff=fd),
                    found_input=False)
    cov = dict(obligations=max(proof["obligations"], 1), discharged=proof["discharged"],
               checker_cmd="cd lean && lake build Kdf.Props.C01 && #print axioms on each theorem",
               trusted_base=["Lean 4 kernel", "tools/dumpgen.py writers (ELF, diskdump, LKCD, SADUMP, s390) and the Image oracle of tools/props/c01.py",
                             "Python zlib; snappy/zstd-raw/RLE decoders of c01.py (used to evaluate the model's symbolic answers)",
                             "harness/s_fmt.c, harness/s_dump.c, gcc + ASan/UBSan", "qsort sorts (driver uses mergeSort)"],
               broken_theorems=proof["broken"], theorems=THEOREMS,
               evaluations=S.nev + len(rimpl), distinct_nontrivial=S.nontrivial, dumps=S.per_kind, case_kinds=S.kinds,
               rle_cases=len(rimpl), lkcd_transient_faults=S.faults,
               rule="generated dumps of all five formats (word size, byte order, page size, header version, per-page compression incl. stored streams "
                    "and LZO, exclusion, split/flattened files, disk sets in any file order, unordered LKCD streams with far-apart frames); in a fresh "
                    "context per zero_excluded setting: every frame of the dump and its neighbourhood, unaligned page-crossing ranges, range ends, "
                    "zero-length reads and the five geometry attributes, compared with the image/layout the generator encoded; one ELF core per batch "
                    "with >= 65535 program headers (extended numbering); LKCD contexts with up to 3 (6) one-shot transient failures of a descriptor "
                    "read during the stream scan (frame read or max_pfn), the failed call repeated and all later reads checked as usual; non-trivial = "
                    "(dump, address space, address, length, zero_excluded) queries whose expected answer is data",
               traces_validated_against_impl=S.traces + len(rmodel),
               correspondence_first_diff=(mism or {}).get("index") if mism else rmism,
               samples=S.samples)
    assum = ["no address arithmetic of the lookups wraps at 2^64 (model is over Nat)",
             "header parsing (geometry) is evaluated on the implementation only, not modelled (except the ELF section/program "
             "header counts incl. extended numbering: elfCounts)",
             "transient read failures (LKCD) are injected at the cross-TU call lkcd.c -> fcache_pread() for page descriptor reads "
             "(KDUMP_ERR_SYSTEM with errno EIO, or KDUMP_ERR_BUSY), not at the pread system call; page data reads are not faulted",
             "real zlib/snappy/zstd decompressors are outside the model; the model locates the compressed bytes",
             "LKCD block table abstracted to a finite map keyed by the frame number",
             "ELF KVADDR reads outside every LOAD segment need address translation (external): any failure status accepted"]
    return "proof", cov, assum


def replay(R, path):
    """re-run the generation that produced the replay (everything derives from seed and tier)"""
    d = json.load(open(path))
    R.seed = int(d.get("seed", R.seed))
    R.tier = d.get("tier", "quick")
    R.rng = random.Random((R.seed << 8) ^ int(R.prop[1:]))
    level, cov, assum = run(R)
    return R.finish(level, cov, assum)
