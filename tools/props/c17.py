"""C17 — a callback layer that overrides nothing changes nothing."""
import json, itertools
import kdf

THEOREMS = ["Kdf.Props.C17.invoke_eq_spec", "Kdf.Props.C17.passthrough_transparent_of",
            "Kdf.Props.C17.add_del_restores", "Kdf.Props.C17.del_passthrough",
            "Kdf.Props.C17.forwarders_ok", "Kdf.Props.C17.passthrough_transparent",
            "Kdf.Props.C17.invoke_never_diverges"]
NH = 7


def spec(stack, h):
    """stack: list of (priv, mask), top first."""
    n = len(stack)
    for i, (priv, mask) in enumerate(stack):
        if mask >> h & 1:
            return "called %d %d %d" % ((n - 1 - i) * 8 + h, priv, n - i)
    return "base %d" % h


def gen(R):
    stacks = [[]]
    masks_small = [0, 127] + [1 << h for h in range(NH)] + [127 ^ (1 << h) for h in range(NH)]
    # exhaustive: depth 1 and 2 over the structured mask set
    for m in masks_small:
        stacks.append([(1001, m)])
    for m0, m1 in itertools.product(masks_small, repeat=2):
        stacks.append([(1001, m0), (1002, m1)])
    n_rand = 600 if R.tier == "quick" else 20000
    for _ in range(n_rand):
        d = R.rng.randint(1, 8 if R.tier == "thorough" else 6)
        st = []
        for j in range(d):
            k = R.rng.random()
            m = 0 if k < 0.4 else (127 if k < 0.5 else R.rng.randrange(128))
            st.append((R.rng.randrange(1, 1 << 20), m))
        stacks.append(st)
    # every stack is followed by the same stack without its top layer (the
    # comparison point of the property)
    out = []
    for s in stacks:
        out.append(s)
        if s:
            out.append(s[1:])
    return out


def scripts(R, stacks):
    """Per stack: invoke all hooks; for a sample of stacks also delete layers in
    random (non-LIFO) order, invoking all hooks after each removal."""
    out = []
    for s in stacks:
        ops = [("inv", h) for h in range(NH)]
        if len(s) >= 2 and R.rng.random() < 0.5:
            live = len(s)
            while live > 0:
                i = R.rng.randrange(live)
                ops.append(("del", i))
                live -= 1
                ops += [("inv", h) for h in range(NH)]
        out.append(ops)
    return out


def to_text(stacks, scr):
    lines = []
    for s, ops in zip(stacks, scr):
        lines.append("stack %d %s" % (len(s), " ".join("; %d %d" % pm for pm in s)))
        lines += ["%s %d" % o for o in ops]
    return "\n".join(lines) + "\n"


def spec_ids(stack):
    """attach the stable implementation-id base (height at creation) to each layer"""
    n = len(stack)
    return [(priv, mask, (n - 1 - i) * 8) for i, (priv, mask) in enumerate(stack)]


def spec2(layers, h):
    n = len(layers)
    for i, (priv, mask, base) in enumerate(layers):
        if mask >> h & 1:
            return "called %d %d %d" % (base + h, priv, n - i)
    return "base %d" % h


def py_layers(R):
    """The Python binding's callback layers (python/addrxlat.c): build the extension from the working tree and run
    harness/py_layers.py.  Returns (failure or None, number of observations, distinct non-trivial)."""
    import os, re, shutil, subprocess, sys, sysconfig, collections
    R.build_lib()
    tree = R.path("lib", "tree")
    d = R.path("pyl")
    os.makedirs(d, exist_ok=True)
    srcs = [os.path.join(tree, "src/addrxlat", f) for f in sorted(os.listdir(os.path.join(tree, "src/addrxlat")))
            if f.endswith(".c") and not f.startswith("test-")]
    cmd = ["gcc", "-shared", "-fPIC", "-O1", "-g", "-w", "-DHAVE_CONFIG_H", "-I" + tree, "-I" + os.path.join(tree, "include"),
           "-I" + os.path.join(tree, "src"), "-I" + os.path.join(tree, "src/addrxlat"), "-I" + sysconfig.get_paths()["include"],
           os.path.join(kdf.REPO, "python/addrxlat.c")] + srcs + ["-o", os.path.join(d, "_addrxlat.so")]
    r = subprocess.run(cmd, capture_output=True, text=True)
    if r.returncode:
        raise kdf.CheckBroken("python/addrxlat.c does not compile from the working tree:\n" + r.stderr[-2000:])
    if os.path.exists(os.path.join(d, "addrxlat")):
        shutil.rmtree(os.path.join(d, "addrxlat"))
    shutil.copytree(os.path.join(kdf.REPO, "python/addrxlat"), os.path.join(d, "addrxlat"), ignore=shutil.ignore_patterns("Makefile*"))
    r = subprocess.run([sys.executable, os.path.join(kdf.VERIF, "harness/py_layers.py")], capture_output=True, text=True,
                       env=dict(os.environ, PYTHONPATH=d), timeout=300)
    obs = collections.defaultdict(dict)
    nobs = 0
    for l in r.stdout.split("\n"):
        m = re.match(r"(again )?(\S+) (\S+) (\d) -> (.*)", l.strip())
        if m:
            nobs += 1
            obs[(m.group(2), m.group(3))][(int(m.group(4)), bool(m.group(1)))] = m.group(5)
    if r.returncode != 0 or nobs < 250:
        return ("python layer script stopped (rc=%s) after %d observations: %s" % (r.returncode, nobs, r.stderr.strip()[-600:]),
                dict(stream="py-layers", stdout_tail=r.stdout[-1500:], stderr=r.stderr[-1500:])), nobs, 0
    nontriv = 0
    for (hook, key), v in sorted(obs.items()):
        if hook in ("after-del",):
            if v.get((0, False), "").startswith("val ") is False:
                return ("bottom layer after the upper layers were removed: %s" % v, dict(stream="py-layers", hook=hook, outcomes=str(v))), nobs, nontriv
            continue
        kind = key.split(":")[0] if ":" in key else None
        if hook == "get_page":
            kind = ("val", "zero", "big", "none", "myerr", "key", "nodata", "notimpl", "str")[(int(key, 16) >> 12) % 9]
        # a value or a foreign exception must come through unchanged from the bottom layer's own method; addrxlat's own exceptions,
        # None and unconvertible results are turned into a status by the first layer: compared from one layer upwards
        first = 0 if (hook in ("read_caps", "layer-is-new") or kind in ("val", "zero", "big", "myerr", "key")) else 1
        want = v.get((first, False))
        for n in range(first, 4):
            nontriv += n > 0
            if v.get((n, False)) != want:
                return ("Python binding: hook %s for %s through %d pass-through layer(s) gives '%s'; %s gives '%s'" %
                        (hook, key, n, v.get((n, False)), "the bottom layer's own method" if first == 0 else "one pass-through layer", want),
                        dict(stream="py-layers", hook=hook, key=key, outcomes={str(k): x for k, x in v.items()},
                             replay="PYTHONPATH=<dir with _addrxlat.so built from python/addrxlat.c> python3 harness/py_layers.py")), nobs, nontriv
        if (1, True) in v and v[(1, True)] != v.get((1, False)):
            return ("Python binding: hook %s for %s through one layer gives '%s' after other layers were created and removed, '%s' before" %
                    (hook, key, v[(1, True)], v.get((1, False))), dict(stream="py-layers", hook=hook, key=key)), nobs, nontriv
    return None, nobs, nontriv


def run(R):
    facts, changed = R.extract()
    proof = R.prove(["Kdf.Props.C17"], THEOREMS)
    stacks = gen(R)
    scr = scripts(R, stacks)
    text = to_text(stacks, scr)
    exe = R.build_harness("s_cb", ["s_cb.c"])
    rc, out, err = R.run_harness(exe, stdin_text=text, env={"ASAN_OPTIONS": "detect_leaks=0:handle_segv=0:detect_stack_use_after_return=0"})
    impl = kdf.obs(out)
    model = kdf.obs(R.run_driver("cb", text))
    exp_n = sum(len(o) for o in scr)
    if len(impl) != exp_n:
        raise kdf.CheckBroken("cb harness produced %d lines, expected %d; rc=%s\n%s" % (len(impl), exp_n, rc, err[-2000:]))
    mism = kdf.diff_streams(impl, model)
    # --- the property's executable statement, evaluated on the implementation
    fails = []
    kinds = {}
    nontrivial = set()
    k = 0
    for si, (s, ops) in enumerate(zip(stacks, scr)):
        layers = spec_ids(s)
        ndel = 0
        for oi, (op, arg) in enumerate(ops):
            got = impl[k]; k += 1
            if op == "del":
                del layers[arg]
                ndel += 1
                continue
            h = arg
            want = spec2(layers, h)
            kind = ("after-del/" if ndel else "") + ("passthrough-top" if layers and not (layers[0][1] >> h & 1) else "override-top" if layers else "empty")
            kinds[kind] = kinds.get(kind, 0) + 1
            if layers and not (layers[0][1] >> h & 1):
                nontrivial.add((tuple(layers), h))
            if got != want:
                fails.append((len(s) + ndel, si, oi, h, got, want))
    pyfail, pyobs, pynontriv = py_layers(R)
    if pyfail and not fails:
        R.violation(pyfail[0], dict(pyfail[1], broken_theorems=proof["broken"]))
    if fails:
        fails.sort()
        d, si, oi, h, got, want = fails[0]
        R.violation("hook %d on stack %s (top first, (priv,mask)) after ops %s: implementation gave '%s', the previously "
                    "installed implementation with its own record would give '%s'" % (h, stacks[si], scr[si][:oi], got, want),
                    dict(stream="cb", stack=stacks[si], ops=scr[si][:oi + 1], hook=h, got=got, want=want,
                         input="stack %d %s\n" % (len(stacks[si]), " ".join("; %d %d" % pm for pm in stacks[si])) +
                               "".join("%s %d\n" % o for o in scr[si][:oi + 1]),
                         broken_theorems=proof["broken"], n_failing=len(fails)))
    elif proof["broken"] or mism is not None:
        R.violation("proof obligation or correspondence broken: theorems %s; first differing line %s" %
                    (proof["broken"], mism),
                    dict(stream="cb", broken_theorems=proof["broken"], lean_log=proof["log"][-1500:],
                         first_diff=None if mism is None else dict(index=mism,
                             impl=impl[mism] if mism < len(impl) else None,
                             model=model[mism] if mism < len(model) else None)),
                    found_input=False)
    cov = dict(obligations=proof["obligations"], discharged=proof["discharged"],
               checker_cmd="cd lean && lake build Kdf.Props.C17 && lake env lean <(#print axioms …)",
               trusted_base=["Lean 4 kernel", "axioms: " + ", ".join(sorted({a for v in proof["axioms"].values() for a in v}) or ["none"]),
                             "tools/extract.py (regex over next_*_cb and addrxlat_ctx_add_cb)",
                             "harness/s_cb.c + gcc + ASan"],
               broken_theorems=proof["broken"], generated_facts=facts.get("cb"),
               evaluations=exp_n, distinct_nontrivial=len(nontrivial),
               rule="stacks of 0..8 layers (exhaustive for depth<=2 over 16 structured masks, random beyond), each "
                    "followed by the same stack without its top layer, all 7 hooks; non-trivial = distinct (stack,hook) "
                    "whose top layer leaves the hook untouched",
               traces_validated_against_impl=len(impl), correspondence_first_diff=mism,
               case_kinds=kinds, python_layer_observations=pyobs, python_layer_nontrivial=pynontriv,
               samples=[dict(stack=stacks[i], ops=scr[i][:12]) for i in (1, len(stacks) // 2, len(stacks) - 2)])
    return "proof", cov, ["an implementation's behaviour is a function of (its identity, the record it is called with)",
                          "C indirect calls behave as modelled; stack overflow of the real code is reported as 'diverge'",
                          "Python binding (python/addrxlat.c): not modelled; its layers are compared with each other and with the bottom "
                          "layer's own methods (7 hooks x 9 outcome kinds x 0..3 layers) on the implementation only"]
